from .runner import M

LAY = "src/allmydata/mutable/layout.py"
PUB = "src/allmydata/mutable/publish.py"
RET = "src/allmydata/mutable/retrieve.py"
FN = "src/allmydata/mutable/filenode.py"
SM = "src/allmydata/mutable/servermap.py"

# pieces of the remembered-read-servermap edit (C09.20)
RS_GET = ("            d = defer.succeed(servermap)\n        else:\n            d = self._get_servermap(mode)\n",
          "            d = defer.succeed(servermap)\n        elif mode == MODE_READ and self._read_servermap is not None:\n"
          "            d = defer.succeed(self._read_servermap)\n        else:\n            d = self._get_servermap(mode)\n"
          "            if mode == MODE_READ:\n                d.addCallback(self._remember_read_servermap)\n")
RS_INIT = (FN, "        self._most_recent_size = None\n        # filled in after __init__ if we're being created for the first time;\n",
           "        self._most_recent_size = None\n        self._read_servermap = None\n"
           "        # filled in after __init__ if we're being created for the first time;\n")
RS_METHODS = (FN, "    def download_best_version(self):\n        \"\"\"\n        I return a Deferred that fires with the contents of the best\n",
              "    def _remember_read_servermap(self, servermap):\n        self._read_servermap = servermap\n        return servermap\n\n"
              "    def _forget_read_servermap(self, res=None):\n        self._read_servermap = None\n        return res\n\n"
              "    def download_best_version(self):\n        \"\"\"\n        I return a Deferred that fires with the contents of the best\n")
RS_NODE_DID = (FN, "        self._downloader_hints = hints\n\n    def _did_upload(self, res, size):\n        self._most_recent_size = size\n",
               "        self._downloader_hints = hints\n\n    def _did_upload(self, res, size):\n        self._most_recent_size = size\n"
               "        self._forget_read_servermap()\n")
RS_VER_DID = (FN, "    def _did_upload(self, res, size):\n        self._most_recent_size = size\n        return res\n\n    def update(self, data, offset):\n",
              "    def _did_upload(self, res, size):\n        self._most_recent_size = size\n        self._node._forget_read_servermap()\n"
              "        return res\n\n    def update(self, data, offset):\n")


# ---- C12-I done faithfully: the test-and-write vector assembly of both write proxies extracted into module helpers ------
_TW_PACK = 'def pack_offsets(verification_key_length, signature_length,\n'
_TW_HELPERS = ('NEW_SHARE_TESTV = (0, 1, b"")\n\ndef checkstring_to_testvs(checkstring):\n    if checkstring == b"":\n'
               '        return []\n    return [(0, len(checkstring), checkstring)]\n\n'
               'def make_tw_vectors(shnum, datavs, testvs=None):\n    if not testvs:\n        testvs = [NEW_SHARE_TESTV]\n'
               '%s\n' + _TW_PACK)
_TW_RETURN = '    return {shnum: (testvs, datavs, None)}\n'
_TW_SDMF_CALL = '        tw_vectors = make_tw_vectors(self.shnum, datavs, self._testvs)\n'
_TW_MDMF_CALL = '        tw_vectors = make_tw_vectors(self.shnum, datavs, self._testvs)\n'
_TW_MDMF_SEND = '        d = self._storage_server.slot_testv_and_readv_and_writev(\n'


def _tw_refactor(ret=_TW_RETURN, sdmf=_TW_SDMF_CALL, mdmf=_TW_MDMF_CALL):
    """(old, new) of the first edit and the further edits of the faithful helper refactor, with three places to vary."""
    return (_TW_PACK, _TW_HELPERS % ret.rstrip("\n")), [
        (LAY,
         '        if checkstring == b"":\n            # An empty checkstring means "the share must still be empty".\n            # A zero-length test vector would match any contents; leave\n            # _testvs empty so finish_publishing uses (0, 1, b"") instead,\n            # as MDMFSlotWriteProxy.set_checkstring does.\n            self._testvs = []\n        else:\n            self._testvs = [(0, len(checkstring), checkstring)]\n',
         '        self._testvs = checkstring_to_testvs(checkstring)\n'),
        (LAY,
         '        if not self._testvs:\n            # Our caller has not provided us with another checkstring\n            # yet, so we assume that we are writing a new share, and set\n            # a test vector that will only allow a new share to be written.\n            self._testvs = []\n            self._testvs.append(tuple([0, 1, b""]))\n\n        tw_vectors = {}\n        tw_vectors[self.shnum] = (self._testvs, datavs, None)\n',
         sdmf),
        (LAY,
         '        if checkstring == b"":\n            # We special-case this, since len("") = 0, but we need\n            # length of 1 for the case of an empty share to work on the\n            # storage server, which is what a checkstring that is the\n            # empty string means.\n            self._testvs = []\n        else:\n            self._testvs = []\n            self._testvs.append((0, len(checkstring), checkstring))\n',
         '        self._testvs = checkstring_to_testvs(checkstring)\n'),
        (LAY,
         '        tw_vectors = {}\n        if not self._testvs:\n            # Make sure we will only successfully write if the share didn\'t\n            # previously exist.\n            self._testvs = []\n            self._testvs.append(tuple([0, 1, b""]))\n',
         ''),
        (LAY,
         '        tw_vectors[self.shnum] = (self._testvs, datavs, None)\n' + _TW_MDMF_SEND,
         mdmf + _TW_MDMF_SEND),
    ]


def _tw_variant(mid, expect, **kw):
    (old, new), edits = _tw_refactor(**kw)
    return M(mid, LAY, old, new, expect, edits=edits)



# ---- C13-I done faithfully: both _do_serialized copies hoisted into a mixin and rewritten in inlineCallbacks style -------
_DS_OLD = ("    def _do_serialized(self, cb, *args, **kwargs):\n        # note: to avoid deadlock, this callable is *not* allowed to invoke\n"
           "        # other serialized methods within this (or any other)\n        # MutableFileNode. The callable should be a bound method of this same\n"
           "        # MFN instance.\n        d = defer.Deferred()\n        self._serializer.addCallback(lambda ignore: cb(*args, **kwargs))\n"
           "        # we need to put off d.callback until this Deferred is finished being\n        # processed. Otherwise the caller's subsequent activities (like,\n"
           "        # doing other things with this node) can cause reentrancy problems in\n        # the Deferred code itself\n"
           "        self._serializer.addBoth(lambda res: eventually(d.callback, res))\n        # add a log.err just in case something really weird happens, because\n"
           "        # self._serializer stays around forever, therefore we won't see the\n        # usual Unhandled Error in Deferred that would give us a hint.\n"
           "        self._serializer.addErrback(log.err)\n        return d\n\n\n")
_DS_ANCHOR = '# use nodemaker.create_mutable_file() to make one of these\n'
_DS_DECO = '    @defer.inlineCallbacks\n'
_DS_RUN = ('        try:\n            res = yield cb(*args, **kwargs)\n        finally:\n'
           '            eventually(finished.callback, None)\n        return res\n')
_DS_MIXIN = ('\nclass _SerializedOperations:\n%s    def _do_serialized(self, cb, *args, **kwargs):\n'
             '        # take our place at the tail first, then wait for the operation ahead of us\n'
             '        ahead = self._serializer\n        self._serializer = finished = defer.Deferred()\n        yield ahead\n%s\n\n')


def _ds_variant(mid, expect, deco=_DS_DECO, run=_DS_RUN):
    return M(mid, FN, _DS_ANCHOR, (_DS_MIXIN % (deco, run)) + _DS_ANCHOR, expect, edits=[
        (FN, 'class MutableFileNode:\n', 'class MutableFileNode(_SerializedOperations):\n'),
        (FN, _DS_OLD + "    def _upload(self, new_contents, servermap):\n", "    def _upload(self, new_contents, servermap):\n"),
        (FN, 'class MutableFileVersion:\n', 'class MutableFileVersion(_SerializedOperations):\n'),
        (FN, _DS_OLD + "    def _upload(self, new_contents):\n", "    def _upload(self, new_contents):\n"),
    ])


MUTANTS = [
    # ---- C09.1 formulas ----------------------------------------------------
    M("retrieve-numseg-floor", RET,
      "            self._num_segments = mathutil.div_ceil(datalength, segsize)\n",
      "            self._num_segments = datalength // segsize\n", "C09.1"),
    M("retrieve-no-tail-fallback", RET,
      "        if  not self._tail_data_size:\n            self._tail_data_size = segsize\n", "", "C09.1"),
    M("retrieve-tail-fallback-inverted", RET,
      "        if  not self._tail_data_size:\n            self._tail_data_size = segsize\n",
      "        if self._tail_data_size:\n            self._tail_data_size = segsize\n", "C09.1"),
    M("retrieve-verinfo-swapped", RET,
      "         IV,\n         segsize,\n         datalength,\n         k,\n         n,\n         known_prefix,\n         offsets_tuple) = self.verinfo\n        self._required_shares = k",
      "         IV,\n         datalength,\n         segsize,\n         k,\n         n,\n         known_prefix,\n         offsets_tuple) = self.verinfo\n        self._required_shares = k",
      "C09.1"),
    M("readproxy-tailblock-floor", LAY,
      "            self._tail_block_size = mathutil.next_multiple(tail_size,\n                                                    self._required_shares)\n",
      "            self._tail_block_size = tail_size\n", "C09.1"),
    M("publish-ctor-args-swapped", PUB,
      "                                   self.segment_size,\n                                   self.datalength)\n",
      "                                   self.datalength,\n                                   self.segment_size)\n", "C09.1"),
    M("writeproxy-verinfo-swapped", LAY,
      "                None,\n                self._segment_size,\n                self._data_length,\n",
      "                None,\n                self._data_length,\n                self._segment_size,\n", "C09.1"),
    M("publish-tail-size-of-padded", PUB,
      "            self.tail_segment_size = self.datalength % segment_size\n",
      "            self.tail_segment_size = self.datalength % DEFAULT_MUTABLE_MAX_SEGMENT_SIZE\n", "C09.1"),
    M("benign-retrieve-attr-instead-of-local", RET,
      "            self._num_segments = mathutil.div_ceil(datalength, segsize)\n",
      "            self._num_segments = mathutil.div_ceil(datalength, self._segment_size)\n", None),
    M("benign-publish-fallback-test-form", PUB,
      "        if self.tail_segment_size == 0 and segment_size:\n",
      "        if segment_size and not self.tail_segment_size:\n", None),
    # Publish's segment-size local is the one stored into self.segment_size, whatever it is called
    M("benign-publish-segment-size-local-renamed", PUB,
      "            segment_size = DEFAULT_MUTABLE_MAX_SEGMENT_SIZE # 128 KiB by default\n        else:\n            segment_size = self.datalength # SDMF is only one segment\n        # this must be a multiple of self.required_shares\n        segment_size = mathutil.next_multiple(segment_size,\n                                              self.required_shares)\n        self.segment_size = segment_size\n\n        # Calculate the starting segment for the upload.\n        if segment_size:\n",
      "            segsz = DEFAULT_MUTABLE_MAX_SEGMENT_SIZE # 128 KiB by default\n        else:\n            segsz = self.datalength # SDMF is only one segment\n        # this must be a multiple of self.required_shares\n        segsz = mathutil.next_multiple(segsz,\n                                              self.required_shares)\n        self.segment_size = segsz\n\n        # Calculate the starting segment for the upload.\n        if segsz:\n",
      None,
      edits=[(PUB, "                                                  segment_size)\n\n            self.starting_segment = offset // segment_size\n",
              "                                                  segsz)\n\n            self.starting_segment = offset // segsz\n"),
             (PUB, "        if segment_size and self.datalength:\n            self.tail_segment_size = self.datalength % segment_size\n",
              "        if segsz and self.datalength:\n            self.tail_segment_size = self.datalength % segsz\n"),
             (PUB, "        if self.tail_segment_size == 0 and segment_size:\n            # The tail segment is the same size as the other segments.\n            self.tail_segment_size = segment_size\n",
              "        if self.tail_segment_size == 0 and segsz:\n            # The tail segment is the same size as the other segments.\n            self.tail_segment_size = segsz\n"),
             (PUB, "            self.end_segment = end // segment_size\n            if end % segment_size == 0:\n",
              "            self.end_segment = end // segsz\n            if end % segsz == 0:\n")]),
    M("benign-update-writer-class-local-renamed", PUB,
      "        writer_class = MDMFSlotWriteProxy\n\n        # For each", "        writer_class_sa = MDMFSlotWriteProxy\n\n        # For each",
      None, edits=[(PUB, "            writer = writer_class(shnum,\n", "            writer = writer_class_sa(shnum,\n")]),
    M("benign-publish-writer-class-local-renamed", PUB,
      "            writer_class = MDMFSlotWriteProxy\n        else:\n            writer_class = SDMFSlotWriteProxy\n",
      "            proxy_cls = MDMFSlotWriteProxy\n        else:\n            proxy_cls = SDMFSlotWriteProxy\n",
      None, edits=[(PUB, "            writer =  writer_class(shnum,\n", "            writer =  proxy_cls(shnum,\n")]),
    M("publish-ctor-args-swapped-renamed-class-local", PUB,       # the renamed class selection is still followed to the call
      "            writer_class = MDMFSlotWriteProxy\n        else:\n            writer_class = SDMFSlotWriteProxy\n",
      "            proxy_cls = MDMFSlotWriteProxy\n        else:\n            proxy_cls = SDMFSlotWriteProxy\n",
      "C09.1", edits=[(PUB, "            writer =  writer_class(shnum,\n", "            writer =  proxy_cls(shnum,\n"),
                      (PUB, "                                   self.segment_size,\n                                   self.datalength)\n",
                       "                                   self.datalength,\n                                   self.segment_size)\n")]),
    M("benign-sdmf-write-vector-local-renamed", LAY,
      "        datavs = [(0, final_share)]\n", "        vectors = [(0, final_share)]\n", None,
      edits=[(LAY, "        tw_vectors = {}\n        tw_vectors[self.shnum] = (self._testvs, datavs, None)\n        return self._storage_server",
              "        tw_vectors = {}\n        tw_vectors[self.shnum] = (self._testvs, vectors, None)\n        return self._storage_server")]),
    M("sdmf-share-written-behind-a-gap", LAY,
      "        datavs = [(0, final_share)]\n", "        datavs = [(len(prefix), final_share)]\n", "C09.3"),
    M("benign-update-start-segment-local-renamed", FN,
      "        start_segment = offset // segsize\n", "        first = offset // segsize\n", None,
      edits=[(FN, "        end_segment = start_segment\n", "        end_segment = first\n"),
             (FN, "        self._start_segment = start_segment\n", "        self._start_segment = first\n"),
             (FN, "        return self._update_servermap(update_range=(start_segment,\n", "        return self._update_servermap(update_range=(first,\n")]),
    M("update-start-segment-rounded-up", FN,
      "        start_segment = offset // segsize\n", "        start_segment = mathutil.div_ceil(offset, segsize)\n", "C09.6"),
    M("benign-update-old-segcount-local-renamed", PUB,
      "            old_segcount = mathutil.div_ceil(version[4],\n                                             version[3])\n            h = hashtree.IncompleteHashTree(old_segcount)\n",
      "            n_old = mathutil.div_ceil(version[4],\n                                             version[3])\n            h = hashtree.IncompleteHashTree(n_old)\n",
      None),
    M("benign-writeproxy-hoist-blocksize", LAY,
      "        self._block_size = self._segment_size // self._required_shares\n        # We also calculate the share size",
      "        bs = self._segment_size // self._required_shares\n        self._block_size = bs\n        # We also calculate the share size",
      None),
    M("benign-readproxy-one-step-tailblock", LAY,
      "            self._tail_block_size = mathutil.next_multiple(tail_size,\n                                                    self._required_shares)\n            self._tail_block_size = self._tail_block_size // self._required_shares\n\n        return encoding_parameters",
      "            padded = mathutil.next_multiple(tail_size, self._required_shares)\n            self._tail_block_size = padded // self._required_shares\n\n        return encoding_parameters",
      None),

    # ---- C09.2 MDMF header -------------------------------------------------
    M("mdmf-offsets-swapped-in-writer", LAY,
      "                              self._offsets['share_hash_chain'],\n                              self._offsets['signature'],\n",
      "                              self._offsets['signature'],\n                              self._offsets['share_hash_chain'],\n", "C09.2"),
    M("mdmf-params-swapped-in-writer", LAY,
      "                             self._total_shares,\n                             self._segment_size,\n                             self._data_length)\n",
      "                             self._total_shares,\n                             self._data_length,\n                             self._segment_size)\n", "C09.2"),
    M("mdmf-reader-offset-keys-crossed", LAY,
      "            self._offsets['block_hash_tree'] = blockhashes\n            self._offsets['share_hash_chain'] = sharehashes\n",
      "            self._offsets['block_hash_tree'] = sharehashes\n            self._offsets['share_hash_chain'] = blockhashes\n", "C09.2"),
    M("mdmf-signable-fields-swapped", LAY,
      "                           self._root_hash,\n                           self._required_shares,\n                           self._total_shares,\n                           self._segment_size,\n                           self._data_length)\n\n\n    def put_signature",
      "                           self._root_hash,\n                           self._required_shares,\n                           self._total_shares,\n                           self._data_length,\n                           self._segment_size)\n\n\n    def put_signature",
      "C09.2"),
    M("mdmf-header-fetch-too-short", LAY,
      "        readvs = [(0, 123)]\n", "        readvs = [(0, 107)]\n", "C09.2"),
    M("mdmf-offsets-written-after-full-header", LAY,
      "        offsets_offset = struct.calcsize(MDMFHEADERWITHOUTOFFSETS)\n",
      "        offsets_offset = struct.calcsize(MDMFHEADER)\n", "C09.2"),
    M("mdmf-checkstring-format-widened", LAY,
      "MDMFCHECKSTRING = \">BQ32s\"\n", "MDMFCHECKSTRING = \">BQ32s16s\"\n", "C09.2"),
    M("benign-reader-offset-stores-reordered", LAY,
      "            self._offsets['enc_privkey'] = encprivkey\n            self._offsets['block_hash_tree'] = blockhashes\n",
      "            self._offsets['block_hash_tree'] = blockhashes\n            self._offsets['enc_privkey'] = encprivkey\n", None),
    M("benign-writer-offsets-offset-constant", LAY,
      "        offsets_offset = struct.calcsize(MDMFHEADERWITHOUTOFFSETS)\n",
      "        offsets_offset = MDMFHEADERWITHOUTOFFSETSSIZE\n", None),

    # ---- C09.3 SDMF --------------------------------------------------------
    M("sdmf-pack-offsets-swapped", LAY,
      "                           offsets['share_data'],\n                           offsets['enc_privkey'],\n",
      "                           offsets['enc_privkey'],\n                           offsets['share_data'],\n", "C09.3"),
    M("sdmf-join-order", LAY,
      "                                self._share_pieces['sharedata'],\n                                self._share_pieces['encprivkey']])\n",
      "                                self._share_pieces['encprivkey'],\n                                self._share_pieces['sharedata']])\n", "C09.3"),
    M("sdmf-offset-chain-skips-a-piece", LAY,
      "        o4 = offsets['share_data'] = o3 + block_hash_tree_length\n\n        share_data_length = len(self._share_pieces['sharedata'])",
      "        o4 = offsets['share_data'] = o2 + block_hash_tree_length\n\n        share_data_length = len(self._share_pieces['sharedata'])",
      "C09.3"),
    M("sdmf-signable-k-n-swapped", LAY,
      "                           self._share_pieces['salt'],\n                           self._required_shares,\n                           self._total_shares,\n",
      "                           self._share_pieces['salt'],\n                           self._total_shares,\n                           self._required_shares,\n", "C09.3"),

    # ---- C09.4 extents -----------------------------------------------------
    M("reader-signature-extent", LAY,
      "                signature_length = self._offsets['verification_key'] - signature_offset\n",
      "                signature_length = self._offsets['verification_key_end'] - signature_offset\n", "C09.4"),
    M("reader-sdmf-blockhashes-extent", LAY,
      "                blockhashes_length = self._offsets['share_data'] - blockhashes_offset\n",
      "                blockhashes_length = self._offsets['enc_privkey'] - blockhashes_offset\n", "C09.4"),
    M("reader-block-offset-without-salt", LAY,
      "                share_offset = base_share_offset + (self._block_size + \\\n                                                    SALT_SIZE) * segnum\n",
      "                share_offset = base_share_offset + self._block_size * segnum\n", "C09.4"),
    M("writer-salt-behind-block", LAY,
      "        data = salt + data\n", "        data = data + salt\n", "C09.4"),
    M("reader-no-salt-allowance", LAY,
      "            if self._version_number == 1:\n                data += SALT_SIZE\n", "", "C09.4"),
    M("writer-encprivkey-next-offset", LAY,
      "        self._offsets['share_hash_chain'] = self._offsets['enc_privkey'] + \\\n                len(encprivkey)\n",
      "        self._offsets['signature'] = self._offsets['enc_privkey'] + \\\n                len(encprivkey)\n", "C09.4"),
    M("benign-reader-inline-offset", LAY,
      "                signature_length = self._offsets['verification_key'] - signature_offset\n",
      "                signature_length = self._offsets['verification_key'] - self._offsets['signature']\n", None),
    M("benign-reader-version-constant", LAY,
      "            signature_offset = self._offsets['signature']\n            if self._version_number == 1:\n",
      "            signature_offset = self._offsets['signature']\n            if self._version_number == MDMF_VERSION:\n", None),

    M("benign-reader-block-result-hoisted", LAY,
      "            return data, salt\n", "            res = data, salt\n            return res\n", None),
    M("benign-reader-read-vector-renamed", LAY,
      "            readvs = [(share_offset, data)]\n            return readvs\n",
      "            vectors = [(share_offset, data)]\n            return vectors\n", None),

    # locals of get_block_and_salt's callbacks are found by role (components of the read vector / of the returned
    # (block, salt) pair), not by spelling
    M("benign-reader-salt-local-renamed", LAY,
      "                salt = self._salt\n            else:\n                data = results[self.shnum]\n                if not data:\n                    salt = data = b\"\"\n                else:\n                    salt_and_data = results[self.shnum][0]\n                    salt = salt_and_data[:SALT_SIZE]\n                    data = salt_and_data[SALT_SIZE:]\n            return data, salt\n",
      "                salt_sa = self._salt\n            else:\n                data = results[self.shnum]\n                if not data:\n                    salt_sa = data = b\"\"\n                else:\n                    salt_and_data = results[self.shnum][0]\n                    salt_sa = salt_and_data[:SALT_SIZE]\n                    data = salt_and_data[SALT_SIZE:]\n            return data, salt_sa\n",
      None),
    M("benign-reader-block-local-renamed", LAY,
      "                data = results[self.shnum]\n                if not data:\n                    data = b\"\"\n                else:\n                    if len(data) != 1:\n                        raise BadShareError(\"got %d vectors, not 1\" % len(data))\n                    data = data[0]\n                salt = self._salt\n            else:\n                data = results[self.shnum]\n                if not data:\n                    salt = data = b\"\"\n                else:\n                    salt_and_data = results[self.shnum][0]\n                    salt = salt_and_data[:SALT_SIZE]\n                    data = salt_and_data[SALT_SIZE:]\n            return data, salt\n",
      "                block = results[self.shnum]\n                if not block:\n                    block = b\"\"\n                else:\n                    if len(block) != 1:\n                        raise BadShareError(\"got %d vectors, not 1\" % len(block))\n                    block = block[0]\n                salt = self._salt\n            else:\n                block = results[self.shnum]\n                if not block:\n                    salt = block = b\"\"\n                else:\n                    salt_and_data = results[self.shnum][0]\n                    salt = salt_and_data[:SALT_SIZE]\n                    block = salt_and_data[SALT_SIZE:]\n            return block, salt\n",
      None),
    M("benign-reader-offset-and-length-locals-renamed", LAY,
      "                share_offset = base_share_offset + self._block_size * segnum\n            else:\n                share_offset = base_share_offset + (self._block_size + \\\n                                                    SALT_SIZE) * segnum\n            if segnum + 1 == self._num_segments:\n                data = self._tail_block_size\n            else:\n                data = self._block_size\n\n            if self._version_number == 1:\n                data += SALT_SIZE\n\n            readvs = [(share_offset, data)]\n",
      "                where = base_share_offset + self._block_size * segnum\n            else:\n                where = base_share_offset + (self._block_size + \\\n                                                    SALT_SIZE) * segnum\n            if segnum + 1 == self._num_segments:\n                length = self._tail_block_size\n            else:\n                length = self._block_size\n\n            if self._version_number == 1:\n                length += SALT_SIZE\n\n            readvs = [(where, length)]\n",
      None),
    M("reader-block-and-salt-returned-crossed", LAY,
      "            return data, salt\n", "            return salt, data\n", "C09.4"),
    M("reader-salt-is-the-tail-of-the-read", LAY,
      "                    salt = salt_and_data[:SALT_SIZE]\n                    data = salt_and_data[SALT_SIZE:]\n",
      "                    salt = salt_and_data[-SALT_SIZE:]\n                    data = salt_and_data[:-SALT_SIZE]\n", "C09.4"),
    M("reader-read-vector-from-base-offset", LAY,
      "            readvs = [(share_offset, data)]\n", "            readvs = [(base_share_offset, data)]\n", "C09.4"),

    # ---- C09.5 tail selection / trim --------------------------------------
    M("benign-encode-encoder-local-renamed", PUB,
      "            fec = self.tail_fec\n        else:\n            fec = self.fec\n\n        self._status.set_status(\"Encoding\")\n        crypttext_pieces = [None] * self.required_shares\n        piece_size = fec.get_block_size()\n",
      "            coder = self.tail_fec\n        else:\n            coder = self.fec\n\n        self._status.set_status(\"Encoding\")\n        crypttext_pieces = [None] * self.required_shares\n        piece_size = coder.get_block_size()\n",
      None, edits=[(PUB, "        res = await fec.encode(crypttext_pieces)\n", "        res = await coder.encode(crypttext_pieces)\n")]),
    M("benign-trim-size-local-renamed", RET,
      "                size_to_use = self._tail_data_size\n            else:\n                size_to_use = self._segment_size\n            segment = segment[:size_to_use]\n",
      "                keep = self._tail_data_size\n            else:\n                keep = self._segment_size\n            segment = segment[:keep]\n",
      None),
    M("trim-to-padded-tail", RET,
      "                size_to_use = self._tail_data_size\n", "                size_to_use = self._tail_segment_size\n", "C09.5"),
    M("trim-predicate-off-by-one", RET,
      "            if segnum == self._num_segments - 1:\n                size_to_use",
      "            if segnum == self._num_segments:\n                size_to_use", "C09.5"),
    M("no-trim", RET, "            segment = segment[:size_to_use]\n", "", "C09.5"),
    M("encode-tail-encoder-swapped", PUB,
      "            fec = self.tail_fec\n        else:\n            fec = self.fec\n",
      "            fec = self.fec\n        else:\n            fec = self.tail_fec\n", "C09.5"),
    M("encode-reads-full-segment-for-tail", PUB,
      "            segsize = self.tail_segment_size\n", "            segsize = self.segment_size\n", "C09.5"),
    M("reader-tail-block-predicate", LAY,
      "            if segnum + 1 == self._num_segments:\n                data = self._tail_block_size\n",
      "            if segnum == self._num_segments:\n                data = self._tail_block_size\n", "C09.5"),
    M("decrypt-dropped", RET,
      "        d = self._decode_blocks(results, segnum)\n        d.addCallback(self._decrypt_segment)\n",
      "        d = self._decode_blocks(results, segnum)\n", "C09.5"),
    M("benign-trim-predicate-form", RET,
      "            if segnum == self._num_segments - 1:\n                size_to_use",
      "            if segnum + 1 == self._num_segments:\n                size_to_use", None),
    M("benign-encode-branches-swapped", PUB,
      "        if segnum + 1 == self.num_segments:\n            fec = self.tail_fec\n        else:\n            fec = self.fec\n",
      "        if segnum + 1 != self.num_segments:\n            fec = self.fec\n        else:\n            fec = self.tail_fec\n", None),

    # ---- C09.6 update path -------------------------------------------------
    M("update-segsize-from-datalength-slot", FN,
      "        segsize = self._version[3]\n", "        segsize = self._version[4]\n", "C09.6"),
    M("update-old-segcount-swapped", PUB,
      "            old_segcount = mathutil.div_ceil(version[4],\n                                             version[3])\n",
      "            old_segcount = mathutil.div_ceil(version[3],\n                                             version[4])\n", "C09.6"),
    M("update-sdmf-gate-wrong-slot", FN,
      "        if self._version[2]: # version[2] == SDMF salt, which MDMF lacks\n",
      "        if self._version[1]: # version[2] == SDMF salt, which MDMF lacks\n", "C09.6"),
    M("uploadable-gets-datalength", FN,
      "        u = TransformingUploadable(data, offset,\n                                   self._version[3],\n",
      "        u = TransformingUploadable(data, offset,\n                                   self._version[4],\n", "C09.6"),

    M("reader-verinfo-salt-slot-inverted", LAY,
      "            if self._version_number == SDMF_VERSION:\n                salt_to_use = self._salt\n",
      "            if self._version_number != SDMF_VERSION:\n                salt_to_use = self._salt\n", "C09.6"),
    M("benign-reader-verinfo-salt-slot-branches-swapped", LAY,
      "            if self._version_number == SDMF_VERSION:\n                salt_to_use = self._salt\n            else:\n                salt_to_use = None\n",
      "            if self._version_number == MDMF_VERSION:\n                salt_to_use = None\n            else:\n                salt_to_use = self._salt\n",
      None),

    # ---- C09.7 patched length (anchored on the repaired text; skipped while the finding is open) ---------
    M("update-length-from-node-cache", PUB,
      "        self.datalength = version[4]\n", "        self.datalength = self._node.get_size()\n", "C09.7"),
    M("update-length-from-size-hint", PUB,
      "        self.datalength = version[4]\n", "        self.datalength = version[3]\n", "C09.7"),

    M("update-length-is-the-smaller", PUB,
      "        if data.get_size() > self.datalength:\n", "        if data.get_size() < self.datalength:\n", "C09.7"),
    M("update-length-never-extended", PUB,
      "        if data.get_size() > self.datalength:\n            self.datalength = data.get_size()\n", "", "C09.7"),
    M("benign-update-length-as-max", PUB,
      "        self.datalength = version[4]\n        if data.get_size() > self.datalength:\n            self.datalength = data.get_size()\n",
      "        self.datalength = max(version[4], data.get_size())\n", None),

    # ---- C09.8 segment ranges (bounded evaluation) --------------------------
    M("publish-push-loop-starts-at-zero", PUB,
      "        self._current_segment = self.starting_segment\n", "        self._current_segment = 0\n", "C09.8"),
    M("publish-end-segment-min-of-floor", PUB,     # the seeded C09-A mechanism
      "            self.end_segment = end // segment_size\n            if end % segment_size == 0:\n                self.end_segment -= 1\n",
      "            self.end_segment = min(end // segment_size, self.end_segment)\n", "C09.8"),
    M("publish-end-segment-ceil-without-minus-one", PUB,
      "            self.end_segment = end // segment_size\n            if end % segment_size == 0:\n                self.end_segment -= 1\n",
      "            self.end_segment = mathutil.div_ceil(end, segment_size)\n", "C09.8"),
    M("publish-end-segment-adjust-inverted", PUB,
      "            if end % segment_size == 0:\n                self.end_segment -= 1\n",
      "            if end % segment_size != 0:\n                self.end_segment -= 1\n", "C09.8"),
    M("publish-full-end-segment-is-count", PUB,
      "        self.end_segment = self.num_segments - 1\n", "        self.end_segment = self.num_segments\n", "C09.8"),
    M("retrieve-last-segment-floor-of-end", RET,
      "        end = (end_data - 1) // self._segment_size\n", "        end = end_data // self._segment_size\n", "C09.8"),
    M("retrieve-start-segment-ceil", RET,
      "            start = self._offset // self._segment_size\n",
      "            start = mathutil.div_ceil(self._offset, self._segment_size)\n", "C09.8"),
    M("benign-publish-end-segment-closed-form", PUB,
      "            self.end_segment = end // segment_size\n            if end % segment_size == 0:\n                self.end_segment -= 1\n",
      "            self.end_segment = (end - 1) // segment_size\n", None),
    M("benign-publish-end-segment-ceil-minus-one", PUB,
      "            self.end_segment = end // segment_size\n            if end % segment_size == 0:\n                self.end_segment -= 1\n",
      "            last = mathutil.div_ceil(end, self.segment_size)\n            self.end_segment = last - 1\n", None),
    M("benign-publish-end-segment-in-helper", PUB,
      "            self.end_segment = end // segment_size\n            if end % segment_size == 0:\n                self.end_segment -= 1\n\n        self.log(\"got start segment %d\" % self.starting_segment)\n        self.log(\"got end segment %d\" % self.end_segment)\n",
      "            self.end_segment = self._segment_of_last_byte(end, segment_size)\n\n        self.log(\"got start segment %d\" % self.starting_segment)\n        self.log(\"got end segment %d\" % self.end_segment)\n\n    def _segment_of_last_byte(self, end, segment_size):\n        if end % segment_size:\n            return end // segment_size\n        return end // segment_size - 1\n",
      None),
    M("benign-retrieve-last-segment-ceil-minus-one", RET,
      "        end = (end_data - 1) // self._segment_size\n",
      "        end = mathutil.div_ceil(end_data, self._segment_size) - 1\n", None),

    # ---- C09.9 old boundary segments fetched by the update -------------------
    M("update-end-segment-of-byte-after", FN,
      "            end_data -= 1\n            end_segment = end_data // segsize\n",
      "            end_segment = end_data // segsize\n", "C09.9"),
    M("update-end-segment-double-decrement", FN,
      "            end_data -= 1\n            end_segment = end_data // segsize\n",
      "            end_data -= 1\n            end_segment = (end_data - 1) // segsize\n", "C09.9"),
    M("update-end-segment-never-computed", FN,
      "        if offset + data.get_size() < self.get_size():\n            end_data = offset + data.get_size()\n",
      "        if offset + data.get_size() < offset:\n            end_data = offset + data.get_size()\n", "C09.9"),
    M("benign-update-end-segment-closed-form", FN,
      "            end_data = offset + data.get_size()\n            # The last byte we touch is the end_data'th byte, which is actually\n            # byte end_data - 1 because bytes are zero-indexed.\n            end_data -= 1\n            end_segment = end_data // segsize\n",
      "            end_segment = (offset + data.get_size() - 1) // segsize\n", None),
    M("benign-update-range-positional", FN,
      "        return self._update_servermap(update_range=(start_segment,\n                                                    end_segment))\n",
      "        rng = (start_segment, end_segment)\n        return self._update_servermap(MODE_WRITE, rng)\n", None),

    # ---- C09.10 decoder inputs ---------------------------------------------------
    M("decode-ids-sorted-blocks-not", RET,          # the seeded C09-B mechanism
      "        shareids = shareids[:self._required_shares]\n",
      "        shareids = sorted(shareids)[:self._required_shares]\n", "C09.10"),
    M("decode-blocks-take-last-k", RET,
      "        shares = shares[:self._required_shares]\n", "        shares = shares[-self._required_shares:]\n", "C09.10"),
    M("decode-ids-sorted-in-place", RET,
      "        # zfec really doesn't want extra shares\n        shareids = shareids[:self._required_shares]\n",
      "        # zfec really doesn't want extra shares\n        shareids.sort()\n        shareids = shareids[:self._required_shares]\n",
      "C09.10"),
    M("decode-blocks-from-other-dict-order", RET,
      "        for shareid, share in d2.items():\n            shareids.append(shareid)\n            shares.append(share)\n",
      "        for shareid, share in d2.items():\n            shareids.append(shareid)\n        for shareid, share in sorted(d2.items()):\n            shares.append(share)\n",
      "C09.10"),
    M("decode-tail-decoder-swapped", RET,
      "            d = self._tail_decoder.decode(shares, shareids)\n        else:\n            d = self._segment_decoder.decode(shares, shareids)\n",
      "            d = self._segment_decoder.decode(shares, shareids)\n        else:\n            d = self._tail_decoder.decode(shares, shareids)\n",
      "C09.10"),
    M("decode-blocks-are-the-salts", RET,
      "        share_and_shareids = [(k, v[0]) for k, v in blocks_and_salts.items()]\n",
      "        share_and_shareids = [(k, v[1]) for k, v in blocks_and_salts.items()]\n", "C09.10"),
    M("decode-salt-is-a-block", RET,
      "        salt = list(blocks_and_salts.items())[0][1][1]\n", "        salt = list(blocks_and_salts.items())[0][1][0]\n", "C09.10"),
    M("decode-salt-is-a-share-number", RET,
      "        salt = list(blocks_and_salts.items())[0][1][1]\n", "        salt = list(blocks_and_salts.items())[0][0]\n", "C09.10"),
    M("benign-decode-salt-of-another-answer", RET,
      "        salt = list(blocks_and_salts.items())[0][1][1]\n", "        salt = list(blocks_and_salts.values())[-1][1]\n", None),
    M("benign-decode-blocks-looked-up-directly", RET,
      "        for shareid, share in d2.items():\n            shareids.append(shareid)\n            shares.append(share)\n",
      "        for shareid, answer in blocks_and_salts.items():\n            shareids.append(shareid)\n            shares.append(answer[0])\n",
      None),
    M("benign-decode-hoist-k", RET,
      "        shareids = shareids[:self._required_shares]\n        shares = shares[:self._required_shares]\n",
      "        k = self._required_shares\n        shareids = shareids[:k]\n        shares = shares[:k]\n", None),
    M("benign-decode-sort-pairs-then-split", RET,
      "        for shareid, share in d2.items():\n            shareids.append(shareid)\n            shares.append(share)\n",
      "        pairs = sorted(d2.items())\n        shareids = [p[0] for p in pairs]\n        shares = [p[1] for p in pairs]\n",
      None),
    M("benign-decode-unzip-sorted-pairs", RET,
      "        shareids = shareids[:self._required_shares]\n        shares = shares[:self._required_shares]\n",
      "        shareids, shares = zip(*sorted(d2.items())[:self._required_shares])\n", None),
    M("benign-decode-selection-predicate-form", RET,
      "        if segnum == self._num_segments - 1:\n            d = self._tail_decoder.decode(shares, shareids)\n",
      "        if segnum + 1 == self._num_segments:\n            d = self._tail_decoder.decode(shares, shareids)\n", None),

    # ---- C09.11 fetched segments exist (anchored on the repaired text; skipped while the finding is open) ----
    M("update-append-on-boundary-gate-misses-empty-file", FN,
      "        if offset // segment_size >= num_old_segments:\n",
      "        if old_size and offset == old_size and offset % segment_size == 0:\n", "C09.11"),   # forgets the empty file
    M("update-append-on-boundary-gate-off-by-one", FN,
      "        if offset // segment_size >= num_old_segments:\n",
      "        if offset // segment_size > num_old_segments:\n", "C09.11"),
    M("benign-update-append-gate-hoisted", FN,
      "        if offset // segment_size >= num_old_segments:\n",
      "        first = offset // segment_size\n        if not first < num_old_segments:\n", None),

    # ---- C09.12 head / tail trimming of a ranged read ---------------------------
    M("set-segment-no-tail-trim", RET, "                segment = segment[:wanted]\n", "                pass\n", "C09.12"),
    M("set-segment-tail-test-inverted", RET, "            if wanted != 0:\n", "            if wanted == 0:\n", "C09.12"),
    M("set-segment-empty-read-test-inverted", RET,
      "        if self._read_length == 0:\n            self.log(\"on first+last", "        if self._read_length != 0:\n            self.log(\"on first+last",
      "C09.12"),
    M("set-segment-one-byte-read-is-empty", RET,
      "        if self._read_length == 0:\n            self.log(\"on first+last", "        if self._read_length <= 1:\n            self.log(\"on first+last",
      "C09.12"),
    M("set-segment-head-trimmed-first", RET,
      "            wanted = (self._offset + self._read_length) % self._segment_size\n",
      "            wanted = (self._offset + self._read_length) % self._segment_size\n"
      "            if self._current_segment == self._start_segment:\n"
      "                segment = segment[self._offset % self._segment_size:]\n", "C09.12",
      edits=[(RET, "            segment = segment[skip:]\n", "            pass\n")]),
    M("set-segment-skip-is-segment-number", RET,
      "            skip = self._offset % self._segment_size\n", "            skip = self._offset // self._segment_size\n", "C09.12"),
    M("set-segment-delivers-only-when-verifying", RET,
      "        if not self._verify:\n            self._consumer.write(segment)\n",
      "        if self._verify:\n            self._consumer.write(segment)\n", "C09.12"),
    M("set-segment-skips-a-segment", RET,
      "            segment = None\n        self._current_segment += 1\n", "            segment = None\n        self._current_segment += 2\n",
      "C09.12"),
    M("benign-set-segment-tail-closed-form", RET,
      "            wanted = (self._offset + self._read_length) % self._segment_size\n            if wanted != 0:\n",
      "            wanted = self._offset + self._read_length - self._last_segment * self._segment_size\n            if wanted != self._segment_size:\n",
      None),
    M("benign-set-segment-skip-inlined", RET,
      "            segment = segment[skip:]\n", "            segment = segment[self._offset % self._segment_size:]\n", None),

    # ---- C09.13 stitching of old boundary segments and new data ------------------
    M("uploadable-old-end-offset-ignores-head", PUB,
      "            old_data_offset = (length - old_end_length + \\\n                               old_data_length) % self._segment_size\n",
      "            old_data_offset = (length - old_end_length) % self._segment_size\n", "C09.13"),
    M("uploadable-first-offset-is-segment-number", PUB,
      "        self._first_segment_offset = offset % segment_size\n", "        self._first_segment_offset = offset // segment_size\n",
      "C09.13"),
    M("uploadable-size-without-offset", PUB,
      "        return self._offset + self._newdata.get_size()\n", "        return self._newdata.get_size()\n", "C09.13"),
    M("uploadable-start-end-crossed", PUB,
      "        self._start = start\n        self._end = end\n", "        self._start = end\n        self._end = start\n", "C09.13"),
    M("uploadable-marker-counts-new-data-only", PUB,
      "        self._read_marker += len(old_start_data + new_data + old_end_data)\n",
      "        self._read_marker += len(new_data)\n", "C09.13"),
    M("uploadable-old-end-test-off-by-one", PUB,
      "        if old_end_length > 0:\n", "        if old_end_length > 1:\n", "C09.13"),
    M("benign-uploadable-hoist-remaining", PUB,
      "        old_end_length = length - \\\n            (self._newdata.get_size() - self._newdata.pos())\n",
      "        remaining = self._newdata.get_size() - self._newdata.pos()\n        old_end_length = length - remaining\n", None),
    M("benign-uploadable-first-offset-from-attrs", PUB,
      "        self._first_segment_offset = offset % segment_size\n",
      "        self._first_segment_offset = self._offset % self._segment_size\n", None),
    M("benign-uploadable-return-hoisted", PUB,
      "        self._read_marker += len(old_start_data + new_data + old_end_data)\n\n        return old_start_data + new_data + old_end_data\n",
      "        out = old_start_data + new_data + old_end_data\n        self._read_marker += len(out)\n        return out\n", None),

    # ---- C09.14 roles of the fetched boundary segments ------------------------------
    M("update-uploadable-start-is-old-end", FN,
      "                                   segments_and_bht[0],\n                                   segments_and_bht[1])\n",
      "                                   segments_and_bht[1],\n                                   segments_and_bht[1])\n", "C09.14"),
    M("update-uploadable-end-is-blockhashes", FN,
      "                                   segments_and_bht[0],\n                                   segments_and_bht[1])\n",
      "                                   segments_and_bht[0],\n                                   segments_and_bht[2])\n", "C09.14"),
    M("update-datum-fields-crossed", FN,
      "            start_segments[shnum] = datum[1] # (block,salt) bytestrings\n            end_segments[shnum] = datum[2]\n",
      "            start_segments[shnum] = datum[2] # (block,salt) bytestrings\n            end_segments[shnum] = datum[1]\n", "C09.14"),
    M("update-decode-segment-numbers-crossed", FN,
      "        d1 = r.decode(start_segments, self._start_segment)\n        d2 = r.decode(end_segments, self._end_segment)\n",
      "        d1 = r.decode(start_segments, self._end_segment)\n        d2 = r.decode(end_segments, self._start_segment)\n", "C09.14"),
    M("update-end-segment-number-is-start", FN,
      "        self._end_segment = end_segment\n", "        self._end_segment = start_segment\n", "C09.14"),
    M("update-start-segment-number-not-recorded", FN,
      "        self._start_segment = start_segment\n", "        pass\n", "C09.14"),
    M("servermap-update-range-crossed", SM,
      "            self.start_segment = update_range[0]\n            self.end_segment = update_range[1]\n",
      "            self.start_segment = update_range[1]\n            self.end_segment = update_range[0]\n", "C09.14"),
    M("servermap-fetch-order-crossed", SM,
      "                ds.append(reader.get_block_and_salt(self.start_segment))\n                ds.append(reader.get_block_and_salt(self.end_segment))\n",
      "                ds.append(reader.get_block_and_salt(self.end_segment))\n                ds.append(reader.get_block_and_salt(self.start_segment))\n",
      "C09.14"),
    M("servermap-update-data-order", SM,
      "        update_data = (blockhashes, start, end)\n", "        update_data = (blockhashes, end, start)\n", "C09.14"),
    M("servermap-update-entry-order", SM,
      "        self.update_data.setdefault(shnum , []).append((verinfo, data))\n",
      "        self.update_data.setdefault(shnum , []).append((data, verinfo))\n", "C09.14"),
    M("update-gather-order", FN,
      "        return deferredutil.gatherResults([d1, d2, d3])\n", "        return deferredutil.gatherResults([d2, d1, d3])\n", "C09.14"),
    M("update-publish-gets-end-segment-as-blockhashes", FN,
      "        return p.update(u, offset, segments_and_bht[2], self._version)\n",
      "        return p.update(u, offset, segments_and_bht[1], self._version)\n", "C09.14"),
    M("update-range-not-handed-to-servermap-updater", FN,
      "        if update_range:\n            u = ServermapUpdater(", "        if not update_range:\n            u = ServermapUpdater(", "C09.14"),
    M("benign-update-servermap-single-constructor-call", FN,
      "        if update_range:\n            u = ServermapUpdater(self._node, self._storage_broker, Monitor(),\n                                 self._servermap,\n                                 mode=mode,\n                                 update_range=update_range)\n        else:\n            u = ServermapUpdater(self._node, self._storage_broker, Monitor(),\n                                 self._servermap,\n                                 mode=mode)\n",
      "        u = ServermapUpdater(self._node, self._storage_broker, Monitor(),\n                             self._servermap, mode=mode, update_range=update_range)\n",
      None),
    M("benign-servermap-fetch-list-literal", SM,
      "                ds = []\n                # XXX: We do this above, too. Is there a good way to\n                # make the two routines share the value without\n                # introducing more roundtrips?\n                ds.append(reader.get_verinfo())\n                ds.append(reader.get_blockhashes())\n                ds.append(reader.get_block_and_salt(self.start_segment))\n                ds.append(reader.get_block_and_salt(self.end_segment))\n",
      "                ds = [reader.get_verinfo(), reader.get_blockhashes(),\n                      reader.get_block_and_salt(self.start_segment),\n                      reader.get_block_and_salt(self.end_segment)]\n",
      None),
    M("benign-update-data-reordered-on-both-sides", SM,
      "        update_data = (blockhashes, start, end)\n", "        update_data = (start, end, blockhashes)\n", None,
      edits=[(FN, "            blockhashes[shnum] = datum[0]\n            start_segments[shnum] = datum[1] # (block,salt) bytestrings\n            end_segments[shnum] = datum[2]\n",
              "            blockhashes[shnum] = datum[2]\n            start_segments[shnum] = datum[0] # (block,salt) bytestrings\n            end_segments[shnum] = datum[1]\n")]),
    M("benign-build-uploadable-unpacks-first", FN,
      "        u = TransformingUploadable(data, offset,\n                                   self._version[3],\n                                   segments_and_bht[0],\n                                   segments_and_bht[1])\n        p = Publish(self._node, self._storage_broker, self._servermap)\n        return p.update(u, offset, segments_and_bht[2], self._version)\n",
      "        old_start, old_end, old_bht = segments_and_bht\n        u = TransformingUploadable(data, offset, self._version[3], old_start, old_end)\n        p = Publish(self._node, self._storage_broker, self._servermap)\n        return p.update(u, offset, old_bht, self._version)\n",
      None),

    # ---- C09.15 the operation's Deferred is returned ---------------------------------
    M("update-sdmf-reencode-result-dropped", FN,
      "            log.msg(\"doing re-encode instead of in-place update\")\n            return self._do_modify_update(data, offset)\n",
      "            log.msg(\"doing re-encode instead of in-place update\")\n            self._do_modify_update(data, offset)\n            return None\n",
      "C09.15"),
    M("update-sdmf-reencode-not-returned", FN,
      "            log.msg(\"doing re-encode instead of in-place update\")\n            return self._do_modify_update(data, offset)\n",
      "            log.msg(\"doing re-encode instead of in-place update\")\n            self._do_modify_update(data, offset)\n",
      "C09.15"),
    M("update-in-place-chain-not-returned", FN,
      "        d.addCallback(self._build_uploadable_and_finish, data, offset)\n        return d\n",
      "        d.addCallback(self._build_uploadable_and_finish, data, offset)\n", "C09.15"),
    M("update-in-place-publish-step-dropped", FN,
      "        d.addCallback(self._build_uploadable_and_finish, data, offset)\n        return d\n", "        return d\n", "C09.15"),
    M("update-publish-not-waited-for", FN,
      "        return p.update(u, offset, segments_and_bht[2], self._version)\n",
      "        p.update(u, offset, segments_and_bht[2], self._version)\n", "C09.15"),
    M("publish-returns-before-done", PUB,
      "        self._push()\n\n        return self.done_deferred\n\n    def _get_some_writer",
      "        self._push()\n\n    def _get_some_writer", "C09.15"),
    M("publish-update-returns-none", PUB,
      "        self._push()\n\n        return self.done_deferred\n\n\n    def publish(self, newdata):",
      "        self._push()\n\n        return None\n\n\n    def publish(self, newdata):", "C09.15"),
    M("retrieve-segment-chain-not-returned", RET,
      "        d.addCallback(self._set_segment)\n        return d\n", "        d.addCallback(self._set_segment)\n", "C09.15"),
    M("modify-upload-not-waited-for", FN,
      "            return self._upload(new_contents)\n        d.addCallback(_apply)\n",
      "            self._upload(new_contents)\n        d.addCallback(_apply)\n", "C09.15"),
    M("benign-build-uploadable-deferred-in-local", FN,
      "        return p.update(u, offset, segments_and_bht[2], self._version)\n",
      "        done = p.update(u, offset, segments_and_bht[2], self._version)\n        return done\n", None),
    M("benign-update-reencode-deferred-in-local", FN,
      "            log.msg(\"doing re-encode instead of in-place update\")\n            return self._do_modify_update(data, offset)\n",
      "            log.msg(\"doing re-encode instead of in-place update\")\n            d = self._do_modify_update(data, offset)\n            return d\n",
      None),

    # ---- C09.16 the share-data region holds every block ---------------------------------
    M("writeproxy-data-size-without-tail-block", LAY, "        data_size += self._tail_block_size\n", "", "C09.16"),
    M("writeproxy-data-size-one-segment-short", LAY,
      "        data_size = self._actual_block_size * (self._num_segments - 1)\n",
      "        data_size = self._actual_block_size * (self._num_segments - 2)\n", "C09.16"),
    M("writeproxy-data-size-without-salts", LAY,
      "        data_size = self._actual_block_size * (self._num_segments - 1)\n",
      "        data_size = self._block_size * (self._num_segments - 1)\n", "C09.16"),
    M("benign-writeproxy-data-size-closed-form", LAY,
      "        data_size = self._actual_block_size * (self._num_segments - 1)\n        data_size += self._tail_block_size\n        data_size += SALT_SIZE\n",
      "        data_size = self._actual_block_size * (self._num_segments - 1) + self._tail_block_size + SALT_SIZE\n", None),

    # ---- C09.17 the queued write vectors are sent ----------------------------------------
    M("mdmf-write-vectors-not-filled", LAY,
      "        tw_vectors[self.shnum] = (self._testvs, datavs, None)\n        d = self._storage_server",
      "        d = self._storage_server", "C09.17"),
    M("sdmf-write-vectors-not-filled", LAY,
      "        tw_vectors = {}\n        tw_vectors[self.shnum] = (self._testvs, datavs, None)\n        return self._storage_server",
      "        tw_vectors = {}\n        return self._storage_server", "C09.17"),
    M("mdmf-write-sends-no-data-vectors", LAY,
      "        tw_vectors[self.shnum] = (self._testvs, datavs, None)\n        d = self._storage_server",
      "        tw_vectors[self.shnum] = (self._testvs, [], None)\n        d = self._storage_server", "C09.17"),
    M("mdmf-finish-sends-fresh-list", LAY,
      "        return self._write(self._writevs)\n", "        return self._write([])\n", "C09.17"),
    M("benign-mdmf-write-vectors-literal", LAY,
      "        tw_vectors[self.shnum] = (self._testvs, datavs, None)\n        d = self._storage_server",
      "        tw_vectors = {self.shnum: (self._testvs, datavs, None)}\n        d = self._storage_server", None),
    # the same assembly behind module helpers (seeded C12-I, repaired): the helper is followed with its arguments bound
    _tw_variant("benign-refactor-tw-vector-helpers-faithful", None),
    _tw_variant("benign-refactor-tw-vector-helper-statement-form", None,
                ret='    tw = {}\n    tw[shnum] = (testvs, datavs, None)\n    return tw\n'),
    _tw_variant("benign-refactor-tw-vector-helper-keyword-call", None,
                mdmf='        tw_vectors = make_tw_vectors(datavs=datavs, testvs=self._testvs, shnum=self.shnum)\n'),
    _tw_variant("refactor-tw-vector-helper-drops-data-vectors", "C09.17",
                ret='    return {shnum: (testvs, [], None)}\n'),
    _tw_variant("refactor-tw-vector-helper-empty-without-testvs", "C09.17",
                ret='    tw = {}\n    if datavs:\n        tw[shnum] = (testvs, datavs[:1], None)\n    return tw\n'),
    _tw_variant("refactor-tw-vector-helper-test-vectors-as-data", "C09.17",
                ret='    return {shnum: (datavs, testvs, None)}\n'),
    _tw_variant("refactor-tw-vector-mdmf-call-other-share-key", "C09.17",
                mdmf='        tw_vectors = make_tw_vectors(self._seqnum, datavs, self._testvs)\n'),
    _tw_variant("refactor-tw-vector-sdmf-call-sends-test-vectors-only", "C09.17",
                sdmf='        tw_vectors = make_tw_vectors(self.shnum, [], self._testvs)\n'),

    # _do_serialized as an inlineCallbacks generator in a shared mixin (seeded C13-I, repaired): the caller always gets a
    # Deferred; what remains is that the operation handed in is waited for
    _ds_variant("benign-refactor-do-serialized-inlinecallbacks-faithful", None),
    _ds_variant("benign-refactor-do-serialized-yield-a-local", None,
                run='        try:\n            d = cb(*args, **kwargs)\n            res = yield d\n        finally:\n'
                    '            eventually(finished.callback, None)\n        return res\n'),
    _ds_variant("benign-refactor-do-serialized-return-the-yield", None,
                run='        try:\n            return (yield cb(*args, **kwargs))\n        finally:\n'
                    '            eventually(finished.callback, None)\n'),
    _ds_variant("refactor-do-serialized-operation-not-yielded", "C09.15",
                run='        try:\n            res = cb(*args, **kwargs)\n        finally:\n'
                    '            eventually(finished.callback, None)\n        return res\n'),
    _ds_variant("refactor-do-serialized-operation-result-dropped", "C09.15",
                run='        try:\n            cb(*args, **kwargs)\n            res = yield finished\n        finally:\n'
                    '            eventually(finished.callback, None)\n        return res\n'),
    _ds_variant("refactor-do-serialized-decorator-lost", "C09.15", deco=''),
    M("modify-no-change-test-inverted", FN,
      "            if new_contents is None or new_contents == old_contents:\n",
      "            if not (new_contents is None or new_contents == old_contents):\n", "C09.15"),
    M("modify-change-detected-by-length", FN,
      "            if new_contents is None or new_contents == old_contents:\n",
      "            if new_contents is None or len(new_contents) == len(old_contents):\n", "C09.15"),
    M("modify-attempt-not-chained", FN,
      "        d.addCallback(lambda ignored:\n            self._modify_once(modifier, first_time))\n", "", "C09.15"),
    M("modify-uploads-old-contents", FN,
      "                new_contents = MutableData(new_contents)\n", "                new_contents = MutableData(old_contents)\n", "C09.15"),
    M("benign-modify-no-change-test-operands-swapped", FN,
      "            if new_contents is None or new_contents == old_contents:\n",
      "            if old_contents == new_contents or new_contents is None:\n", None),
    M("update-decode-not-decrypted", RET,
      "        d = self._decode_blocks([blocks_and_salts], segnum)\n        d.addCallback(self._decrypt_segment)\n",
      "        d = self._decode_blocks([blocks_and_salts], segnum)\n", "C09.5"),

    # ---- C09.18 a ranged read is started for the range asked for -----------------------------
    M("download-one-byte-read-short-circuits", RET,
      "        if size == 0:\n            # short-circuit the rest of the process\n",
      "        if size <= 1:\n            # short-circuit the rest of the process\n", "C09.18"),
    M("download-default-size-ignores-offset", RET,
      "            size = self._data_length - offset\n        if self._verify:", "            size = self._data_length\n        if self._verify:", "C09.18"),
    M("start-download-reads-to-end-of-file", RET,
      "        self._offset = offset\n        self._read_length = size\n",
      "        self._offset = offset\n        self._read_length = self._data_length - offset\n", "C09.18"),
    M("start-download-offset-not-recorded", RET,
      "        self._offset = offset\n        self._read_length = size\n",
      "        self._offset = 0\n        self._read_length = size\n", "C09.18"),
    M("benign-download-size-default-conditional-expression", RET,
      "        if size is None:\n            size = self._data_length - offset\n        if self._verify:",
      "        size = self._data_length - offset if size is None else size\n        if self._verify:", None),

    # ---- C09.19 the update decides from the size of the version being updated, not the node's cached size ------
    M("update-end-segment-gate-uses-cached-node-size", FN,          # seeded C09-F
      "        if offset + data.get_size() < self.get_size():\n            end_data = offset + data.get_size()\n",
      "        if offset + data.get_size() < self._node.get_size():\n            end_data = offset + data.get_size()\n",
      "C09.19"),
    M("update-end-segment-gate-uses-most-recent-size-via-local", FN,      # same effect, another spelling
      "        end_segment = start_segment\n        if offset + data.get_size() < self.get_size():\n",
      "        end_segment = start_segment\n        node = self._node\n        cur = node._most_recent_size\n"
      "        if cur is not None and offset + data.get_size() < cur:\n",
      "C09.19"),
    M("update-reencode-gate-uses-cached-node-size", FN,             # sibling consumer: old segment count in _update
      "        old_size = self.get_size()\n        segment_size = self._version[3]\n",
      "        old_size = self._node.get_size()\n        segment_size = self._version[3]\n", "C09.19"),
    M("update-offset-assert-uses-cached-node-size", FN,             # a stale smaller size refuses a valid update
      "        assert offset <= self.get_size()\n\n        segsize = self._version[3]\n",
      "        assert offset <= self._node.get_size()\n\n        segsize = self._version[3]\n", "C09.19"),
    M("version-get-size-is-cached-node-size", FN,
      "        return self._servermap.size_of_version(self._version)\n",
      "        return self._node.get_size()\n", "C09.19"),
    M("version-get-size-is-segment-size-slot", FN,
      "        return self._servermap.size_of_version(self._version)\n",
      "        return self._version[3]\n", "C09.19"),
    M("benign-version-get-size-from-verinfo-slot", FN,
      "        return self._servermap.size_of_version(self._version)\n",
      "        return self._version[4]\n", None),
    M("benign-update-old-size-hoisted-into-local", FN,
      "        assert offset <= self.get_size()\n\n        segsize = self._version[3]\n",
      "        old_size = self.get_size()\n        assert offset <= old_size\n\n        segsize = self._version[3]\n", None,
      edits=[(FN, "        if offset + data.get_size() < self.get_size():\n            end_data = offset + data.get_size()\n",
              "        if offset + data.get_size() < old_size:\n            end_data = offset + data.get_size()\n")]),
    M("benign-update-end-gate-from-verinfo-slot", FN,
      "        if offset + data.get_size() < self.get_size():\n            end_data = offset + data.get_size()\n",
      "        if self._version[4] > offset + data.get_size():\n            end_data = offset + data.get_size()\n", None),
    M("benign-update-logs-cached-node-size", FN,                  # reading the cached size without deciding anything by it
      "        assert offset <= self.get_size()\n\n        segsize = self._version[3]\n",
      "        assert offset <= self.get_size()\n        log.msg(\"node last saw %r bytes\" % (self._node.get_size(),))\n\n"
      "        segsize = self._version[3]\n", None),

    # ---- C09.20 a read is served from the grid as it is after the last write -------------------------------------
    # the seeded mechanism: the MODE_READ servermap is remembered and reused; node- and version-level _did_upload drop it, the
    # in-place path (_build_uploadable_and_finish -> Publish.update) does not
    M("read-servermap-remembered-inplace-update-keeps-it", FN, *RS_GET, "C09.20", edits=[RS_INIT, RS_METHODS, RS_NODE_DID, RS_VER_DID]),
    # ... the drop is registered on the update chain, but before the publish joins it
    M("read-servermap-dropped-before-the-inplace-publish", FN, *RS_GET, "C09.20",
      edits=[RS_INIT, RS_METHODS, RS_NODE_DID, RS_VER_DID,
             (FN, "        d = self._do_update_update(data, offset)\n        d.addCallback(self._decode_and_decrypt_segments, data, offset)\n",
              "        d = self._do_update_update(data, offset)\n        d.addCallback(self._node._forget_read_servermap)\n"
              "        d.addCallback(self._decode_and_decrypt_segments, data, offset)\n")]),
    # a different cache with the same effect: the node hands out the last version object it built for a download
    M("last-version-object-reused-for-reads", FN,
      "        self._most_recent_size = mfv.get_size()\n        return mfv\n",
      "        self._most_recent_size = mfv.get_size()\n        self._last_version = mfv\n        return mfv\n", "C09.20",
      edits=[(FN, "        self._most_recent_size = None\n        # filled in after __init__ if we're being created for the first time;\n",
              "        self._most_recent_size = None\n        self._last_version = None\n"
              "        # filled in after __init__ if we're being created for the first time;\n"),
             (FN, "        represent\n        \"\"\"\n        return self.get_readable_version()\n",
              "        represent\n        \"\"\"\n        if self._last_version is not None:\n"
              "            return defer.succeed(self._last_version)\n        return self.get_readable_version()\n"),
             (FN, "        self._downloader_hints = hints\n\n    def _did_upload(self, res, size):\n        self._most_recent_size = size\n",
              "        self._downloader_hints = hints\n\n    def _did_upload(self, res, size):\n        self._most_recent_size = size\n"
              "        self._last_version = None\n")]),
    # ... and the downloaded contents themselves
    M("downloaded-contents-remembered-inplace-update-keeps-them", FN,
      "        d = self.get_best_readable_version()\n        d.addCallback(self._record_size)\n"
      "        d.addCallback(lambda version: version.download_to_data())\n\n        # It is possible that the download will fail because there\n",
      "        if self._contents is not None:\n            return defer.succeed(self._contents)\n"
      "        d = self.get_best_readable_version()\n        d.addCallback(self._record_size)\n"
      "        d.addCallback(lambda version: version.download_to_data())\n\n        # It is possible that the download will fail because there\n",
      "C09.20",
      edits=[(FN, "        self._most_recent_size = None\n        # filled in after __init__ if we're being created for the first time;\n",
              "        self._most_recent_size = None\n        self._contents = None\n"
              "        # filled in after __init__ if we're being created for the first time;\n"),
             (FN, "        d.addErrback(_maybe_retry)\n        return d\n",
              "        d.addErrback(_maybe_retry)\n        def _remember(data):\n            self._contents = data\n            return data\n"
              "        d.addCallback(_remember)\n        return d\n"),
             (FN, "        self._downloader_hints = hints\n\n    def _did_upload(self, res, size):\n        self._most_recent_size = size\n",
              "        self._downloader_hints = hints\n\n    def _did_upload(self, res, size):\n        self._most_recent_size = size\n"
              "        self._contents = None\n"),
             (FN, "    def _did_upload(self, res, size):\n        self._most_recent_size = size\n        return res\n\n    def update(self, data, offset):\n",
              "    def _did_upload(self, res, size):\n        self._most_recent_size = size\n        self._node._contents = None\n"
              "        return res\n\n    def update(self, data, offset):\n")]),
    # benign: the same remembered servermap, dropped behind every publish (in-place one included)
    M("benign-read-servermap-remembered-dropped-behind-every-publish", FN, *RS_GET, None,
      edits=[RS_INIT, RS_METHODS, RS_NODE_DID, RS_VER_DID,
             (FN, "        p = Publish(self._node, self._storage_broker, self._servermap)\n"
                  "        return p.update(u, offset, segments_and_bht[2], self._version)\n",
              "        p = Publish(self._node, self._storage_broker, self._servermap)\n"
              "        d = p.update(u, offset, segments_and_bht[2], self._version)\n"
              "        d.addCallback(self._node._forget_read_servermap)\n        return d\n")]),
    # benign: ... or one level up, around the serialized update
    M("benign-read-servermap-remembered-dropped-in-update", FN, *RS_GET, None,
      edits=[RS_INIT, RS_METHODS, RS_NODE_DID, RS_VER_DID,
             (FN, "        return self._do_serialized(self._update, data, offset)\n",
              "        d = self._do_serialized(self._update, data, offset)\n"
              "        d.addBoth(lambda res: self._node._forget_read_servermap(res))\n        return d\n")]),
    # benign: the servermap source rearranged, nothing remembered
    M("benign-servermap-source-rearranged", FN,
      "        if servermap and servermap.get_last_update()[0] == mode:\n            d = defer.succeed(servermap)\n"
      "        else:\n            d = self._get_servermap(mode)\n",
      "        usable = servermap and servermap.get_last_update()[0] == mode\n        if not usable:\n"
      "            fresh = self._get_servermap(mode)\n            d = fresh\n        else:\n            d = defer.succeed(servermap)\n", None),
    # benign: bookkeeping assigned during reads that no read is served from
    M("benign-read-counter-on-the-node", FN,
      "        self._most_recent_size = mfv.get_size()\n        return mfv\n",
      "        self._most_recent_size = mfv.get_size()\n        self._last_read_seqnum = mfv.get_sequence_number()\n        return mfv\n", None),
    M("vanish-build-uploadable-and-finish-publish", FN,
      "        p = Publish(self._node, self._storage_broker, self._servermap)\n"
      "        return p.update(u, offset, segments_and_bht[2], self._version)\n",
      "        return self._node._publish_in_place(self._servermap, u, offset, segments_and_bht[2], self._version)\n", "ANALYSIS-ERROR"),

    # ---- vanished anchor ---------------------------------------------------
    M("vanish-uploadable-read", PUB, "    def read(self, length):\n        # We can get data from 3 sources here.",
      "    def read_some(self, length):\n        # We can get data from 3 sources here.", "ANALYSIS-ERROR"),
    M("vanish-got-update-results", SM, "    def _got_update_results_one_share(self, results, share):",
      "    def _got_update_results_for_share(self, results, share):", "ANALYSIS-ERROR"),
    M("vanish-process-offsets", LAY, "    def _process_offsets(self, offsets):", "    def _process_offsetsX(self, offsets):",
      "ANALYSIS-ERROR"),
]
