from .runner import M

SM = "src/allmydata/mutable/servermap.py"
RET = "src/allmydata/mutable/retrieve.py"
LAY = "src/allmydata/mutable/layout.py"
PUB = "src/allmydata/mutable/publish.py"
HT = "src/allmydata/hashtree.py"

HT_PARENT = ("                    if self[parentnum]:\n"
             "                        if self[parentnum] != new_parent_hash:\n"
             "                            raise BadHashError(\"h([%d]+[%d]) != h[%d]\" %\n"
             "                                               (leftnum, rightnum, parentnum))\n"
             "                    else:\n"
             "                        self[parentnum] = new_parent_hash\n"
             "                        remove_upon_failure.add(parentnum)\n"
             "                        parent_level = depth_of(parentnum)\n"
             "                        assert parent_level == level-1\n"
             "                        hashes_to_check[parent_level].add(parentnum)\n")
HT_HANDLER = "        except (BadHashError, NotEnoughHashesError, IndexError):\n            for i in remove_upon_failure:"
HT_LEVELS = "            for level in reversed(range(len(hashes_to_check))):"

FP_IF = ("        if fingerprint != self._node.get_fingerprint():\n"
         "            raise CorruptShareError(server, shnum,\n"
         "                                    \"pubkey doesn't match fingerprint\")\n")
SIG_TRY = ("            try:\n"
           "                rsa.verify_signature(self._node.get_pubkey(), signature[1], prefix)\n"
           "            except BadSignature:\n"
           "                raise CorruptShareError(server, shnum,\n"
           "                                        \"signature is invalid\")\n")
LEAF_TRY = ("        try:\n"
            "           bht.set_hashes(leaves={segnum: blockhash})\n"
            "        except (hashtree.BadHashError, hashtree.NotEnoughHashesError, \\\n"
            "                IndexError) as e:\n"
            "            raise CorruptShareError(server,\n"
            "                                    reader.shnum,\n"
            "                                    \"block hash tree failure: %s\" % e)\n")
SH_TRY = ("        try:\n"
          "            self.share_hash_tree.set_hashes(hashes=sharehashes,\n"
          "                                        leaves={reader.shnum: bht[0]})\n"
          "        except (hashtree.BadHashError, hashtree.NotEnoughHashesError, \\\n"
          "                IndexError) as e:\n"
          "            raise CorruptShareError(server,\n"
          "                                    reader.shnum,\n"
          "                                    \"corrupt hashes: %s\" % e)\n")
SM_PRIV_IF = ("        if alleged_writekey != node_writekey:\n"
              "            self.log(\"invalid privkey from %r shnum %d\" %\n"
              "                     (server.get_name(), shnum),\n"
              "                     parent=lp, level=log.WEIRD, umid=\"aJVccw\")\n"
              "            return\n")

SHC_CB = ("        def _build_share_hash_chain(results):\n"
          "            if self.shnum not in results:\n"
          "                raise BadShareError(\"no data for shnum %d\" % self.shnum)\n"
          "\n"
          "            sharehashes = results[self.shnum][0]\n"
          "            results = [sharehashes[i:i+(HASH_SIZE + 2)]\n"
          "                       for i in range(0, len(sharehashes), HASH_SIZE + 2)]\n"
          "            results = dict([struct.unpack(\">H32s\", data)\n"
          "                            for data in results])\n"
          "            return results\n")
SHC_TAIL = SHC_CB + "        d.addCallback(_build_share_hash_chain)\n        d.addErrback(_handle_bad_struct)\n        return d\n"

# ---- round 6: the three hash-tree updates of _validate_block routed through a helper (seeded C10-I)
BH_IF = ("        if bht.needed_hashes(segnum, include_leaf=True):\n"
         "            try:\n"
         "                bht.set_hashes(blockhashes)\n"
         "            except (hashtree.BadHashError, hashtree.NotEnoughHashesError, \\\n"
         "                    IndexError) as e:\n"
         "                raise CorruptShareError(server,\n"
         "                                        reader.shnum,\n"
         "                                        \"block hash tree failure: %s\" % e)\n")
BH_IF_H = ("        if blockhashes:\n"
           "            self._add_hashes(bht, reader, \"block hash tree failure\",\n"
           "                             hashes=blockhashes)\n")
LEAF_H = ("        self._add_hashes(bht, reader, \"block hash tree failure\",\n"
          "                         leaves={segnum: blockhash})\n")
SH_H_GUARDED = ("        if sharehashes:\n"
                "            self._add_hashes(self.share_hash_tree, reader, \"corrupt hashes\",\n"
                "                             hashes=sharehashes,\n"
                "                             leaves={reader.shnum: bht[0]})\n")
SH_H_FAITHFUL = ("        self._add_hashes(self.share_hash_tree, reader, \"corrupt hashes\",\n"
                 "                         hashes=dict(sharehashes),\n"
                 "                         leaves={reader.shnum: bht[0]})\n")
SH_H_TWO_ARMS = ("        if sharehashes:\n"
                 "            self._add_hashes(self.share_hash_tree, reader, \"corrupt hashes\",\n"
                 "                             hashes=sharehashes,\n"
                 "                             leaves={reader.shnum: bht[0]})\n"
                 "        else:\n"
                 "            self._add_hashes(self.share_hash_tree, reader, \"corrupt hashes\",\n"
                 "                             leaves={reader.shnum: bht[0]})\n")
GNH_DEF = "    def _get_needed_hashes(self, reader, segnum):\n"
ADD_HASHES_BODY = ("        try:\n"
                   "            tree.set_hashes(hashes=hashes, leaves=leaves)\n"
                   "        except (hashtree.BadHashError, hashtree.NotEnoughHashesError,\n"
                   "                IndexError) as e:\n"
                   "            raise CorruptShareError(reader.server,\n"
                   "                                    reader.shnum,\n"
                   "                                    \"%s: %s\" % (what, e))\n\n\n")
ADD_HASHES = "    def _add_hashes(self, tree, reader, what, hashes=None, leaves=None):\n" + ADD_HASHES_BODY
GNH_OLD = ("        if self.share_hash_tree.needed_hashes(reader.shnum):\n"
           "            need = self.share_hash_tree.needed_hashes(reader.shnum)\n"
           "            self.log(\"also need sharehashes for share %d: %s\" % (reader.shnum,\n"
           "                                                                 str(need)))\n"
           "            d2 = reader.get_sharehashes(need, force_remote=False)\n"
           "        else:\n"
           "            d2 = defer.succeed({}) # the logic in the next method\n"
           "                                   # expects a dict\n"
           "        return d1,d2\n")
GNH_NEW = ("        need = self.share_hash_tree.needed_hashes(reader.shnum)\n"
           "        if need:\n"
           "            self.log(\"also need sharehashes for share %d: %s\" % (reader.shnum,\n"
           "                                                                 str(need)))\n"
           "        d2 = reader.get_sharehashes(need, force_remote=False)\n"
           "        return d1, d2\n")
LOGS_OLD = ("                 list(blockhashes.keys()))\n"
            "        self.log(\"the reader gave me the following sharehashes: %s\" % \\\n"
            "                 list(sharehashes.keys()))\n")
LOGS_NEW = ("                 list(blockhashes))\n"
            "        self.log(\"the reader gave me the following sharehashes: %s\" % \\\n"
            "                 list(sharehashes))\n")


def _helper_refactor(sh_new, helper=ADD_HASHES, leaf_new=LEAF_H):
    """the C10-I refactor as edits of the current source; sh_new is the share-hash-tree update"""
    return [(RET, LOGS_OLD, LOGS_NEW), (RET, BH_IF, BH_IF_H), (RET, LEAF_TRY, leaf_new), (RET, SH_TRY, sh_new),
            (RET, GNH_OLD, GNH_NEW)], (RET, GNH_DEF, helper + GNH_DEF)


MUTANTS = [
    # ---- C10.1 fingerprint gate
    M("fp-compare-deleted", SM, FP_IF, "", "C10.1"),
    M("fp-compare-flipped", SM, "        if fingerprint != self._node.get_fingerprint():",
      "        if fingerprint == self._node.get_fingerprint():", "C10.1"),
    M("fp-compare-wrong-field", SM, "        if fingerprint != self._node.get_fingerprint():",
      "        if fingerprint != self._node.get_storage_index():", "C10.1"),
    M("fp-populate-before-compare", SM,
      "        fingerprint = hashutil.ssk_pubkey_fingerprint_hash(pubkey_s)\n        assert len(fingerprint) == 32\n",
      "        self._node._populate_pubkey(self._deserialize_pubkey(pubkey_s))\n"
      "        fingerprint = hashutil.ssk_pubkey_fingerprint_hash(pubkey_s)\n        assert len(fingerprint) == 32\n", "C10.1"),
    M("fp-only-logged", SM, FP_IF,
      "        if fingerprint != self._node.get_fingerprint():\n"
      "            self.log(\"pubkey doesn't match fingerprint\", parent=lp, level=log.WEIRD)\n", "C10.1"),
    M("fp-benign-eq-form", SM, "        if fingerprint != self._node.get_fingerprint():",
      "        if not (self._node.get_fingerprint() == fingerprint):", None),
    M("fp-benign-inline", SM,
      "        if fingerprint != self._node.get_fingerprint():",
      "        expected_fp = self._node.get_fingerprint()\n"
      "        if hashutil.ssk_pubkey_fingerprint_hash(pubkey_s) != expected_fp:", None),
    # ---- C10.2 who may install keys
    M("pubkey-installed-unchecked", SM, "self._try_to_set_pubkey(results, server, shnum, lp))",
      "self._node._populate_pubkey(self._deserialize_pubkey(results)))", "C10.2"),
    M("privkey-installed-from-retrieve-done", RET,
      "        self._node._populate_required_shares(k)\n",
      "        self._node._populate_required_shares(k)\n        self._node._pubkey = self._node.get_pubkey() or self.readers[0]._pubkey\n",
      "C10.2"),
    # ---- C10.3 signature gate
    M("sig-handler-swallows", SM, SIG_TRY,
      "            try:\n"
      "                rsa.verify_signature(self._node.get_pubkey(), signature[1], prefix)\n"
      "            except BadSignature:\n"
      "                self.log(\"signature is invalid\", parent=lp, level=log.WEIRD)\n", "C10.3"),
    M("sig-verify-deleted", SM, SIG_TRY, "            pass\n", "C10.3"),
    M("sig-over-wrong-data", SM, "rsa.verify_signature(self._node.get_pubkey(), signature[1], prefix)",
      "rsa.verify_signature(self._node.get_pubkey(), signature[1], root_hash)", "C10.3"),
    M("share-recorded-before-verify", SM,
      "        if verinfo not in self._valid_versions:\n            # This is a new version tuple",
      "        self._servermap.add_new_share(server, shnum, verinfo, time.time())\n"
      "        if verinfo not in self._valid_versions:\n            # This is a new version tuple", "C10.3"),
    M("sig-skip-on-known-seqnum", SM, "        if verinfo not in self._valid_versions:",
      "        if seqnum not in [v[0] for v in self._valid_versions]:", "C10.3"),
    M("sig-benign-in-form", SM, "        if verinfo not in self._valid_versions:",
      "        if not (verinfo in self._valid_versions):", None),
    M("sig-benign-hoist-pubkey", SM,
      "                rsa.verify_signature(self._node.get_pubkey(), signature[1], prefix)\n",
      "                sig = signature[1]\n                rsa.verify_signature(self._node.get_pubkey(), sig, prefix)\n", None),
    M("sig-benign-rename-raw-verinfo", SM,
      "        _, verinfo, signature, __, ___ = results\n        verinfo = self._make_verinfo_hashable(verinfo[1])\n",
      "        _, raw_verinfo, signature, __, ___ = results\n        verinfo = self._make_verinfo_hashable(raw_verinfo[1])\n", None),
    # ---- C10.4 who may record
    M("publish-records-surprise-share", PUB,
      "                    # signal UCW, but make sure to ask this server next time,\n",
      "                    self._servermap.add_new_share(server, shnum, checkstring, now)\n", "C10.4"),
    M("update-data-marks-version-valid", SM,
      "        update_data = (blockhashes, start, end)\n",
      "        update_data = (blockhashes, start, end)\n        self._valid_versions.add(verinfo)\n", "C10.4"),
    M("checker-writes-known-shares", "src/allmydata/mutable/checker.py",
      "    def _process_bad_shares(self, bad_shares):\n        if bad_shares:\n            self.need_repair = True\n",
      "    def _process_bad_shares(self, bad_shares):\n        if bad_shares:\n            self.need_repair = True\n"
      "        for (server, shnum, f) in bad_shares:\n"
      "            self._servermap_for_report._known_shares[(server, shnum)] = (self.best_version, 0)\n", "C10.4"),
    # ---- C10.5 signed prefix covers the verinfo
    M("verinfo-prefix-raw-bytes", LAY, "                    self._build_prefix(),\n",
      "                    self._data[:SIGNED_PREFIX_LENGTH],\n", "C10.5"),
    M("verinfo-roothash-unsigned", LAY,
      "            return (self._sequence_number,\n                    self._root_hash,\n",
      "            return (self._sequence_number,\n                    self._offsets.get('root_hash', self._root_hash),\n", "C10.5"),
    # ---- C10.6 hash gates
    M("mdmf-hash-block-only", RET, "blockhash = await defer_to_thread(hashutil.block_hash, salt + block)",
      "blockhash = await defer_to_thread(hashutil.block_hash, block)", "C10.6"),
    M("leaf-handler-swallows", RET, LEAF_TRY,
      "        try:\n"
      "           bht.set_hashes(leaves={segnum: blockhash})\n"
      "        except (hashtree.BadHashError, hashtree.NotEnoughHashesError, \\\n"
      "                IndexError) as e:\n"
      "            self.log(\"block hash tree failure: %s\" % e)\n", "C10.6"),
    M("sharehash-check-dropped", RET, SH_TRY, "", "C10.6"),
    M("sharehash-only-when-needed", RET, SH_TRY,
      "        if sharehashes:\n"
      "            try:\n"
      "                self.share_hash_tree.set_hashes(hashes=sharehashes,\n"
      "                                            leaves={reader.shnum: bht[0]})\n"
      "            except (hashtree.BadHashError, hashtree.NotEnoughHashesError, \\\n"
      "                    IndexError) as e:\n"
      "                raise CorruptShareError(server,\n"
      "                                        reader.shnum,\n"
      "                                        \"corrupt hashes: %s\" % e)\n", "C10.6"),
    M("leaf-index-constant", RET, "bht.set_hashes(leaves={segnum: blockhash})", "bht.set_hashes(leaves={0: blockhash})", "C10.6"),
    M("leaf-hash-of-hashes", RET, "blockhash = await defer_to_thread(hashutil.block_hash, block)",
      "blockhash = await defer_to_thread(hashutil.block_hash, blockhashes.get(segnum, b''))", "C10.6"),
    M("wrong-share-tree", RET, "        bht = self._block_hash_trees[reader.shnum]\n\n        if bht.needed_hashes",
      "        bht = self._block_hash_trees[0]\n\n        if bht.needed_hashes", "C10.6"),
    M("validate-other-segment", RET, "            d.addCallback(self._validate_block, segnum, reader, reader.server, started)",
      "            d.addCallback(self._validate_block, 0, reader, reader.server, started)", "C10.6"),
    # C10-I: hash-tree updates through a helper
    M("helper-refactor-sharehash-leaf-guarded", *_helper_refactor(SH_H_GUARDED)[1], "C10.6", edits=_helper_refactor(SH_H_GUARDED)[0]),
    M("helper-refactor-benign-faithful", *_helper_refactor(SH_H_FAITHFUL)[1], None, edits=_helper_refactor(SH_H_FAITHFUL)[0]),
    M("helper-refactor-benign-guard-skips-only-hashes", *_helper_refactor(SH_H_TWO_ARMS)[1], None,
      edits=_helper_refactor(SH_H_TWO_ARMS)[0]),
    M("helper-refactor-helper-skips-when-no-hashes", RET, GNH_DEF,
      "    def _add_hashes(self, tree, reader, what, hashes=None, leaves=None):\n"
      "        if not hashes:\n            return\n" + ADD_HASHES_BODY + GNH_DEF, "C10.6",
      edits=_helper_refactor(SH_H_FAITHFUL)[0]),
    M("helper-refactor-helper-swallows", RET, GNH_DEF,
      "    def _add_hashes(self, tree, reader, what, hashes=None, leaves=None):\n"
      "        try:\n"
      "            tree.set_hashes(hashes=hashes, leaves=leaves)\n"
      "        except (hashtree.BadHashError, hashtree.NotEnoughHashesError,\n"
      "                IndexError) as e:\n"
      "            self.log(\"%s: %s\" % (what, e))\n\n\n" + GNH_DEF, "C10.6",
      edits=_helper_refactor(SH_H_FAITHFUL)[0]),
    M("helper-refactor-helper-drops-leaves", RET, GNH_DEF,
      ADD_HASHES.replace("tree.set_hashes(hashes=hashes, leaves=leaves)", "tree.set_hashes(hashes=hashes)") + GNH_DEF, "C10.6",
      edits=_helper_refactor(SH_H_FAITHFUL)[0]),
    M("helper-refactor-wrong-tree-passed", *_helper_refactor(SH_H_FAITHFUL.replace("self.share_hash_tree", "bht"))[1], "C10.6",
      edits=_helper_refactor(SH_H_FAITHFUL.replace("self.share_hash_tree", "bht"))[0]),
    M("helper-refactor-benign-positional-leaf-helper", RET, GNH_DEF,
      ADD_HASHES + "    def _check_leaf(self, tree, reader, what, index, leafhash):\n"
      "        leaf = {index: leafhash}\n"
      "        self._add_hashes(tree, reader, what, None, leaf)\n\n\n" + GNH_DEF, None,
      edits=_helper_refactor(SH_H_FAITHFUL.replace("hashes=dict(sharehashes),", "hashes=dict(sharehashes) or None,"),
                             leaf_new="        self._check_leaf(bht, reader, \"block hash tree failure\", segnum, blockhash)\n")[0]),
    M("helper-refactor-undecidable-leaf-copy", RET, GNH_DEF,
      ADD_HASHES.replace("        try:\n            tree.set_hashes(", "        leaves = dict(leaves or {})\n        try:\n            tree.set_hashes(") + GNH_DEF,
      "ANALYSIS-ERROR", edits=_helper_refactor(SH_H_FAITHFUL)[0]),
    M("sharehash-leaf-short-circuited", RET,
      "            self.share_hash_tree.set_hashes(hashes=sharehashes,\n"
      "                                        leaves={reader.shnum: bht[0]})\n",
      "            sharehashes and self.share_hash_tree.set_hashes(hashes=sharehashes,\n"
      "                                        leaves={reader.shnum: bht[0]})\n", "C10.6"),
    M("vb-benign-rename-hoist", RET,
      "        return {reader.shnum: (block, salt)}",
      "        shnum = reader.shnum\n        return {shnum: (block, salt)}", None),
    M("vb-benign-current-segment", RET, "            d1 = reader.get_block_and_salt(segnum)",
      "            d1 = reader.get_block_and_salt(self._current_segment)", None),
    # ---- C10.7 roots
    M("root-from-share-header", RET, "        self.share_hash_tree.set_hashes({0: root_hash})",
      "        self.share_hash_tree.set_hashes({0: reader._root_hash or root_hash})", "C10.7"),
    M("trees-rebuilt-on-bad-share", RET,
      "        self._bad_shares.add((server, shnum, f))\n        self._status.add_problem(server, f)\n",
      "        self._bad_shares.add((server, shnum, f))\n        self._status.add_problem(server, f)\n"
      "        self.share_hash_tree = hashtree.IncompleteHashTree(self._total_shares)\n", "C10.7"),
    # ---- C10.8 decode / write discipline
    M("decrypt-dropped", RET,
      "        d = self._decode_blocks(results, segnum)\n        d.addCallback(self._decrypt_segment)\n        # check to see",
      "        d = self._decode_blocks(results, segnum)\n        # check to see", "C10.8"),
    M("stream-unvalidated-block", RET,
      "        block, salt = block_and_salt\n        _assert(isinstance(block, bytes), (block, salt))\n",
      "        block, salt = block_and_salt\n        _assert(isinstance(block, bytes), (block, salt))\n"
      "        if self._required_shares == 1 and not self._verify:\n            self._consumer.write(block)\n", "C10.8"),
    M("bad-share-returns-results", RET,
      "        for reader in readers:\n            self._mark_bad_share(reader.server, reader.shnum, reader, f)\n        return None\n",
      "        for reader in readers:\n            self._mark_bad_share(reader.server, reader.shnum, reader, f)\n        return {}\n", "C10.8"),
    M("decode-benign-filter-failed", RET,
      "        d = self._decode_blocks(results, segnum)\n        d.addCallback(self._decrypt_segment)\n        # check to see",
      "        good = [x for x in results if x is not None]\n        d = self._decode_blocks(good, segnum)\n"
      "        d.addCallback(self._decrypt_segment)\n        # check to see", None),
    M("per-share-chain-validation-not-registered", RET,
      "            d = deferredutil.gatherResults([d1,d2,d3])\n"
      "            d.addCallback(self._validate_block, segnum, reader, reader.server, started)\n",
      "            d = deferredutil.gatherResults([d1,d2,d3])\n"
      "            d.addCallback(lambda res, reader=reader: {reader.shnum: res[0]})\n", "C10.8"),
    M("per-share-chain-extra-callback-after-errback", RET,
      "            d.addErrback(self._handle_bad_share, [reader])\n            ds.append(d)\n",
      "            d.addErrback(self._handle_bad_share, [reader])\n            d.addCallback(lambda res: res or {})\n            ds.append(d)\n",
      "C10.8"),
    M("process-segment-benign-deferreds-renamed", RET,
      "            d = deferredutil.gatherResults([d1,d2,d3])\n"
      "            d.addCallback(self._validate_block, segnum, reader, reader.server, started)\n",
      "            d_sa = deferredutil.gatherResults([d1,d2,d3])\n"
      "            d_sa.addCallback(self._validate_block, segnum, reader, reader.server, started)\n", None,
      edits=[(RET, "            d.addErrback(self._handle_bad_share, [reader])\n            ds.append(d)\n        dl = deferredutil.gatherResults(ds)\n",
              "            d_sa.addErrback(self._handle_bad_share, [reader])\n            ds.append(d_sa)\n        gathered = deferredutil.gatherResults(ds)\n"),
             (RET, "        if self._verify:\n            dl.addCallback(lambda ignored: \"\")\n            dl.addCallback(self._set_segment)\n"
                   "        else:\n            dl.addCallback(self._maybe_decode_and_decrypt_segment, segnum)\n        return dl\n",
              "        if self._verify:\n            gathered.addCallback(lambda ignored: \"\")\n            gathered.addCallback(self._set_segment)\n"
              "        else:\n            gathered.addCallback(self._maybe_decode_and_decrypt_segment, segnum)\n        return gathered\n")]),
    # ---- C10.9 private key gates
    M("privkey-compare-deleted-servermap", SM, SM_PRIV_IF, "", "C10.9"),
    M("privkey-compare-deleted-retrieve", RET,
      "            if alleged_writekey != node_writekey:\n                return None\n", "", "C10.9"),
    M("privkey-none-not-rejected", RET,
      "            if self._verify:\n                self.servermap.mark_bad_share(server, reader.shnum,\n"
      "                                              self.verinfo[-2])\n",
      "            if not self._verify:\n                self._node._populate_privkey(privkey)\n"
      "            if self._verify:\n                self.servermap.mark_bad_share(server, reader.shnum,\n"
      "                                              self.verinfo[-2])\n", "C10.9"),
    M("privkey-benign-eq-form", SM, "        if alleged_writekey != node_writekey:\n            self.log(\"invalid privkey",
      "        if not (node_writekey == alleged_writekey):\n            self.log(\"invalid privkey", None),
    # ---- C10.0 repair of the finding: comparing the SDMF IV with the signed one satisfies the rule
    M("iv-fix-compare-signed-iv", RET,
      "        if self._version == MDMF_VERSION:\n            blockhash = await defer_to_thread(hashutil.block_hash, salt + block)",
      "        if self._version != MDMF_VERSION and salt != self.verinfo[2]:\n"
      "            raise CorruptShareError(server, reader.shnum, \"IV does not match the signed version\")\n"
      "        if self._version == MDMF_VERSION:\n            blockhash = await defer_to_thread(hashutil.block_hash, salt + block)",
      None),
    # ---- C10.10 segment sequencing
    M("decode-chain-not-returned", RET,
      "        d.addCallback(self._set_segment)\n        return d\n",
      "        d.addCallback(self._set_segment)\n        return None\n", "C10.10"),
    M("decode-chain-fall-off", RET,
      "        d.addCallback(self._set_segment)\n        return d\n",
      "        d.addCallback(self._set_segment)\n", "C10.10"),
    M("segment-advance-by-two", RET, "        self._current_segment += 1\n\n\n    def _handle_bad_share",
      "        self._current_segment += 2\n\n\n    def _handle_bad_share", "C10.10"),
    M("segment-advance-deleted", RET, "        self._current_segment += 1\n\n\n    def _handle_bad_share",
      "        pass\n\n\n    def _handle_bad_share", "C10.10"),
    M("segment-advance-only-when-written", RET,
      "            segment = None\n        self._current_segment += 1\n",
      "            segment = None\n            self._current_segment += 1\n", "C10.10"),
    M("segment-write-negated", RET, "        if not self._verify:\n            self._consumer.write(segment)\n",
      "        if self._verify:\n            self._consumer.write(segment)\n", "C10.10"),
    M("segment-write-only-nonempty", RET, "        if not self._verify:\n            self._consumer.write(segment)\n        else:\n",
      "        if not self._verify:\n            if self._current_segment != self._last_segment:\n"
      "                self._consumer.write(segment)\n        else:\n", "C10.10"),
    M("restart-from-first-segment-on-bad-share", RET,
      "        self._bad_shares.add((server, shnum, f))\n        self._status.add_problem(server, f)\n",
      "        self._bad_shares.add((server, shnum, f))\n        self._status.add_problem(server, f)\n"
      "        self._current_segment = self._start_segment\n", "C10.10"),
    M("process-start-segment", RET, "        d = self._process_segment(self._current_segment)\n",
      "        d = self._process_segment(self._start_segment)\n", "C10.10"),
    M("seq-benign-plain-assign", RET, "        self._current_segment += 1\n\n\n    def _handle_bad_share",
      "        self._current_segment = self._current_segment + 1\n\n\n    def _handle_bad_share", None),
    M("seq-benign-return-chained", RET,
      "        d.addCallback(self._set_segment)\n        return d\n",
      "        return d.addCallback(self._set_segment)\n", None),
    M("seq-benign-rename-and-early-advance", RET,
      "        if not self._verify:\n            self._consumer.write(segment)\n        else:\n"
      "            # we don't care about the plaintext if we are doing a verify.\n            segment = None\n"
      "        self._current_segment += 1\n",
      "        step = 1\n        self._current_segment += step\n"
      "        if self._verify:\n            segment = None\n        else:\n            self._consumer.write(segment)\n", None),
    M("done-one-segment-early", RET, "        if self._current_segment > self._last_segment:\n            # No more segments to download",
      "        if self._current_segment >= self._last_segment:\n            # No more segments to download", "C10.10"),
    M("done-when-no-readers-left", RET, "        elif self._verify and len(self._active_readers) == 0:\n",
      "        elif self._verify or len(self._active_readers) == 0:\n", "C10.10"),
    M("done-from-bad-share-handler", RET,
      "        for reader in readers:\n            self._mark_bad_share(reader.server, reader.shnum, reader, f)\n        return None\n",
      "        for reader in readers:\n            self._mark_bad_share(reader.server, reader.shnum, reader, f)\n"
      "        if not self.remaining_sharemap:\n            self._done()\n        return None\n", "C10.10"),
    M("short-circuit-small-reads", RET, "        if size == 0:\n            # short-circuit the rest of the process\n",
      "        if size <= 0 or offset >= self._data_length:\n            # short-circuit the rest of the process\n", "C10.10"),
    M("seq-benign-done-test-rewritten", RET, "        if self._current_segment > self._last_segment:\n            # No more segments to download",
      "        if not (self._current_segment <= self._last_segment):\n            # No more segments to download", None),
    M("seq-benign-done-next-segment", RET, "        if self._current_segment > self._last_segment:\n            # No more segments to download",
      "        if self._current_segment >= self._last_segment + 1:\n            # No more segments to download", None),
    # ---- C10.11 trimming of the first / last requested segment
    M("tail-trim-on-every-other-segment", RET, "        if self._current_segment == self._last_segment:\n            # trim off the tail",
      "        if self._current_segment != self._last_segment:\n            # trim off the tail", "C10.11"),
    M("head-trim-on-every-other-segment", RET, "        if self._current_segment == self._start_segment:\n            # Trim off the head",
      "        if self._current_segment != self._start_segment:\n            # Trim off the head", "C10.11"),
    M("tail-trim-on-boundary-only", RET, "            if wanted != 0:\n", "            if wanted == 0:\n", "C10.11"),
    M("tail-trim-unconditional", RET,
      "            if wanted != 0:\n                self.log(\"on the last segment: using first %d bytes\" % wanted)\n"
      "                segment = segment[:wanted]\n",
      "            if True:\n                self.log(\"on the last segment: using first %d bytes\" % wanted)\n"
      "                segment = segment[:wanted]\n", "C10.11"),
    M("tail-trim-dropped", RET, "                segment = segment[:wanted]\n", "                pass\n", "C10.11"),
    M("head-trim-dropped", RET, "            segment = segment[skip:]\n", "            pass\n", "C10.11"),
    M("trim-benign-start-tested-twice", RET,
      "            self.log(\"on the first segment: skipping first %d bytes\" % skip)\n            segment = segment[skip:]\n",
      "            self.log(\"on the first segment: skipping first %d bytes\" % skip)\n"
      "        if self._current_segment == self._start_segment:\n            segment = segment[skip:]\n", None),
    M("tail-trim-skipped-for-first-segment", RET, "            if wanted != 0:\n",
      "            if wanted != 0 and self._current_segment != self._start_segment:\n", "C10.11"),
    M("head-trim-skipped-in-single-segment-read", RET,
      "            self.log(\"on the first segment: skipping first %d bytes\" % skip)\n            segment = segment[skip:]\n",
      "            self.log(\"on the first segment: skipping first %d bytes\" % skip)\n"
      "            if self._start_segment != self._last_segment:\n                segment = segment[skip:]\n", "C10.11"),
    M("blank-when-not-zero-length", RET, "        if self._read_length == 0:\n            self.log(\"on first+last segment, size=0",
      "        if self._read_length != 0:\n            self.log(\"on first+last segment, size=0", "C10.11"),
    M("trim-benign-ge-and-guarded-skip", RET,
      "        if self._current_segment == self._start_segment:\n"
      "            # Trim off the head, if offset != 0. This should also work if\n"
      "            # start==last, because we trim the tail first.\n"
      "            skip = self._offset % self._segment_size\n"
      "            self.log(\"on the first segment: skipping first %d bytes\" % skip)\n"
      "            segment = segment[skip:]\n",
      "        if self._current_segment <= self._start_segment:\n"
      "            skip = self._offset % self._segment_size\n"
      "            if skip != 0:\n"
      "                segment = segment[skip:]\n", None),
    M("trim-benign-last-ge-and-truthy", RET,
      "        if self._current_segment == self._last_segment:\n            # trim off the tail\n"
      "            wanted = (self._offset + self._read_length) % self._segment_size\n            if wanted != 0:\n",
      "        if self._current_segment >= self._last_segment:\n            # trim off the tail\n"
      "            end_in_segment = (self._offset + self._read_length) % self._segment_size\n"
      "            wanted = end_in_segment\n            if wanted:\n", None),
    M("trim-benign-dead-zero-length-case-removed", RET,
      "        if self._read_length == 0:\n            self.log(\"on first+last segment, size=0, using 0 bytes\")\n"
      "            segment = b\"\"\n", "", None),
    # ---- C10.12 struct.error from malformed share bytes must become BadShareError inside the reader
    M("sharehash-errback-before-unpack", LAY, SHC_TAIL,
      "        d.addErrback(_handle_bad_struct)\n" + SHC_CB +
      "        d.addCallback(_build_share_hash_chain)\n        return d\n", "C10.12"),
    M("sharehash-errback-paired-with-unpack", LAY,
      "        d.addCallback(_build_share_hash_chain)\n        d.addErrback(_handle_bad_struct)\n",
      "        d.addCallbacks(_build_share_hash_chain, _handle_bad_struct)\n", "C10.12"),
    M("header-errback-dropped", LAY,
      "        d.addCallback(self._process_offsets)\n        d.addErrback(_handle_bad_struct)\n",
      "        d.addCallback(self._process_offsets)\n", "C10.12"),
    M("header-offsets-parsed-after-errback", LAY,
      "        d.addCallback(self._process_offsets)\n        d.addErrback(_handle_bad_struct)\n",
      "        d.addErrback(_handle_bad_struct)\n        d.addCallback(self._process_offsets)\n", "C10.12"),
    M("bad-struct-handler-passes-failure-on", LAY,
      "    f.trap(struct.error)\n    raise BadShareError(f.value.args[0])\n",
      "    f.trap(struct.error)\n    return f\n", "C10.12"),
    M("bad-struct-handler-traps-other-error", LAY,
      "    f.trap(struct.error)\n    raise BadShareError(f.value.args[0])\n",
      "    f.trap(IndexError)\n    raise BadShareError(f.value.args[0])\n", "C10.12"),
    M("sharehash-unpacked-synchronously", LAY,
      "        if needed == set([]):\n            return defer.succeed([])\n        d = self._maybe_fetch_offsets_and_header()\n\n"
      "        def _make_readvs(ignored):\n            sharehashes_offset",
      "        if needed == set([]):\n            return defer.succeed([])\n"
      "        if self._data_is_everything and self._offsets:\n"
      "            o = self._offsets['share_hash_chain']\n"
      "            return defer.succeed(dict([struct.unpack(\">H32s\", self._data[i:i+(HASH_SIZE + 2)])\n"
      "                                       for i in range(o, self._offsets['signature'], HASH_SIZE + 2)]))\n"
      "        d = self._maybe_fetch_offsets_and_header()\n\n"
      "        def _make_readvs(ignored):\n            sharehashes_offset", "C10.12"),
    M("struct-benign-chained-registration", LAY,
      "        d.addCallback(_build_share_hash_chain)\n        d.addErrback(_handle_bad_struct)\n        return d\n",
      "        return d.addCallback(_build_share_hash_chain).addErrback(_handle_bad_struct)\n", None),
    M("struct-benign-try-in-callback", LAY, SHC_TAIL,
      "        def _build_share_hash_chain(results):\n"
      "            if self.shnum not in results:\n"
      "                raise BadShareError(\"no data for shnum %d\" % self.shnum)\n"
      "\n"
      "            sharehashes = results[self.shnum][0]\n"
      "            results = [sharehashes[i:i+(HASH_SIZE + 2)]\n"
      "                       for i in range(0, len(sharehashes), HASH_SIZE + 2)]\n"
      "            try:\n"
      "                results = dict([struct.unpack(\">H32s\", data)\n"
      "                                for data in results])\n"
      "            except struct.error as e:\n"
      "                raise BadShareError(e.args[0])\n"
      "            return results\n"
      "        d.addCallback(_build_share_hash_chain)\n        return d\n", None),
    M("struct-benign-extra-early-errback", LAY, SHC_TAIL,
      "        d.addErrback(_handle_bad_struct)\n" + SHC_TAIL, None),
    M("struct-benign-handler-uses-check", LAY,
      "    f.trap(struct.error)\n    raise BadShareError(f.value.args[0])\n",
      "    if not f.check(struct.error):\n        return f\n    raise BadShareError(f.value.args[0])\n", None),
    # ---- C10.13 every bad-share report is a type _handle_bad_share tolerates
    M("bad-share-trap-narrowed", RET, "        f.trap(DeadReferenceError, RemoteException, BadShareError)\n",
      "        f.trap(DeadReferenceError, RemoteException, CorruptShareError)\n", "C10.13"),
    M("bad-share-trap-network-errors-only", RET, "        f.trap(DeadReferenceError, RemoteException, BadShareError)\n",
      "        f.trap(DeadReferenceError, RemoteException)\n", "C10.13"),
    M("corrupt-share-error-rebased", "src/allmydata/mutable/common.py", "class CorruptShareError(BadShareError):",
      "class CorruptShareError(Exception):", "C10.13"),
    M("helper-refactor-helper-raises-untolerated", RET, GNH_DEF,
      ADD_HASHES.replace("raise CorruptShareError(reader.server,\n                                    reader.shnum,\n"
                         "                                    \"%s: %s\" % (what, e))",
                         "raise ValueError(\"%s: %s\" % (what, e))") + GNH_DEF, "C10.13",
      edits=_helper_refactor(SH_H_FAITHFUL)[0]),
    M("layout-invalid-rebased", LAY, "class LayoutInvalid(BadShareError):", "class LayoutInvalid(Exception):", "C10.13"),
    M("bad-segment-number-valueerror", LAY, "                raise LayoutInvalid(\"Not a valid segment number\")\n",
      "                raise ValueError(\"Not a valid segment number\")\n", "C10.13"),
    M("trap-benign-reordered-and-explicit", RET, "        f.trap(DeadReferenceError, RemoteException, BadShareError)\n",
      "        f.trap(BadShareError, CorruptShareError, RemoteException, DeadReferenceError)\n", None),
    M("trap-benign-layout-invalid-as-base", LAY, "                raise LayoutInvalid(\"Not a valid segment number\")\n",
      "                raise BadShareError(\"Not a valid segment number\")\n", None),
    # ---- C10.14.* the hash trees behind the gates: one share_hash_tree serves every share of a read, so a rejected
    #      offer must leave nothing behind and an accepted one must hang off the signed root (set_hashes rules of C35)
    # .1 every store of the call is scheduled for roll-back, and nothing else is
    M("ht-computed-parent-not-rolled-back", HT,
      "                        self[parentnum] = new_parent_hash\n                        remove_upon_failure.add(parentnum)\n",
      "                        self[parentnum] = new_parent_hash\n", "C10.14.1", note="seeded C10-E"),
    M("ht-parent-journalled-into-a-copy", HT,
      "                        remove_upon_failure.add(parentnum)\n",
      "                        set(remove_upon_failure).add(parentnum)\n", "C10.14.1"),
    M("ht-parent-journalled-only-below-level-one", HT,
      "                        remove_upon_failure.add(parentnum)\n",
      "                        if parentnum > 2:\n                            remove_upon_failure.add(parentnum)\n", "C10.14.1"),
    M("ht-offered-hash-not-rolled-back-when-leaf", HT,
      "                    self[i] = h\n                    remove_upon_failure.add(i)\n",
      "                    self[i] = h\n                    if i < self.first_leaf_num:\n                        remove_upon_failure.add(i)\n",
      "C10.14.1"),
    M("ht-known-hash-scheduled-for-rollback", HT,
      "            for i,h in new_hashes.items():\n                if self[i]:\n",
      "            for i,h in new_hashes.items():\n                remove_upon_failure.add(i)\n                if self[i]:\n", "C10.14.1"),
    M("ht-benign-journal-after-depth", HT,
      "                        remove_upon_failure.add(parentnum)\n                        parent_level = depth_of(parentnum)\n",
      "                        parent_level = depth_of(parentnum)\n                        remove_upon_failure.add(parentnum)\n", None),
    M("ht-benign-parent-store-renamed-value", HT,
      "                        self[parentnum] = new_parent_hash\n                        remove_upon_failure.add(parentnum)\n",
      "                        computed = new_parent_hash\n                        self[parentnum] = computed\n"
      "                        remove_upon_failure.add(parentnum)\n", None),
    # .2 the roll-back handler covers every rejection, undoes everything, re-raises
    M("ht-incomplete-chain-not-rolled-back", HT, HT_HANDLER,
      "        except (BadHashError, IndexError):\n            for i in remove_upon_failure:", "C10.14.2"),
    M("ht-rejection-swallowed", HT,
      "            for i in remove_upon_failure:\n                self[i] = None\n            raise\n",
      "            for i in remove_upon_failure:\n                self[i] = None\n            return None\n", "C10.14.2"),
    M("ht-journal-restarted-before-propagation", HT, HT_LEVELS,
      "            remove_upon_failure = set()\n" + HT_LEVELS, "C10.14.2"),
    M("ht-benign-handler-names-exception", HT,
      HT_HANDLER + "\n                self[i] = None\n            raise\n",
      "        except (NotEnoughHashesError, IndexError, BadHashError) as e:\n            for i in remove_upon_failure:\n"
      "                self[i] = None\n            raise\n", None),
    M("ht-benign-handler-catches-exception", HT, HT_HANDLER,
      "        except Exception:\n            for i in remove_upon_failure:", None),
    # .3 a known node (the signed root above all) is never overwritten, and a mismatch with it is a rejection
    M("ht-root-recomputed-from-children", HT, "                    if self[parentnum]:\n",
      "                    if self[parentnum] and parentnum != 0:\n", "C10.14.3"),
    M("ht-parent-mismatch-only-below-root", HT, "                        if self[parentnum] != new_parent_hash:\n",
      "                        if self[parentnum] != new_parent_hash and parentnum != 0:\n", "C10.14.3"),
    M("ht-offered-hash-replaces-known", HT, "                if self[i]:\n                    if self[i] != h:\n",
      "                if self[i] and self[i] == h:\n                    if self[i] != h:\n", "C10.14.3"),
    M("ht-benign-parent-branches-swapped", HT, HT_PARENT,
      "                    if self[parentnum] is None:\n"
      "                        self[parentnum] = new_parent_hash\n"
      "                        remove_upon_failure.add(parentnum)\n"
      "                        parent_level = depth_of(parentnum)\n"
      "                        assert parent_level == level-1\n"
      "                        hashes_to_check[parent_level].add(parentnum)\n"
      "                    else:\n"
      "                        if not (self[parentnum] == new_parent_hash):\n"
      "                            raise BadHashError(\"h([%d]+[%d]) != h[%d]\" %\n"
      "                                               (leftnum, rightnum, parentnum))\n", None),
    # .4 everything a call adds is checked upwards until the root
    M("ht-missing-sibling-ends-level", HT,
      "                        raise NotEnoughHashesError(\"unable to validate [%d]\"%i)\n",
      "                        break\n", "C10.14.4"),
    M("ht-root-children-never-checked", HT, HT_LEVELS,
      "            for level in reversed(range(2, len(hashes_to_check))):", "C10.14.4"),
    M("ht-computed-parent-not-propagated", HT,
      "                        assert parent_level == level-1\n                        hashes_to_check[parent_level].add(parentnum)\n",
      "                        assert parent_level == level-1\n", "C10.14.4"),
    M("ht-parent-hash-of-node-alone", HT,
      "                    new_parent_hash = pair_hash(self[leftnum], self[rightnum])\n",
      "                    new_parent_hash = pair_hash(self[i], self[i])\n", "C10.14.4"),
    M("ht-benign-root-level-not-visited", HT, HT_LEVELS,
      "            for level in reversed(range(1, len(hashes_to_check))):", None),
    M("ht-benign-sibling-test-truthiness", HT, "                    if self[siblingnum] is None:\n",
      "                    if not self[siblingnum]:\n", None),
    # .9 the share hash chain's node numbers come from the share: an out-of-range one is a rolled-back rejection
    M("ht-out-of-range-number-not-rolled-back", HT, HT_HANDLER,
      "        except (BadHashError, NotEnoughHashesError):\n            for i in remove_upon_failure:", "C10.14.9"),
    M("ht-indexerror-converted-before-rollback", HT, HT_HANDLER,
      "        except IndexError:\n            raise BadHashError(\"hash number out of range\")\n"
      "        except (BadHashError, NotEnoughHashesError):\n            for i in remove_upon_failure:", "C10.14.9"),
    M("ht-benign-lookuperror", HT, HT_HANDLER,
      "        except (BadHashError, NotEnoughHashesError, LookupError):\n            for i in remove_upon_failure:", None),
    M("ht-benign-numbers-range-checked", HT, "            for i,h in new_hashes.items():\n                if self[i]:\n",
      "            for i,h in new_hashes.items():\n                if not (0 <= i < len(self)):\n"
      "                    raise BadHashError(\"hash number out of range\")\n                if self[i]:\n", None),
    M("vanish-set-hashes-rollback-loop", HT, "            for i in remove_upon_failure:\n                self[i] = None\n            raise\n",
      "            remove_upon_failure.clear()\n            raise\n", "C10.14"),
    M("vanish-validate-block-no-tree-update", RET, "                bht.set_hashes(blockhashes)\n", "                bht.add_hashes(blockhashes)\n",
      "ANALYSIS-ERROR", edits=[(RET, "           bht.set_hashes(leaves={segnum: blockhash})\n", "           bht.add_hashes(leaves={segnum: blockhash})\n"),
                               (RET, "            self.share_hash_tree.set_hashes(hashes=sharehashes,\n",
                                "            self.share_hash_tree.add_hashes(hashes=sharehashes,\n")]),
    # ---- C10.15 a share is judged on its own checks only (availability: k intact shares => the read succeeds)
    M("sibling-of-corrupt-share-not-recorded", SM,
      "        # Add the info to our servermap.\n        timestamp = time.time()\n",
      "        if server in self._bad_servers:\n"
      "            self.log(\"but this server already gave us a corrupt share\", parent=lp, level=log.UNUSUAL)\n"
      "            return verinfo\n"
      "        # Add the info to our servermap.\n        timestamp = time.time()\n", "C10.15"),
    M("sibling-of-corrupt-share-raises", SM,
      "        # Add the info to our servermap.\n        timestamp = time.time()\n",
      "        if any(s == server for (s, sh) in self._servermap.get_bad_shares()):\n"
      "            raise CorruptShareError(server, shnum, \"server is known to hold corrupt shares\")\n"
      "        # Add the info to our servermap.\n        timestamp = time.time()\n", "C10.15"),
    M("answer-of-bad-server-skipped-in-loop", SM,
      "        for shnum,datav in list(datavs.items()):\n            data = datav[0]\n            reader = MDMFSlotReadProxy(ss,\n",
      "        for shnum,datav in list(datavs.items()):\n            if server in self._bad_servers:\n                continue\n"
      "            data = datav[0]\n            reader = MDMFSlotReadProxy(ss,\n", "C10.15"),
    M("only-first-share-of-an-answer-processed", SM,
      "            ds.append(dl)\n        # dl is a deferred list that will fire when all of the shares\n",
      "            ds.append(dl)\n            if server in self._good_servers:\n                break\n"
      "        # dl is a deferred list that will fire when all of the shares\n", "C10.15"),
    M("corrupt-share-takes-whole-server-out-of-map", SM,
      "        key = (server, shnum) # record checkstring\n        self._bad_shares[key] = checkstring\n"
      "        self._known_shares.pop(key, None)\n",
      "        key = (server, shnum) # record checkstring\n        self._bad_shares[key] = checkstring\n"
      "        for other in [k for k in self._known_shares if k[0] == server]:\n"
      "            self._known_shares.pop(other, None)\n", "C10.15"),
    M("corrupt-share-marks-siblings-bad", SM,
      "        self._servermap.mark_bad_share(server, shnum, checkstring)\n        self._servermap.add_problem(f)\n",
      "        for (s, sh) in [k for k in self._servermap.get_known_shares() if k[0] == server] + [(server, shnum)]:\n"
      "            self._servermap.mark_bad_share(s, sh, checkstring)\n        self._servermap.add_problem(f)\n", "C10.15"),
    M("add-new-share-ignores-flagged-server", SM,
      "        key = (server, shnum)\n        self._bad_shares.pop(key, None)\n",
      "        key = (server, shnum)\n        if server in self.unreachable_servers:\n            return\n"
      "        self._bad_shares.pop(key, None)\n", "C10.15"),
    M("benign-bad-share-test-inverted", SM,
      "        if (server, shnum) in self._servermap.get_bad_shares():\n"
      "            # we've been told that the rest of the data in this share is\n"
      "            # unusable, so don't add it to the servermap.\n"
      "            self.log(\"but we've been told this is a bad share\",\n"
      "                     parent=lp, level=log.UNUSUAL)\n"
      "            return verinfo\n"
      "\n"
      "        # Add the info to our servermap.\n"
      "        timestamp = time.time()\n"
      "        self._servermap.add_new_share(server, shnum, verinfo, timestamp)\n"
      "        self._servers_with_shares.add(server)\n",
      "        share_key = (server, shnum)\n"
      "        bad = self._servermap.get_bad_shares()\n"
      "        if share_key not in bad:\n"
      "            # Add the info to our servermap.\n"
      "            self._servermap.add_new_share(server, shnum, verinfo, time.time())\n"
      "            self._servers_with_shares.add(server)\n"
      "        else:\n"
      "            self.log(\"but we've been told this is a bad share\",\n"
      "                     parent=lp, level=log.UNUSUAL)\n", None),
    M("benign-empty-answer-returns-early", SM,
      "        ds = []\n\n        for shnum,datav in list(datavs.items()):\n",
      "        ds = []\n        if not datavs:\n            _done_processing()\n            return self._check_for_done(None)\n"
      "\n        for shnum,datav in list(datavs.items()):\n", None),
    M("benign-mark-bad-share-del", SM,
      "        self._bad_shares[key] = checkstring\n        self._known_shares.pop(key, None)\n",
      "        self._bad_shares[key] = checkstring\n        if (server, shnum) in self._known_shares:\n"
      "            del self._known_shares[(server, shnum)]\n", None),
    # ---- vanished anchor
    M("vanish-validate-block", RET, "    async def _validate_block(self, results, segnum, reader, server, started):",
      "    async def _validate_blockX(self, results, segnum, reader, server, started):", "ANALYSIS-ERROR"),
]
