from .runner import M

LAY = "src/allmydata/mutable/layout.py"
PUB = "src/allmydata/mutable/publish.py"
SM = "src/allmydata/mutable/servermap.py"
FN = "src/allmydata/mutable/filenode.py"

# the bodies of ServerMap.recoverable_versions() / unrecoverable_versions(), and what they become when the two are
# derived from shares_available() (a legitimate refactor as long as shares_available() counts distinct share numbers)
REC_BODY = (
    "        versionmap = self.make_versionmap()\n        recoverable_versions = set()\n"
    "        for (verinfo, shares) in list(versionmap.items()):\n"
    "            (seqnum, root_hash, IV, segsize, datalength, k, N, prefix,\n             offsets_tuple) = verinfo\n"
    "            shnums = set([shnum for (shnum, server, timestamp) in shares])\n"
    "            if len(shnums) >= k:\n                # this one is recoverable\n"
    "                recoverable_versions.add(verinfo)\n\n        return recoverable_versions\n")
UNREC_BODY = (
    "        versionmap = self.make_versionmap()\n\n        unrecoverable_versions = set()\n"
    "        for (verinfo, shares) in list(versionmap.items()):\n"
    "            (seqnum, root_hash, IV, segsize, datalength, k, N, prefix,\n             offsets_tuple) = verinfo\n"
    "            shnums = set([shnum for (shnum, server, timestamp) in shares])\n"
    "            if len(shnums) < k:\n                unrecoverable_versions.add(verinfo)\n\n"
    "        return unrecoverable_versions\n")
REC_FROM_AVAIL = ("        return set([verinfo\n                    for (verinfo, (found, k, N))\n"
                  "                    in self.shares_available().items()\n                    if found >= k])\n")
UNREC_FROM_AVAIL = ("        return set([verinfo\n                    for (verinfo, (found, k, N))\n"
                    "                    in self.shares_available().items()\n                    if found < k])\n")
AVAIL_COUNT = ("            s = set()\n            for (shnum, server, timestamp) in shares:\n                s.add(shnum)\n"
               "            (seqnum, root_hash, IV, segsize, datalength, k, N, prefix,\n             offsets_tuple) = verinfo\n"
               "            all_shares[verinfo] = (len(s), k, N)\n")

MUTANTS = [
    # ---- C11.1 new sequence number ----------------------------------------
    M("seqnum-not-incremented", PUB,
      "            self._new_seqnum = self._servermap.highest_seqnum() + 1\n",
      "            self._new_seqnum = self._servermap.highest_seqnum()\n", "C11.1"),
    M("update-seqnum-from-best-recoverable", PUB,
      "        # in the grid, according to the servermap.\n        self._new_seqnum = self._servermap.highest_seqnum() + 1\n",
      "        # in the grid, according to the servermap.\n        self._new_seqnum = self._servermap.best_recoverable_version()[0] + 1\n",
      "C11.1"),
    M("initial-seqnum-zero", PUB,
      "            self._new_seqnum = 1\n", "            self._new_seqnum = 0\n", "C11.1"),
    M("seqnum-constant-with-servermap", PUB,
      "            self._new_seqnum = self._servermap.highest_seqnum() + 1\n        else:\n",
      "            self._new_seqnum = self._servermap.highest_seqnum() + 1\n            if self._node.get_size() is None:\n                self._new_seqnum = 1\n        else:\n",
      "C11.1"),
    M("highest-seqnum-of-recoverable-only", SM,
      "                   for verinfo in available.keys()]\n",
      "                   for verinfo in self.recoverable_versions()]\n", "C11.1"),
    M("shares-available-skips-unrecoverable", SM,
      "            all_shares[verinfo] = (len(s), k, N)\n",
      "            if len(s) >= k:\n                all_shares[verinfo] = (len(s), k, N)\n", "C11.1"),
    M("highest-seqnum-filtered-comprehension", SM,
      "                   for verinfo in available.keys()]\n",
      "                   for verinfo in available.keys() if available[verinfo][0] >= available[verinfo][1]]\n", "C11.1"),
    M("writer-gets-surveyed-seqnum", PUB,
      "                                   self._new_seqnum,\n",
      "                                   self._servermap.highest_seqnum(),\n", "C11.1"),
    M("writer-seqnum-reset-later", LAY,
      "        self._root_hash = roothash\n        # To write both of these values",
      "        self._root_hash = roothash\n        self._seqnum = max(self._seqnum, 1)\n        # To write both of these values", "C11.1"),
    M("add-new-share-keeps-old-entry", SM,
      "        self._known_shares[key] = (verinfo, timestamp)\n",
      "        if key not in self._known_shares:\n            self._known_shares[key] = (verinfo, timestamp)\n", "C11.1"),
    M("add-new-share-not-recorded", SM,
      "        self._bad_shares.pop(key, None)\n        self._known_shares[key] = (verinfo, timestamp)\n",
      "        self._bad_shares.pop(key, None)\n", "C11.1"),
    M("add-new-share-value-swapped", SM,
      "        self._known_shares[key] = (verinfo, timestamp)\n",
      "        self._known_shares[key] = (timestamp, verinfo)\n", "C11.1"),
    M("survey-records-timestamp-as-version", SM,
      "        self._servermap.add_new_share(server, shnum, verinfo, timestamp)\n",
      "        self._servermap.add_new_share(server, shnum, timestamp, verinfo)\n", "C11.1"),
    M("benign-add-new-share-entry-temporary", SM,
      "        self._bad_shares.pop(key, None)\n        self._known_shares[key] = (verinfo, timestamp)\n",
      "        entry = (verinfo, timestamp)\n        self._known_shares[key] = entry\n        self._bad_shares.pop(key, None)\n", None),
    M("benign-add-new-share-key-inline", SM,
      "        self._known_shares[key] = (verinfo, timestamp)\n",
      "        self._known_shares[(server, shnum)] = (verinfo, timestamp)\n", None),
    M("benign-seqnum-commuted", PUB,
      "            self._new_seqnum = self._servermap.highest_seqnum() + 1\n",
      "            self._new_seqnum = 1 + self._servermap.highest_seqnum()\n", None),
    M("benign-seqnum-hoisted", PUB,
      "            self._new_seqnum = self._servermap.highest_seqnum() + 1\n",
      "            highest = self._servermap.highest_seqnum()\n            self._new_seqnum = highest + 1\n", None),
    M("benign-highest-seqnum-iterates-dict", SM,
      "                   for verinfo in available.keys()]\n", "                   for verinfo in available]\n", None),
    # locals are found by role (the dict the function returns, the class selection that is called, the key of the
    # _known_shares store), not by spelling
    M("benign-versionmap-local-renamed", SM,
      "        versionmap = DictOfSets()\n        for ( (server, shnum), (verinfo, timestamp) ) in list(self._known_shares.items()):\n            versionmap.add(verinfo, (shnum, server, timestamp))\n        return versionmap\n",
      "        versionmap_sa = DictOfSets()\n        for ( (server, shnum), (verinfo, timestamp) ) in list(self._known_shares.items()):\n            versionmap_sa.add(verinfo, (shnum, server, timestamp))\n        return versionmap_sa\n",
      None),
    M("benign-shares-available-result-local-renamed", SM,
      "        all_shares = {}\n", "        all_shares_sa = {}\n", None,
      edits=[(SM, "            all_shares[verinfo] = (len(s), k, N)\n        return all_shares\n",
              "            all_shares_sa[verinfo] = (len(s), k, N)\n        return all_shares_sa\n")]),
    M("benign-shares-available-result-through-alias", SM,
      "            all_shares[verinfo] = (len(s), k, N)\n        return all_shares\n",
      "            all_shares[verinfo] = (len(s), k, N)\n        result = all_shares\n        self._last_shares_available = len(result)\n        return result\n",
      None),
    M("benign-update-writer-class-local-renamed", PUB,
      "        writer_class = MDMFSlotWriteProxy\n\n        # For each", "        writer_class_sa = MDMFSlotWriteProxy\n\n        # For each",
      None, edits=[(PUB, "            writer = writer_class(shnum,\n", "            writer = writer_class_sa(shnum,\n")]),
    M("benign-publish-writer-class-local-renamed", PUB,
      "            writer_class = MDMFSlotWriteProxy\n        else:\n            writer_class = SDMFSlotWriteProxy\n",
      "            proxy_cls = MDMFSlotWriteProxy\n        else:\n            proxy_cls = SDMFSlotWriteProxy\n",
      None, edits=[(PUB, "            writer =  writer_class(shnum,\n", "            writer =  proxy_cls(shnum,\n")]),
    M("benign-update-writer-class-called-directly", PUB,
      "            writer = writer_class(shnum,\n", "            writer = MDMFSlotWriteProxy(shnum,\n", None),
    M("benign-add-new-share-key-local-renamed", SM,
      "        key = (server, shnum)\n        self._bad_shares.pop(key, None)\n        self._known_shares[key] = (verinfo, timestamp)\n",
      "        key_sa = (server, shnum)\n        self._bad_shares.pop(key_sa, None)\n        self._known_shares[key_sa] = (verinfo, timestamp)\n",
      None),
    M("versionmap-skips-stale-shares", SM,
      "            versionmap.add(verinfo, (shnum, server, timestamp))\n        return versionmap\n",
      "            if timestamp >= self._last_update_time:\n                versionmap.add(verinfo, (shnum, server, timestamp))\n        return versionmap\n",
      "C11.1"),
    M("versionmap-entries-go-to-a-scratch-map", SM,
      "        versionmap = DictOfSets()\n        for ( (server, shnum), (verinfo, timestamp) ) in list(self._known_shares.items()):\n            versionmap.add(verinfo, (shnum, server, timestamp))\n",
      "        versionmap = DictOfSets()\n        scratch = DictOfSets()\n        for ( (server, shnum), (verinfo, timestamp) ) in list(self._known_shares.items()):\n            scratch.add(verinfo, (shnum, server, timestamp))\n",
      "ANALYSIS-ERROR"),
    M("update-writer-seqnum-renamed-class-local", PUB,      # the renamed selection is still followed to the call
      "        writer_class = MDMFSlotWriteProxy\n\n        # For each", "        proxy_cls = MDMFSlotWriteProxy\n\n        # For each",
      "C11.1", edits=[(PUB, "            writer = writer_class(shnum,\n                                  server.get_storage_server(),\n                                  self._storage_index,\n                                  secrets,\n                                  self._new_seqnum,\n",
                       "            writer = proxy_cls(shnum,\n                                  server.get_storage_server(),\n                                  self._storage_index,\n                                  secrets,\n                                  self._new_seqnum - 1,\n")]),

    # ---- C11.2 tuple shape / best version ---------------------------------
    M("best-version-first-of-sorted", SM,
      "            return recoverable[-1]\n", "            return recoverable[0]\n", "C11.2"),
    M("best-version-unsorted", SM,
      "        recoverable = list(self.recoverable_versions())\n        recoverable.sort()\n",
      "        recoverable = list(self.recoverable_versions())\n", "C11.2"),
    M("best-version-sorted-descending", SM,
      "        recoverable.sort()\n", "        recoverable.sort(reverse=True)\n", "C11.2"),
    M("verinfo-roothash-before-seqnum", LAY,
      "            return (self._sequence_number,\n                    self._root_hash,\n",
      "            return (self._root_hash,\n                    self._sequence_number,\n", "C11.2"),
    M("mdmf-writer-verinfo-roothash-first", LAY,
      "        return (self._seqnum,\n                self._root_hash,\n                None,\n",
      "        return (self._root_hash,\n                self._seqnum,\n                None,\n", "C11.2"),
    M("recoverable-counts-share-copies", SM,
      "            if len(shnums) >= k:\n                # this one is recoverable\n",
      "            if len(shares) >= k:\n                # this one is recoverable\n", "C11.2"),
    M("recoverable-compares-with-N", SM,
      "            (seqnum, root_hash, IV, segsize, datalength, k, N, prefix,\n             offsets_tuple) = verinfo\n            shnums = set([shnum for (shnum, server, timestamp) in shares])\n            if len(shnums) >= k:\n",
      "            (seqnum, root_hash, IV, segsize, datalength, N, k, prefix,\n             offsets_tuple) = verinfo\n            shnums = set([shnum for (shnum, server, timestamp) in shares])\n            if len(shnums) >= k:\n",
      "C11.2"),
    M("default-version-any-recoverable", FN,
      "                v = servermap.best_recoverable_version()\n            if not v:\n                raise UnrecoverableFileError",
      "                v = list(servermap.recoverable_versions())[0]\n            if not v:\n                raise UnrecoverableFileError",
      "C11.2"),
    M("reader-seqnum-from-wrong-header-field", LAY,
      "        self._sequence_number = seqnum\n        self._root_hash = root_hash\n        self._required_shares = k\n",
      "        self._sequence_number = datalen\n        self._root_hash = root_hash\n        self._required_shares = k\n", "C11.2"),
    M("best-version-none-for-single-version", SM,
      "        if recoverable:\n            return recoverable[-1]\n        return None\n",
      "        if len(recoverable) > 1:\n            return recoverable[-1]\n        return None\n", "C11.2"),
    M("best-version-test-negated", SM,
      "        if recoverable:\n            return recoverable[-1]\n        return None\n",
      "        if not recoverable:\n            return recoverable[-1]\n        return None\n", "C11.2"),
    M("benign-best-version-empty-first", SM,
      "        if recoverable:\n            return recoverable[-1]\n        return None\n",
      "        if not recoverable:\n            return None\n        return recoverable[-1]\n", None),
    M("benign-best-version-len-zero", SM,
      "        if recoverable:\n            return recoverable[-1]\n        return None\n",
      "        if len(recoverable) == 0:\n            return None\n        return recoverable[-1]\n", None),
    M("benign-best-version-sorted-call", SM,
      "        recoverable = list(self.recoverable_versions())\n        recoverable.sort()\n",
      "        recoverable = sorted(self.recoverable_versions())\n", None),
    M("benign-best-version-max", SM,
      "            return recoverable[-1]\n", "            return max(recoverable)\n", None),
    M("benign-recoverable-rename-local", SM,
      "            shnums = set([shnum for (shnum, server, timestamp) in shares])\n            if len(shnums) >= k:\n",
      "            distinct = set([shnum for (shnum, server, timestamp) in shares])\n            if not len(distinct) < k:\n",
      None),

    # recoverable_versions()/unrecoverable_versions() may walk the version map themselves or be derived from
    # shares_available(); either way the count compared with k is the number of DISTINCT share numbers
    M("recoverability-from-shares-available-counting-placements", SM, REC_BODY, REC_FROM_AVAIL, "C11.2",
      edits=[(SM, UNREC_BODY, UNREC_FROM_AVAIL),
             (SM, AVAIL_COUNT,
              "            (seqnum, root_hash, IV, segsize, datalength, k, N, prefix,\n             offsets_tuple) = verinfo\n"
              "            # the versionmap values are sets already\n"
              "            all_shares[verinfo] = (len(shares), k, N)\n")]),
    M("recoverability-from-shares-available-collecting-shnums-in-a-list", SM, REC_BODY, REC_FROM_AVAIL, "C11.2",
      edits=[(SM, UNREC_BODY, UNREC_FROM_AVAIL),
             (SM, "            s = set()\n            for (shnum, server, timestamp) in shares:\n                s.add(shnum)\n",
              "            s = []\n            for (shnum, server, timestamp) in shares:\n                s.append(shnum)\n")]),
    M("recoverability-from-shares-available-count-not-reset-per-version", SM, REC_BODY, REC_FROM_AVAIL, "C11.2",
      edits=[(SM, "        all_shares = {}\n        for verinfo, shares in list(versionmap.items()):\n            s = set()\n",
              "        all_shares = {}\n        s = set()\n        for verinfo, shares in list(versionmap.items()):\n")]),
    M("unrecoverable-comprehension-counts-placements", SM, UNREC_BODY,
      "        return set(verinfo for (verinfo, shares) in self.make_versionmap().items()\n"
      "                   if len(shares) < verinfo[5])\n", "C11.2"),
    M("recoverable-comprehension-further-filter", SM, REC_BODY,
      "        return set([verinfo\n                    for (verinfo, (found, k, N))\n"
      "                    in self.shares_available().items()\n                    if found >= k and found > 1])\n",
      "C11.2"),
    M("recoverable-from-shares-available-off-by-one", SM, REC_BODY,
      "        recoverable_versions = set()\n        for (verinfo, (num_shnums, k, N)) in self.shares_available().items():\n"
      "            if num_shnums > k:\n                recoverable_versions.add(verinfo)\n        return recoverable_versions\n",
      "C11.2"),
    M("benign-recoverability-derived-from-shares-available", SM, REC_BODY, REC_FROM_AVAIL, None,
      edits=[(SM, UNREC_BODY, UNREC_FROM_AVAIL)]),
    M("benign-recoverable-loop-over-shares-available", SM, REC_BODY,
      "        recoverable_versions = set()\n        for (verinfo, counts) in self.shares_available().items():\n"
      "            if counts[0] >= counts[1]:\n                recoverable_versions.add(verinfo)\n        return recoverable_versions\n",
      None),
    M("benign-unrecoverable-set-comprehension-over-versionmap", SM, UNREC_BODY,
      "        return {verinfo for (verinfo, shares) in self.make_versionmap().items()\n"
      "                if len({shnum for (shnum, server, timestamp) in shares}) < verinfo[5]}\n", None),
    M("benign-recoverable-shnums-set-filled-by-loop", SM,
      "            shnums = set([shnum for (shnum, server, timestamp) in shares])\n            if len(shnums) >= k:\n",
      "            shnums = set()\n            for placement in shares:\n                shnums.add(placement[0])\n"
      "            if len(shnums) >= k:\n", None),

    # ---- C11.3 MODE_READ completion ---------------------------------------
    M("read-newer-comparison-flipped", SM,
      "                if unrec_verinfo[0] > highest_recoverable_seqnum:\n",
      "                if unrec_verinfo[0] < highest_recoverable_seqnum:\n", "C11.3"),
    M("read-newer-only-logged", SM,
      "                    self.log(\"evidence of higher seqnum: need more\",\n                             level=log.UNUSUAL, parent=lp)\n                    return self._send_more_queries(MAX_IN_FLIGHT)\n",
      "                    self.log(\"evidence of higher seqnum: need more\",\n                             level=log.UNUSUAL, parent=lp)\n",
      "C11.3"),
    M("read-quota-skipped-when-recoverable", SM,
      "            if self._queries_completed < self.num_servers_to_query:\n",
      "            if not recoverable_versions and self._queries_completed < self.num_servers_to_query:\n", "C11.3"),
    M("read-compares-root-hash", SM,
      "                if unrec_verinfo[0] > highest_recoverable_seqnum:\n",
      "                if unrec_verinfo[1] > highest_recoverable_seqnum:\n", "C11.3"),
    M("read-highest-is-lowest", SM,
      "            highest_recoverable = max(recoverable_versions)\n",
      "            highest_recoverable = min(recoverable_versions)\n", "C11.3"),
    M("read-shares-anything-shortcut", SM,
      "        if self.mode == MODE_ANYTHING:\n            if recoverable_versions:\n",
      "        if self.mode in (MODE_ANYTHING, MODE_READ):\n            if recoverable_versions:\n", "C11.3"),
    M("read-scan-dropped", SM,
      "            for unrec_verinfo in unrecoverable_versions:\n                if unrec_verinfo[0] > highest_recoverable_seqnum:\n",
      "            for unrec_verinfo in []:\n                if unrec_verinfo[0] > highest_recoverable_seqnum:\n", "C11.3"),
    M("read-newer-seen-but-no-more-queries", SM,
      "                    self.log(\"evidence of higher seqnum: need more\",\n                             level=log.UNUSUAL, parent=lp)\n                    return self._send_more_queries(MAX_IN_FLIGHT)\n",
      "                    self.log(\"evidence of higher seqnum: need more\",\n                             level=log.UNUSUAL, parent=lp)\n                    return None\n",
      "C11.3"),
    M("read-nothing-recoverable-but-no-more-queries", SM,
      "                self.log(\"no recoverable versions: need more\",\n                         level=log.NOISY, parent=lp)\n                return self._send_more_queries(MAX_IN_FLIGHT)\n",
      "                self.log(\"no recoverable versions: need more\",\n                         level=log.NOISY, parent=lp)\n                return\n",
      "C11.3"),
    M("read-more-queries-limit-zero", SM,
      "        MAX_IN_FLIGHT = 5\n", "        MAX_IN_FLIGHT = 0\n", "C11.3"),
    M("benign-read-more-queries-hoisted", SM,
      "                    self.log(\"evidence of higher seqnum: need more\",\n                             level=log.UNUSUAL, parent=lp)\n                    return self._send_more_queries(MAX_IN_FLIGHT)\n",
      "                    self.log(\"evidence of higher seqnum: need more\",\n                             level=log.UNUSUAL, parent=lp)\n                    more = self._send_more_queries(MAX_IN_FLIGHT)\n                    return more\n",
      None),
    M("benign-read-more-queries-limit-inline", SM,
      "                self.log(\"no recoverable versions: need more\",\n                         level=log.NOISY, parent=lp)\n                return self._send_more_queries(MAX_IN_FLIGHT)\n",
      "                self.log(\"no recoverable versions: need more\",\n                         level=log.NOISY, parent=lp)\n                return self._send_more_queries(5)\n",
      None),
    M("benign-read-comparison-form", SM,
      "                if unrec_verinfo[0] > highest_recoverable_seqnum:\n",
      "                if not (unrec_verinfo[0] <= highest_recoverable_seqnum):\n", None),
    M("benign-read-highest-inline", SM,
      "            highest_recoverable = max(recoverable_versions)\n            highest_recoverable_seqnum = highest_recoverable[0]\n",
      "            highest_recoverable_seqnum = max(recoverable_versions)[0]\n", None),
    M("benign-read-quota-form", SM,
      "            if self._queries_completed < self.num_servers_to_query:\n",
      "            if not (self._queries_completed >= self.num_servers_to_query):\n", None),

    # ---- C11.4 no server falls out of the survey unasked --------------------
    M("more-queries-pops-before-limit-check", SM,
      "        while True:\n            self.log(format=\" there are %(outstanding)d queries outstanding\",\n                     outstanding=len(self._queries_outstanding),\n                     level=log.NOISY)\n            active_queries = len(self._queries_outstanding) + len(more_queries)\n            if active_queries >= num_outstanding:\n                break\n            if not self.extra_servers:\n                break\n            more_queries.append(self.extra_servers.pop(0))\n",
      "        while self.extra_servers:\n            server = self.extra_servers.pop(0)\n            self.log(format=\" there are %(outstanding)d queries outstanding\",\n                     outstanding=len(self._queries_outstanding),\n                     level=log.NOISY)\n            active_queries = len(self._queries_outstanding) + len(more_queries)\n            if active_queries >= num_outstanding:\n                break\n            more_queries.append(server)\n",
      "C11.4"),
    M("more-queries-skips-servers-that-failed-before", SM,
      "            more_queries.append(self.extra_servers.pop(0))\n",
      "            candidate = self.extra_servers.pop(0)\n            if candidate in self._bad_servers:\n                continue\n            more_queries.append(candidate)\n",
      "C11.4"),
    M("more-queries-loop-skips-element", SM,
      "        for server in more_queries:\n            self._do_query(server, self._storage_index, self._read_size)\n",
      "        for server in more_queries:\n            if server in self._empty_servers:\n                continue\n            self._do_query(server, self._storage_index, self._read_size)\n",
      "C11.4"),
    M("more-queries-sends-only-some", SM,
      "        for server in more_queries:\n            self._do_query(server, self._storage_index, self._read_size)\n",
      "        for server in more_queries[:num_outstanding - 1]:\n            self._do_query(server, self._storage_index, self._read_size)\n",
      "C11.4"),
    M("initial-requests-capped", SM,
      "        for server in serverlist:\n            self._queries_outstanding.add(server)\n",
      "        for server in list(serverlist)[:self.num_servers_to_query]:\n            self._queries_outstanding.add(server)\n",
      "C11.4"),
    M("initial-querylist-pops-then-filters", SM,
      "            initial_servers_to_query.add(self.extra_servers.pop(0))\n",
      "            server = self.extra_servers.pop(0)\n            if server.get_storage_server() is not None:\n                initial_servers_to_query.add(server)\n",
      "C11.4"),
    M("read-survey-empties-pool", SM,
      "            # 2*k servers is good enough.\n            initial_servers_to_query, must_query = self._build_initial_querylist()\n",
      "            # 2*k servers is good enough.\n            initial_servers_to_query, must_query = self._build_initial_querylist()\n            self.extra_servers = []\n",
      "C11.4"),
    M("pool-starts-truncated", SM,
      "        self.extra_servers = full_serverlist[:] # servers are removed as we use them\n",
      "        self.extra_servers = full_serverlist[:20] # servers are removed as we use them\n", "C11.4"),
    M("pool-starts-filtered", SM,
      "        self.extra_servers = full_serverlist[:] # servers are removed as we use them\n",
      "        self.extra_servers = [s for s in full_serverlist if s not in self._servermap.all_servers()]\n", "C11.4"),
    M("query-not-registered-outstanding", SM,
      "        started = time.time()\n        self._queries_outstanding.add(server)\n        d = self._do_read(server, storage_index, [], [(0, readsize)])\n",
      "        started = time.time()\n        d = self._do_read(server, storage_index, [], [(0, readsize)])\n", "C11.4"),
    M("more-queries-resets-outstanding", SM,
      "        for server in more_queries:\n            self._do_query(server, self._storage_index, self._read_size)\n",
      "        self._queries_outstanding = set()\n        for server in more_queries:\n            self._do_query(server, self._storage_index, self._read_size)\n",
      "C11.4"),
    M("benign-more-queries-pop-into-local", SM,
      "            more_queries.append(self.extra_servers.pop(0))\n",
      "            server = self.extra_servers.pop(0)\n            more_queries.append(server)\n", None),
    M("benign-more-queries-while-pool-nonempty", SM,
      "        while True:\n            self.log(format=\" there are %(outstanding)d queries outstanding\",\n                     outstanding=len(self._queries_outstanding),\n                     level=log.NOISY)\n            active_queries = len(self._queries_outstanding) + len(more_queries)\n            if active_queries >= num_outstanding:\n                break\n            if not self.extra_servers:\n                break\n            more_queries.append(self.extra_servers.pop(0))\n",
      "        while self.extra_servers:\n            self.log(format=\" there are %(outstanding)d queries outstanding\",\n                     outstanding=len(self._queries_outstanding),\n                     level=log.NOISY)\n            active_queries = len(self._queries_outstanding) + len(more_queries)\n            if active_queries >= num_outstanding:\n                break\n            server = self.extra_servers.pop(0)\n            more_queries.append(server)\n",
      None),
    M("benign-more-queries-loop-over-copy", SM,
      "        for server in more_queries:\n            self._do_query(server, self._storage_index, self._read_size)\n",
      "        for s in list(more_queries):\n            self._do_query(s, self._storage_index, self._read_size)\n", None),
    M("benign-pool-copy-by-list", SM,
      "        self.extra_servers = full_serverlist[:] # servers are removed as we use them\n",
      "        self.extra_servers = list(full_serverlist) # servers are removed as we use them\n", None),
    M("benign-outstanding-registered-by-callers", SM,
      "        started = time.time()\n        self._queries_outstanding.add(server)\n        d = self._do_read(server, storage_index, [], [(0, readsize)])\n",
      "        started = time.time()\n        d = self._do_read(server, storage_index, [], [(0, readsize)])\n", None,
      edits=[(SM, "        for server in more_queries:\n            self._do_query(server, self._storage_index, self._read_size)\n",
              "        for server in more_queries:\n            self._queries_outstanding.add(server)\n            self._do_query(server, self._storage_index, self._read_size)\n")]),
    M("benign-initial-querylist-pop-into-local", SM,
      "            initial_servers_to_query.add(self.extra_servers.pop(0))\n",
      "            nxt = self.extra_servers.pop(0)\n            initial_servers_to_query.add(nxt)\n", None),
    M("benign-initial-querylist-result-in-local", SM,
      "        return initial_servers_to_query, must_query\n",
      "        both = initial_servers_to_query, must_query\n        return both\n", None),
    # a removal form the rule does not follow must fail closed, never pass
    M("vanish-pool-resliced", SM,
      "            more_queries.append(self.extra_servers.pop(0))\n",
      "            more_queries.append(self.extra_servers[0])\n            self.extra_servers = self.extra_servers[2:]\n",
      "ANALYSIS-ERROR"),
    M("vanish-pool-del-slice", SM,
      "            more_queries.append(self.extra_servers.pop(0))\n",
      "            more_queries.append(self.extra_servers[0])\n            del self.extra_servers[:2]\n",
      "ANALYSIS-ERROR"),
    M("vanish-do-query", SM, "    def _do_query(self, server, storage_index, readsize):",
      "    def _do_queryX(self, server, storage_index, readsize):", "ANALYSIS-ERROR"),

    # ---- C11.5 what a survey observed is not forgotten ----------------------
    M("unreachable-server-forgets-its-shares", SM,
      "        self.unreachable_servers.add(server)\n",
      "        self.unreachable_servers.add(server)\n"
      "        for key in [key for key in self._known_shares if key[0] is server]:\n"
      "            del self._known_shares[key]\n", "C11.5"),
    M("unreachable-server-record-rebuilt-without-it", SM,
      "        self.unreachable_servers.add(server)\n",
      "        self.unreachable_servers.add(server)\n"
      "        self._known_shares = dict((k, v) for (k, v) in self._known_shares.items() if k[0] is not server)\n",
      "C11.5"),
    M("query-failure-marks-the-servers-shares-bad", SM,
      "        self._servermap.mark_server_unreachable(server)\n",
      "        self._servermap.mark_server_unreachable(server)\n"
      "        for (s, shnum) in list(self._servermap.get_known_shares()):\n"
      "            if s is server:\n                self._servermap.mark_bad_share(s, shnum, b\"\")\n", "C11.5"),
    M("bad-share-drops-every-share-of-that-server", SM,
      "        self._bad_shares[key] = checkstring\n        self._known_shares.pop(key, None)\n",
      "        self._bad_shares[key] = checkstring\n"
      "        for k in [k for k in self._known_shares if k[0] is server]:\n"
      "            self._known_shares.pop(k, None)\n", "C11.5"),
    M("publish-forgets-the-share-it-is-about-to-replace", PUB,
      "            assert (server, shnum) in known_shares\n            old_versionid, old_timestamp = known_shares[(server,shnum)]\n",
      "            assert (server, shnum) in known_shares\n            old_versionid, old_timestamp = known_shares.pop((server,shnum))\n",
      "C11.5"),
    M("servermap-copy-starts-empty", SM,
      "        s._known_shares = self._known_shares.copy() # tuple->tuple\n",
      "        s._known_shares = {} # refilled by the next update\n", "C11.5"),
    M("benign-bad-share-removed-with-del", SM,
      "        self._bad_shares[key] = checkstring\n        self._known_shares.pop(key, None)\n",
      "        self._bad_shares[key] = checkstring\n        if key in self._known_shares:\n"
      "            del self._known_shares[key]\n", None),
    M("benign-bad-share-removed-before-it-is-filed", SM,
      "        self._bad_shares[key] = checkstring\n        self._known_shares.pop(key, None)\n",
      "        self._known_shares.pop(key, None)\n        self._bad_shares[key] = checkstring\n", None),
    M("benign-servermap-copy-by-dict", SM,
      "        s._known_shares = self._known_shares.copy() # tuple->tuple\n",
      "        s._known_shares = dict(self._known_shares) # tuple->tuple\n", None),
    M("benign-unreachable-server-counts-its-shares", SM,
      "        self.unreachable_servers.add(server)\n",
      "        self.unreachable_servers.add(server)\n"
      "        self._unreachable_share_count = len([key for key in self._known_shares if key[0] is server])\n", None),
    M("benign-publish-reads-known-shares-without-local", PUB,
      "            assert (server, shnum) in known_shares\n            old_versionid, old_timestamp = known_shares[(server,shnum)]\n",
      "            assert (server, shnum) in self._servermap.get_known_shares()\n"
      "            old_versionid, old_timestamp = self._servermap.get_known_shares()[(server,shnum)]\n", None),
    M("benign-query-failure-logs-known-shares", SM,
      "        self._servermap.mark_server_unreachable(server)\n",
      "        self._servermap.mark_server_unreachable(server)\n"
      "        held = [shnum for (s, shnum) in self._servermap.get_known_shares() if s is server]\n"
      "        self.log(\"shares seen there earlier: %s\" % (held,), level=log.NOISY)\n", None),
    M("vanish-known-shares-kept-by-the-publisher", PUB,
      "            assert (server, shnum) in known_shares\n",
      "            assert (server, shnum) in known_shares\n            self._known_before = known_shares\n",
      "ANALYSIS-ERROR"),

    # ---- vanished anchor ---------------------------------------------------
    M("vanish-check-for-done", SM, "    def _check_for_done(self, res):", "    def _check_for_doneX(self, res):", "ANALYSIS-ERROR"),
]


# ---- seeded C11-I: the ServerMap queries (and the MODE_READ completion test) refactored onto one shared per-version
# table _version_health(); best_recoverable_version() = max(.., default=None), highest_seqnum() = max(.., default=0),
# _check_for_done asks unrecoverable_newer_versions().  The edits are the hunks of the seeded patch on the current source.
_HEALTH_EDITS = [('\n'
  '    def shares_available(self):\n'
  '        """Return a dict that maps verinfo to tuples of\n'
  '        (num_distinct_shares, k, N) tuples."""\n'
  '        versionmap = self.make_versionmap()\n'
  '        all_shares = {}\n'
  '        for verinfo, shares in list(versionmap.items()):\n'
  '            s = set()\n'
  '            for (shnum, server, timestamp) in shares:\n'
  '                s.add(shnum)\n'
  '            (seqnum, root_hash, IV, segsize, datalength, k, N, prefix,\n'
  '             offsets_tuple) = verinfo\n'
  '            all_shares[verinfo] = (len(s), k, N)\n'
  '        return all_shares\n'
  '\n'
  '    def highest_seqnum(self):\n'
  '        available = self.shares_available()\n'
  '        seqnums = [verinfo[0]\n'
  '                   for verinfo in available.keys()]\n'
  '        seqnums.append(0)\n'
  '        return max(seqnums)\n'
  '\n',
  '\n'
  '    def _version_health(self):\n'
  '        """Return a dict that maps verinfo to a (num_distinct_shares, k, N)\n'
  '        tuple. All of the recoverable/unrecoverable questions below are\n'
  '        answered from this one table."""\n'
  '        health = {}\n'
  '        for (verinfo, shares) in self.make_versionmap().items():\n'
  '            (seqnum, root_hash, IV, segsize, datalength, k, N, prefix,\n'
  '             offsets_tuple) = verinfo\n'
  '            health[verinfo] = (len(shares), k, N)\n'
  '        return health\n'
  '\n'
  '    def shares_available(self):\n'
  '        """Return a dict that maps verinfo to tuples of\n'
  '        (num_distinct_shares, k, N) tuples."""\n'
  '        return self._version_health()\n'
  '\n'
  '    def highest_seqnum(self):\n'
  '        return max([verinfo[0] for verinfo in self._version_health()],\n'
  '                   default=0)\n'
  '\n'),
 ('        recoverable."""\n'
  '        versionmap = self.make_versionmap()\n'
  '        recoverable_versions = set()\n'
  '        for (verinfo, shares) in list(versionmap.items()):\n'
  '            (seqnum, root_hash, IV, segsize, datalength, k, N, prefix,\n'
  '             offsets_tuple) = verinfo\n'
  '            shnums = set([shnum for (shnum, server, timestamp) in shares])\n'
  '            if len(shnums) >= k:\n'
  '                # this one is recoverable\n'
  '                recoverable_versions.add(verinfo)\n'
  '\n'
  '        return recoverable_versions\n'
  '\n'
  '    def unrecoverable_versions(self):\n'
  '        """Return a set of versionids, one for each version that is currently\n'
  '        unrecoverable."""\n'
  '        versionmap = self.make_versionmap()\n'
  '\n'
  '        unrecoverable_versions = set()\n'
  '        for (verinfo, shares) in list(versionmap.items()):\n'
  '            (seqnum, root_hash, IV, segsize, datalength, k, N, prefix,\n'
  '             offsets_tuple) = verinfo\n'
  '            shnums = set([shnum for (shnum, server, timestamp) in shares])\n'
  '            if len(shnums) < k:\n'
  '                unrecoverable_versions.add(verinfo)\n'
  '\n'
  '        return unrecoverable_versions\n'
  '\n'
  '    def best_recoverable_version(self):\n'
  '        """Return a single versionid, for the so-called \'best\' recoverable\n'
  '        version. Sequence number is the primary sort criteria, followed by\n'
  '        root hash. Returns None if there are no recoverable versions."""\n'
  '        recoverable = list(self.recoverable_versions())\n'
  '        recoverable.sort()\n'
  '        if recoverable:\n'
  '            return recoverable[-1]\n'
  '        return None\n'
  '\n',
  '        recoverable."""\n'
  '        return set(verinfo\n'
  '                   for (verinfo, (found, k, N))\n'
  '                   in self._version_health().items()\n'
  '                   if found >= k)\n'
  '\n'
  '    def unrecoverable_versions(self):\n'
  '        """Return a set of versionids, one for each version that is currently\n'
  '        unrecoverable."""\n'
  '        return set(verinfo\n'
  '                   for (verinfo, (found, k, N))\n'
  '                   in self._version_health().items()\n'
  '                   if found < k)\n'
  '\n'
  '    def best_recoverable_version(self):\n'
  '        """Return a single versionid, for the so-called \'best\' recoverable\n'
  '        version. Sequence number is the primary sort criteria, followed by\n'
  '        root hash. Returns None if there are no recoverable versions."""\n'
  '        return max(self.recoverable_versions(), default=None)\n'
  '\n'),
 ('        # These indicate that a write will lose data.\n'
  '        versionmap = self.make_versionmap()\n'
  '        healths = {} # maps verinfo to (found,k)\n'
  '        unrecoverable = set()\n'
  '        highest_recoverable_seqnum = -1\n'
  '        for (verinfo, shares) in list(versionmap.items()):\n'
  '            (seqnum, root_hash, IV, segsize, datalength, k, N, prefix,\n'
  '             offsets_tuple) = verinfo\n'
  '            shnums = set([shnum for (shnum, server, timestamp) in shares])\n'
  '            healths[verinfo] = (len(shnums),k)\n'
  '            if len(shnums) < k:\n'
  '                unrecoverable.add(verinfo)\n'
  '            else:\n'
  '                highest_recoverable_seqnum = max(seqnum,\n'
  '                                                 highest_recoverable_seqnum)\n'
  '\n'
  '        newversions = {}\n'
  '        for verinfo in unrecoverable:\n'
  '            (seqnum, root_hash, IV, segsize, datalength, k, N, prefix,\n'
  '             offsets_tuple) = verinfo\n'
  '            if seqnum > highest_recoverable_seqnum:\n'
  '                newversions[verinfo] = healths[verinfo]\n'
  '\n'
  '        return newversions\n'
  '\n',
  '        # These indicate that a write will lose data.\n'
  '        health = self._version_health()\n'
  '        highest_recoverable_seqnum = max(\n'
  '            [verinfo[0]\n'
  '             for (verinfo, (found, k, N)) in health.items()\n'
  '             if found >= k],\n'
  '            default=-1)\n'
  '        return dict((verinfo, (found, k))\n'
  '                    for (verinfo, (found, k, N)) in health.items()\n'
  '                    if found < k and verinfo[0] > highest_recoverable_seqnum)\n'
  '\n'),
 ('                               for verinfo in self.recoverable_versions()]\n'
  '        for seqnum in recoverable_seqnums:\n'
  '            if recoverable_seqnums.count(seqnum) > 1:\n'
  '                return True\n'
  '        return False\n'
  '\n',
  '                               for verinfo in self.recoverable_versions()]\n'
  '        return len(set(recoverable_seqnums)) < len(recoverable_seqnums)\n'
  '\n'),
 ('        recoverable_versions = self._servermap.recoverable_versions()\n'
  '        unrecoverable_versions = self._servermap.unrecoverable_versions()\n'
  '\n',
  '        recoverable_versions = self._servermap.recoverable_versions()\n\n'),
 ('                return self._send_more_queries(MAX_IN_FLIGHT)\n'
  '            highest_recoverable = max(recoverable_versions)\n'
  '            highest_recoverable_seqnum = highest_recoverable[0]\n'
  '            for unrec_verinfo in unrecoverable_versions:\n'
  '                if unrec_verinfo[0] > highest_recoverable_seqnum:\n'
  '                    # there is evidence of a higher-seqnum version, but we\n'
  "                    # don't yet see enough shares to recover it. Try harder.\n"
  '                    # TODO: consider sending more queries.\n'
  '                    # TODO: consider limiting the search distance\n'
  '                    self.log("evidence of higher seqnum: need more",\n'
  '                             level=log.UNUSUAL, parent=lp)\n'
  '                    return self._send_more_queries(MAX_IN_FLIGHT)\n'
  '            # all the unrecoverable versions were old or concurrent with a\n',
  '                return self._send_more_queries(MAX_IN_FLIGHT)\n'
  '            if self._servermap.unrecoverable_newer_versions():\n'
  '                # there is evidence of a higher-seqnum version, but we\n'
  "                # don't yet see enough shares to recover it. Try harder.\n"
  '                # TODO: consider sending more queries.\n'
  '                # TODO: consider limiting the search distance\n'
  '                self.log("evidence of higher seqnum: need more",\n'
  '                         level=log.UNUSUAL, parent=lp)\n'
  '                return self._send_more_queries(MAX_IN_FLIGHT)\n'
  '            # all the unrecoverable versions were old or concurrent with a\n')]

_SLIP_COUNT = "            health[verinfo] = (len(shares), k, N)\n"
_FAITHFUL_COUNT = ("            shnums = set([shnum for (shnum, server, timestamp) in shares])\n"
                   "            health[verinfo] = (len(shnums), k, N)\n")


def _health_refactor(mid, expect, count=_FAITHFUL_COUNT, swaps=()):
    """The C11-I refactor with the per-version count written as `count` (the seeded slip sits there) and the further
    (old, new) text replacements `swaps` made in the refactored code."""
    edits = []
    for (old, new) in _HEALTH_EDITS:
        assert new.count(_SLIP_COUNT) <= 1
        new = new.replace(_SLIP_COUNT, count)
        for (a, b) in swaps:
            new = new.replace(a, b)
        edits.append((SM, old, new))
    for (a, b) in swaps:
        assert any(b in e[2] for e in edits), (mid, a)
    return M(mid, SM, edits[0][1], edits[0][2], expect, edits=edits[1:])


MUTANTS += [
    # the refactor done faithfully: distinct share numbers per version
    _health_refactor("version-health-refactor-faithful", None),
    _health_refactor("version-health-refactor-faithful-set-filled-by-loop", None,
                     count="            shnums = set()\n            for (shnum, server, timestamp) in shares:\n"
                           "                shnums.add(shnum)\n            health[verinfo] = (len(shnums), k, N)\n"),
    # the seeded slip: the table counts (shnum, server, timestamp) placements
    _health_refactor("version-health-refactor-counts-placements", "C11.2", count=_SLIP_COUNT),
    _health_refactor("version-health-refactor-counts-list-of-shnums", "C11.2",
                     count="            shnums = [shnum for (shnum, server, timestamp) in shares]\n"
                           "            health[verinfo] = (len(shnums), k, N)\n"),
    # other slips of the same translation
    _health_refactor("version-health-refactor-best-is-min", "C11.2",
                     swaps=[("return max(self.recoverable_versions(), default=None)",
                             "return min(self.recoverable_versions(), default=None)")]),
    _health_refactor("version-health-refactor-recoverable-gt-k", "C11.2",
                     swaps=[("                   in self._version_health().items()\n                   if found >= k)",
                             "                   in self._version_health().items()\n                   if found > k)")]),
    _health_refactor("version-health-refactor-highest-seqnum-of-recoverable", "C11.1",
                     swaps=[("return max([verinfo[0] for verinfo in self._version_health()],",
                             "return max([verinfo[0] for verinfo in self.recoverable_versions()],")]),
    _health_refactor("version-health-refactor-newer-bound-over-all-versions", "C11.3",
                     swaps=[("             for (verinfo, (found, k, N)) in health.items()\n             if found >= k],\n",
                             "             for (verinfo, (found, k, N)) in health.items()],\n")]),
    # fail closed: a bound the evaluation does not follow
    _health_refactor("version-health-refactor-newer-only-two-ahead", "ANALYSIS-ERROR",
                     swaps=[("if found < k and verinfo[0] > highest_recoverable_seqnum)",
                             "if found < k and verinfo[0] > highest_recoverable_seqnum + 1)")]),
    _health_refactor("version-health-refactor-done-when-newer-seen", "C11.3",
                     swaps=[("            if self._servermap.unrecoverable_newer_versions():\n",
                             "            if not self._servermap.unrecoverable_newer_versions():\n")]),
]


# ---- seeded C14-I in its faithful form: the queries derived from shares_available(), which counts the share numbers a
# helper _shnums_by_version() collected per version (the variants are those of selftest/C14.py, read for this property)
from .C14 import _refactor as _shnums_refactor      # noqa: E402

MUTANTS += [
    _shnums_refactor("shnums-by-version-refactor-faithful", None),
    _shnums_refactor("shnums-by-version-refactor-faithful-defaultdict", None,
                     helper="    def _shnums_by_version(self):\n        shnums = defaultdict(set)\n"
                            "        for ( (server, shnum), (verinfo, timestamp) ) in self._known_shares.items():\n"
                            "            shnums[verinfo].add(shnum)\n        return shnums\n\n"),
    _shnums_refactor("shnums-by-version-refactor-shnums-in-list", "C11.2", fill="shnums.setdefault(verinfo, []).append(shnum)"),
    _shnums_refactor("shnums-by-version-refactor-recoverable-gt-k", "C11.2", rec_op=">"),
    _shnums_refactor("shnums-by-version-refactor-helper-not-followed", "ANALYSIS-ERROR",
                     fill="if shnum not in shnums.setdefault(verinfo, []):\n                shnums[verinfo].append(shnum)"),
]
