from .runner import M

PUB = "src/allmydata/mutable/publish.py"
LAY = "src/allmydata/mutable/layout.py"
FN = "src/allmydata/mutable/filenode.py"
SRV = "src/allmydata/storage/server.py"
SC = "src/allmydata/storage_client.py"
HS = "src/allmydata/storage/http_server.py"
HC = "src/allmydata/storage/http_client.py"
MUT = "src/allmydata/storage/mutable.py"

MUTANTS = [
    # ---- C12.1 non-empty test vectors
    M("sdmf-empty-testv-sent", LAY,
      "            # a test vector that will only allow a new share to be written.\n            self._testvs = []\n"
      "            self._testvs.append(tuple([0, 1, b\"\"]))\n",
      "            # a test vector that will only allow a new share to be written.\n            self._testvs = []\n", "C12.1"),
    M("mdmf-fallback-zero-length", LAY,
      "            # previously exist.\n            self._testvs = []\n            self._testvs.append(tuple([0, 1, b\"\"]))\n",
      "            # previously exist.\n            self._testvs = []\n            self._testvs.append(tuple([0, 0, b\"\"]))\n", "C12.1"),
    M("mdmf-testv-dropped-once-written", LAY,
      "            on_success = _first_write\n        tw_vectors[self.shnum] = (self._testvs, datavs, None)\n",
      "            on_success = _first_write\n        tw_vectors[self.shnum] = ([] if self._written else self._testvs, datavs, None)\n",
      "C12.1"),
    M("sdmf-testv-cleared-before-send", LAY,
      "        tw_vectors = {}\n        tw_vectors[self.shnum] = (self._testvs, datavs, None)\n        return self._storage_server",
      "        tw_vectors = {}\n        if self._seqnum == 1:\n            self._testvs = []\n"
      "        tw_vectors[self.shnum] = (self._testvs, datavs, None)\n        return self._storage_server", "C12.1"),
    # ---- C12.2 the whole checkstring is compared
    M("sdmf-testv-version-byte-only", LAY,
      "        self._testvs = [(0, len(checkstring), checkstring)]\n",
      "        self._testvs = [(0, 1, checkstring[:1])]\n", "C12.2"),
    M("mdmf-checkstring-without-roothash", LAY,
      "            checkstring = struct.pack(MDMFCHECKSTRING,\n                                      1,\n"
      "                                      seqnum_or_checkstring,\n                                      root_hash)\n",
      "            checkstring = struct.pack(\">BQ\", 1, seqnum_or_checkstring)\n", "C12.2"),
    M("sdmf-checkstring-wrong-version-byte", LAY,
      "            checkstring = struct.pack(PREFIX,\n                                      0,\n",
      "            checkstring = struct.pack(PREFIX,\n                                      1,\n", "C12.2"),
    # ---- C12.3 publisher pins the version it saw
    M("publish-checkstring-from-best-version", PUB,
      "                old_versionid, old_timestamp = known_shares[(server,shnum)]\n",
      "                old_versionid = self._servermap.best_recoverable_version()\n", "C12.3"),
    M("publish-known-share-sometimes-unpinned", PUB,
      "            if (server, shnum) in known_shares:\n                old_versionid, old_timestamp",
      "            if (server, shnum) in known_shares and not self.bad_share_checkstrings:\n                old_versionid, old_timestamp",
      "C12.3"),
    M("update-never-pins", PUB,
      "            writer.set_checkstring(old_seqnum,\n                                   old_root_hash,\n"
      "                                   old_salt)\n", "", "C12.3"),
    M("publish-roothash-salt-swapped", PUB,
      "                writer.set_checkstring(old_seqnum,\n                                       old_root_hash,\n"
      "                                       old_salt)\n",
      "                writer.set_checkstring(old_seqnum,\n                                       old_salt,\n"
      "                                       old_root_hash)\n", "C12.3"),
    # ---- C12.4 surprise detection
    M("rejected-write-not-surprising", PUB,
      "            self.surprised = True\n            self.bad_servers.add(server) # don't ask them again\n",
      "            self.bad_servers.add(server) # don't ask them again\n", "C12.4"),
    M("mismatch-surprising-only-if-we-asked", PUB,
      "                    surprised = True\n                    # TODO: ask this server next time. I don't yet have a good\n",
      "                    self.log(\"unexpected share on a server we never queried\")\n"
      "                    # TODO: ask this server next time. I don't yet have a good\n", "C12.4",
      edits=[(PUB, "                    # to self.goal and loop).\n\n                surprised = True\n",
              "                    # to self.goal and loop).\n")]),
    M("surprise-compares-version-byte-only", PUB,
      "            if checkstring == self._checkstring:\n",
      "            if checkstring[:1] == self._checkstring[:1]:\n", "C12.4"),
    M("surprise-overwritten-by-later-answer", PUB,
      "                     parent=lp, level=log.WEIRD, umid=\"un9CSQ\")\n            self.surprised = True\n",
      "                     parent=lp, level=log.WEIRD, umid=\"un9CSQ\")\n        self.surprised = surprised\n", "C12.4"),
    # ---- C12.5 the answer reaches the handler
    M("outstanding-counter-swallows-result", PUB,
      "                    self.num_outstanding -= 1\n                    return res\n",
      "                    self.num_outstanding -= 1\n", "C12.5"),
    M("answer-handler-not-registered", PUB,
      "                d.addCallback(self._got_write_answer, writer, started)\n", "", "C12.5"),
    M("mdmf-proxy-drops-result", LAY,
      "                if on_success: on_success()\n            return results\n",
      "                if on_success: on_success()\n", "C12.5"),
    # ---- C12.6 success only when not surprised
    M("done-ignores-surprise", PUB,
      "        if num_shnums < self.required_shares or self.surprised:",
      "        if num_shnums < self.required_shares:", "C12.6"),
    M("done-from-answer-handler", PUB,
      "        self._update_status()\n        # the next method in the deferred chain will check to see if\n",
      "        self._update_status()\n        if self.placed == self.goal:\n            self._done()\n"
      "        # the next method in the deferred chain will check to see if\n", "C12.6"),
    # ---- C12.7 error mapping
    M("failure-mapping-swapped", PUB,
      "        if not self.surprised:\n            # We ran out of servers",
      "        if self.surprised:\n            # We ran out of servers", "C12.7"),
    M("ucwe-reported-as-not-enough-servers", PUB,
      "            e = UncoordinatedWriteError()\n", "            e = NotEnoughServersError(\"uncoordinated write\")\n", "C12.7"),
    # ---- C12.8 retry discipline
    M("retry-without-trap", FN,
      "            f.trap(UncoordinatedWriteError)\n            # Uh oh, it broke.", "            # Uh oh, it broke.", "C12.8"),
    M("retry-traps-everything", FN,
      "            f.trap(UncoordinatedWriteError)\n            # Uh oh, it broke.",
      "            f.trap(Exception)\n            # Uh oh, it broke.", "C12.8"),
    M("retry-keeps-first-time", FN,
      "                                                  backoffer, False))",
      "                                                  backoffer, first_time))", "C12.8"),
    M("retry-reuses-collided-survey", FN,
      "            d = self._update_servermap(mode=MODE_CHECK)\n", "            d = defer.succeed(None)\n", "C12.8"),
    M("retry-errback-dropped", FN,
      "            return d2\n        d.addErrback(_retry)\n        return d\n", "            return d2\n        return d\n", "C12.8"),
    # ---- C12.9 server side
    M("server-writes-new-slot-untested", SRV,
      "        if testv_is_good:\n            # now apply the write vectors",
      "        if testv_is_good or not shares:\n            # now apply the write vectors", "C12.9"),
    M("server-testv-failure-skipped", SRV,
      "                    self.log(\"testv failed: [%d]: %r\" % (sharenum, testv))\n                    return False\n",
      "                    self.log(\"testv failed: [%d]: %r\" % (sharenum, testv))\n                    continue\n", "C12.9"),
    M("server-reports-success-always", SRV,
      "        return (testv_is_good, read_data)\n", "        return (True, read_data)\n", "C12.9"),
    # ---- benign
    M("benign-testv-len-test", LAY,
      "        if not self._testvs:\n            # Our caller has not provided",
      "        if len(self._testvs) == 0:\n            # Our caller has not provided", None),
    M("benign-fallback-as-literal", LAY,
      "            # previously exist.\n            self._testvs = []\n            self._testvs.append(tuple([0, 1, b\"\"]))\n",
      "            # previously exist.\n            self._testvs = [(0, 1, b\"\")]\n", None),
    M("benign-known-shares-hoisted", PUB,
      "            known_shares = self._servermap.get_known_shares()\n            if (server, shnum) in known_shares:\n",
      "            if (server, shnum) in known_shares:\n", None,
      edits=[(PUB, "        if self._version == MDMF_VERSION:\n            writer_class = MDMFSlotWriteProxy\n        else:\n",
              "        known_shares = self._servermap.get_known_shares()\n        if self._version == MDMF_VERSION:\n"
              "            writer_class = MDMFSlotWriteProxy\n        else:\n")]),
    M("benign-compare-flipped", PUB,
      "            if checkstring == self._checkstring:\n", "            if not (self._checkstring != checkstring):\n", None),
    M("benign-once-as-nested-def", FN,
      "        d.addCallback(lambda ignored:\n            self._modify_once(modifier, first_time))\n",
      "        def _once(ignored):\n            return self._modify_once(modifier, first_time)\n        d.addCallback(_once)\n", None),
    M("benign-server-double-negation", SRV,
      "        if testv_is_good:\n            # now apply the write vectors",
      "        if not (not testv_is_good):\n            # now apply the write vectors", None),
    # ---- C12.9 (gap review) existing share tested as if absent
    M("server-existing-share-tested-as-empty", SRV,
      "            if sharenum in shares:\n                if not shares[sharenum].check_testv(testv):",
      "            if sharenum not in shares:\n                if not shares[sharenum].check_testv(testv):", "C12.9"),
    M("benign-server-absent-branch-first", SRV,
      "            if sharenum in shares:\n                if not shares[sharenum].check_testv(testv):\n"
      "                    self.log(\"testv failed: [%d]: %r\" % (sharenum, testv))\n                    return False\n"
      "            else:\n                # compare the vectors against an empty share, in which all\n"
      "                # reads return empty strings.\n                if not EmptyShare().check_testv(testv):\n"
      "                    self.log(\"testv failed (empty): [%d] %r\" % (sharenum,\n"
      "                                                                testv))\n                    return False\n",
      "            if sharenum not in shares:\n                absent = EmptyShare()\n"
      "                if not absent.check_testv(testv):\n"
      "                    self.log(\"testv failed (empty): [%d] %r\" % (sharenum, testv))\n                    return False\n"
      "            else:\n                if not shares[sharenum].check_testv(testv):\n"
      "                    self.log(\"testv failed: [%d]: %r\" % (sharenum, testv))\n                    return False\n", None),
    M("benign-server-early-refusal", SRV,
      "        if testv_is_good:\n            # now apply the write vectors\n",
      "        if not testv_is_good:\n            self.add_latency(\"writev\", self._clock.seconds() - start)\n"
      "            return (False, read_data)\n        if True:\n            # now apply the write vectors\n", None),
    M("benign-server-verdict-through-bool", SRV,
      "        if testv_is_good:\n            # now apply the write vectors\n",
      "        accepted = bool(testv_is_good)\n        if accepted:\n            # now apply the write vectors\n", None),
    M("benign-server-verdict-negated-local", SRV,
      "        if testv_is_good:\n            # now apply the write vectors\n",
      "        rejected = not testv_is_good\n        if not rejected:\n            # now apply the write vectors\n", None),
    M("server-early-refusal-reports-success", SRV,
      "        if testv_is_good:\n            # now apply the write vectors\n",
      "        if not testv_is_good:\n            self.add_latency(\"writev\", self._clock.seconds() - start)\n"
      "            return (True, read_data)\n        if True:\n            # now apply the write vectors\n", "C12.9"),
    # ---- C12.10 the answer handler cannot die before marking
    M("answer-log-parent-unbound", PUB,
      "        lp = self.log(\"_got_write_answer from %r, share %d\" %", "        self.log(\"_got_write_answer from %r, share %d\" %",
      "C12.10"),
    M("answer-timestamp-unbound", PUB,
      "        now = time.time()\n        elapsed = now - started\n\n        self._status.add_per_server_time",
      "        elapsed = now - started\n\n        self._status.add_per_server_time", "C12.10"),
    M("answer-surprise-set-unbound", PUB,
      "        surprise_shares = set(read_data.keys()) - set([writer.shnum])\n",
      "        if self.versioninfo:\n            surprise_shares = set(read_data.keys()) - set([writer.shnum])\n", "C12.10"),
    M("benign-surprised-flag-hoisted", PUB,
      "        surprised = False\n        for shnum in surprise_shares:\n", "        for shnum in surprise_shares:\n", None,
      edits=[(PUB, "        wrote, read_data = answer\n", "        wrote, read_data = answer\n        surprised = False\n")]),
    # ---- C12.11 what is compared / withheld
    M("surprise-filter-other-servers", PUB,
      "            shares.extend([x.shnum for x in writers if x.server == server])\n",
      "            shares.extend([x.shnum for x in writers if x.server != server])\n", "C12.11"),
    M("surprise-withholds-all-goal-shnums", PUB,
      "        surprise_shares -= known_shnums\n",
      "        surprise_shares -= set([s for (p, s) in self.goal])\n", "C12.11"),
    M("surprise-reads-second-vector", PUB,
      "            checkstring = read_data[shnum][0]\n", "            checkstring = read_data[shnum][1]\n", "C12.11"),
    M("surprise-checkstring-unbound", PUB,
      "            checkstring = read_data[shnum][0]\n", "", ["C12.10", "C12.11"]),
    M("surprise-set-only-goal-shares", PUB,
      "        surprise_shares = set(read_data.keys()) - set([writer.shnum])\n",
      "        surprise_shares = set([s for (p, s) in self.goal if p == server]) - set([writer.shnum])\n", "C12.11"),
    M("sdmf-reads-nothing-back", LAY,
      "        self._readvs = [(0, struct.calcsize(PREFIX))]\n", "        self._readvs = []\n", "C12.11"),
    M("benign-known-shnums-as-comprehension", PUB,
      "        shares = []\n        for shnum, writers in self.writers.items():\n"
      "            shares.extend([x.shnum for x in writers if x.server == server])\n        known_shnums = set(shares)\n",
      "        known_shnums = set(x.shnum for ws in self.writers.values() for x in ws if server == x.server)\n", None),
    M("benign-known-shnums-explicit-loop", PUB,
      "            shares.extend([x.shnum for x in writers if x.server == server])\n",
      "            for x in writers:\n                if x.server == server:\n                    shares.append(x.shnum)\n", None),
    M("publish-writer-without-server-attr", PUB,
      "            self.writers.add(shnum, writer)\n            writer.server = server\n"
      "            known_shares = self._servermap.get_known_shares()\n            if (server, shnum) in known_shares:\n",
      "            self.writers.add(shnum, writer)\n"
      "            known_shares = self._servermap.get_known_shares()\n            if (server, shnum) in known_shares:\n", "C12.11"),
    M("benign-update-server-attr-set-first", PUB,
      "            self.writers.add(shnum, writer)\n            writer.server = server\n"
      "            known_shares = self._servermap.get_known_shares()\n            assert (server, shnum) in known_shares\n",
      "            writer.server = server\n            self.writers.add(shnum, writer)\n"
      "            known_shares = self._servermap.get_known_shares()\n            assert (server, shnum) in known_shares\n", None),
    # ---- C12.12 every answer is awaited
    M("writer-deferred-not-collected", PUB, "                ds.append(d)\n", "", "C12.12"),
    M("finish-fires-on-first-answer", PUB,
      "        return defer.DeferredList(ds)\n", "        return defer.DeferredList(ds, fireOnOneCallback=True)\n", "C12.12"),
    M("push-not-chained-on-answers", PUB,
      "        d.addCallback(_change_state)\n        d.addCallback(self._push)\n        return d\n",
      "        self._state = DONE_STATE\n        return self._push()\n", "C12.12"),
    M("benign-deferredlist-in-local", PUB,
      "        return defer.DeferredList(ds)\n", "        dl = defer.DeferredList(ds)\n        return dl\n", None),
    # ---- C12.13 a surprise is reported
    M("surprised-push-gives-up-silently", PUB,
      "        if num_shnums < self.required_shares or self.surprised:\n            return self._failure()\n",
      "        if num_shnums < self.required_shares:\n            return self._failure()\n"
      "        if self.surprised:\n            self.log(\"uncoordinated write detected, giving up\")\n            return\n", "C12.13"),
    M("benign-push-tests-split", PUB,
      "        if num_shnums < self.required_shares or self.surprised:\n            return self._failure()\n",
      "        if self.surprised:\n            return self._failure()\n"
      "        if num_shnums < self.required_shares:\n            return self._failure()\n", None),
    # ---- C12.14 the publish result travels back through modify()
    M("modify-once-drops-deferred", FN, "        d.addCallback(_apply)\n        return d\n", "        d.addCallback(_apply)\n", "C12.14"),
    M("apply-does-not-return-upload", FN,
      "            return self._upload(new_contents)\n        d.addCallback(_apply)",
      "            self._upload(new_contents)\n        d.addCallback(_apply)", "C12.14"),
    M("retry-result-dropped", FN,
      "                                                  backoffer, False))\n            return d2\n",
      "                                                  backoffer, False))\n", "C12.14"),
    M("retry-callback-drops-next-attempt", FN,
      "            d2.addCallback(lambda ignored:\n                           self._modify_and_retry(modifier,\n"
      "                                                  backoffer, False))\n",
      "            def _again(ignored):\n                self._modify_and_retry(modifier, backoffer, False)\n"
      "            d2.addCallback(_again)\n", "C12.14"),
    M("benign-modify-once-returns-chain", FN,
      "        d.addCallback(_apply)\n        return d\n", "        return d.addCallback(_apply)\n", None),
    # ---- C12.15 no zero-length test vector
    M("mdmf-empty-checkstring-test-inverted", LAY,
      "        if checkstring == b\"\":\n            # We special-case this",
      "        if checkstring != b\"\":\n            # We special-case this", "C12.15"),
    M("mdmf-empty-checkstring-special-case-dropped", LAY,
      "        if checkstring == b\"\":\n            # We special-case this",
      "        if checkstring is None:\n            # We special-case this", "C12.15"),
    M("sdmf-empty-checkstring-special-case-reverted", LAY,
      "        if checkstring == b\"\":\n            # An empty checkstring means \"the share must still be empty\".\n",
      "        if checkstring is None:\n            # An empty checkstring means \"the share must still be empty\".\n", "C12.15",
      note="the state before the repair c2a4145: set_checkstring(b'') stored (0, 0, b''), which any share contents satisfy"),
    M("benign-mdmf-empty-checkstring-by-length", LAY,
      "        if checkstring == b\"\":\n            # We special-case this",
      "        if len(checkstring) == 0:\n            # We special-case this", None),
    M("benign-sdmf-empty-checkstring-by-truth", LAY,
      "        if checkstring == b\"\":\n            # An empty checkstring means \"the share must still be empty\".\n",
      "        if not checkstring:\n            # An empty checkstring means \"the share must still be empty\".\n", None),
    # ---- C12.16 the protocol adapters forward the test vectors as the writer gave them
    M("http-adapter-size-from-specimen", SC,
      "                TestVector(offset=offset, size=size, specimen=specimen)\n"
      "                for (offset, size, specimen) in test_vector\n",
      "                TestVector(offset=offset, size=len(specimen), specimen=specimen)\n"
      "                for (offset, _, specimen) in test_vector\n", "C12.16",
      note="seeded C12-D: (0, 1, b'') reaches the server as (0, 0, b''), which any share satisfies"),
    M("foolscap-adapter-length-from-data", SC,
      "                [(start, length, b\"eq\", data) for (start, length, data) in value[0]],\n",
      "                [(start, len(data), b\"eq\", data) for (start, length, data) in value[0]],\n", "C12.16"),
    M("http-adapter-skips-empty-specimens", SC,
      "                for (offset, size, specimen) in test_vector\n            ]\n",
      "                for (offset, size, specimen) in test_vector\n                if specimen\n            ]\n", "C12.16",
      note="the 'must not exist' vector is exactly the one with an empty specimen"),
    M("http-adapter-tests-only-shares-it-writes", SC,
      "                test_vectors=client_test_vectors,\n",
      "                test_vectors=client_test_vectors if new_length is None else [],\n", "C12.16"),
    M("foolscap-adapter-first-vector-only", SC,
      "for (start, length, data) in value[0]],\n", "for (start, length, data) in value[0][:1]],\n", "C12.16"),
    M("benign-http-adapter-explicit-loop", SC,
      "            client_test_vectors = [\n"
      "                TestVector(offset=offset, size=size, specimen=specimen)\n"
      "                for (offset, size, specimen) in test_vector\n            ]\n",
      "            client_test_vectors = []\n            for tv in test_vector:\n"
      "                client_test_vectors.append(TestVector(tv[0], tv[1], specimen=tv[2]))\n", None),
    M("benign-foolscap-adapter-loop-over-keys", SC,
      "            key: (\n                [(start, length, b\"eq\", data) for (start, length, data) in value[0]],\n"
      "                value[1],\n                value[2],\n            ) for (key, value) in tw_vectors.items()\n",
      "            shnum: (\n                [(tv[0], tv[1], b\"eq\", tv[2]) for tv in tw_vectors[shnum][0]],\n"
      "                tw_vectors[shnum][1],\n                tw_vectors[shnum][2],\n            ) for shnum in tw_vectors\n", None),
    M("benign-http-adapter-vectors-by-statement-loop", SC,
      "        for share_num, (test_vector, data_vector, new_length) in tw_vectors.items():\n",
      "        for share_num, per_share in sorted(tw_vectors.items()):\n"
      "            test_vector, data_vector, new_length = per_share\n", None),
    M("benign-http-adapter-conversion-in-helper", SC,
      "            client_test_vectors = [\n"
      "                TestVector(offset=offset, size=size, specimen=specimen)\n"
      "                for (offset, size, specimen) in test_vector\n            ]\n",
      "            client_test_vectors = _client_test_vectors(test_vector)\n", None,
      edits=[(SC, "# WORK IN PROGRESS, for now it doesn't actually implement whole thing.\n",
              "def _client_test_vectors(test_vector):\n    result = []\n    for (offset, size, specimen) in test_vector:\n"
              "        result.append(TestVector(offset=offset, size=size, specimen=specimen))\n    return result\n\n\n"
              "# WORK IN PROGRESS, for now it doesn't actually implement whole thing.\n")]),
    M("http-adapter-helper-drops-must-not-exist-vector", SC,
      "            client_test_vectors = [\n"
      "                TestVector(offset=offset, size=size, specimen=specimen)\n"
      "                for (offset, size, specimen) in test_vector\n            ]\n",
      "            client_test_vectors = _client_test_vectors(test_vector)\n", "C12.16",
      edits=[(SC, "# WORK IN PROGRESS, for now it doesn't actually implement whole thing.\n",
              "def _client_test_vectors(test_vector):\n    result = []\n    for (offset, size, specimen) in test_vector:\n"
              "        if not specimen:\n            continue\n"
              "        result.append(TestVector(offset=offset, size=size, specimen=specimen))\n    return result\n\n\n"
              "# WORK IN PROGRESS, for now it doesn't actually implement whole thing.\n")]),
    # ---- C12.17 the wire between the adapter and the storage server
    M("http-handler-size-from-specimen", HS,
      "                            (d[\"offset\"], d[\"size\"], b\"eq\", d[\"specimen\"])\n",
      "                            (d[\"offset\"], len(d[\"specimen\"]), b\"eq\", d[\"specimen\"])\n", "C12.17"),
    M("http-handler-skips-empty-specimens", HS,
      "                            for d in v[\"test\"]\n", "                            for d in v[\"test\"] if d[\"specimen\"]\n", "C12.17"),
    M("http-client-sends-own-vectors-of-first-share", HC,
      "                share_number: twv.asdict()\n",
      "                share_number: TestWriteVectors(write_vectors=twv.write_vectors, new_length=twv.new_length).asdict()\n",
      "C12.17"),
    M("foolscap-server-object-drops-test-vectors", SRV,
      "        return self._server.slot_testv_and_readv_and_writev(\n            storage_index,\n            secrets,\n"
      "            test_and_write_vectors,\n",
      "        return self._server.slot_testv_and_readv_and_writev(\n            storage_index,\n            secrets,\n"
      "            {k: ([tv for tv in v[0] if tv[3]], v[1], v[2]) for (k, v) in test_and_write_vectors.items()},\n", "C12.17"),
    M("benign-http-handler-vectors-by-statement-loop", HS,
      "        try:\n            success, read_data = self._storage_server.slot_testv_and_readv_and_writev(\n"
      "                storage_index,\n                secrets,\n                {\n                    k: (\n"
      "                        [\n                            (d[\"offset\"], d[\"size\"], b\"eq\", d[\"specimen\"])\n"
      "                            for d in v[\"test\"]\n                        ],\n"
      "                        [(d[\"offset\"], d[\"data\"]) for d in v[\"write\"]],\n"
      "                        v[\"new-length\"],\n                    )\n"
      "                    for (k, v) in rtw_request[\"test-write-vectors\"].items()\n                },\n",
      "        vectors = {}\n        for (shnum, per_share) in rtw_request[\"test-write-vectors\"].items():\n"
      "            tests = [(tv[\"offset\"], tv[\"size\"], b\"eq\", tv[\"specimen\"]) for tv in per_share[\"test\"]]\n"
      "            vectors[shnum] = (tests, [(d[\"offset\"], d[\"data\"]) for d in per_share[\"write\"]], per_share[\"new-length\"])\n"
      "        try:\n            success, read_data = self._storage_server.slot_testv_and_readv_and_writev(\n"
      "                storage_index,\n                secrets,\n                vectors,\n", None),
    # ---- C12.18 what the server compares
    M("server-testv-reads-specimen-length", MUT,
      "                data = self._read_share_data(f, offset, length)\n",
      "                data = self._read_share_data(f, offset, len(specimen))\n", "C12.18",
      note="the C12-D slip made at the server: a (0, 1, b'') vector reads nothing and compares b'' == b''"),
    M("server-testv-failure-forgotten", MUT,
      "                    test_good = False\n                    break\n", "                    break\n", "C12.18"),
    M("server-testv-compare-prefix-only", MUT, "    return a == b\n", "    return a.startswith(b)\n", "C12.18",
      note="every share starts with b''"),
    M("server-absent-share-compared-with-specimen", MUT,
      "            data = b\"\"\n            if not testv_compare(data, operator, specimen):\n",
      "            data = specimen[:length]\n            if not testv_compare(data, operator, specimen):\n", "C12.18"),
    M("benign-check-testv-continue-after-failure", MUT,
      "                    test_good = False\n                    break\n",
      "                    test_good = False\n                    continue\n", None),
    M("benign-empty-share-direct-returns", MUT,
      "        test_good = True\n        for (offset, length, operator, specimen) in testv:\n            data = b\"\"\n"
      "            if not testv_compare(data, operator, specimen):\n                test_good = False\n"
      "                break\n        return test_good\n",
      "        for tv in testv:\n            if not testv_compare(b\"\", tv[2], tv[3]):\n                return False\n"
      "        return True\n", None),
    # ---- vanished anchor
    M("vanish-got-write-answer", PUB,
      "    def _got_write_answer(self, answer, writer, started):", "    def _got_write_answerX(self, answer, writer, started):",
      "ANALYSIS-ERROR"),
]

# ---- "refactor with a slip" C12-I: the test-and-write vector assembly of both write proxies extracted into the
# module-level helpers checkstring_to_testvs() / make_tw_vectors(shnum, datavs, testvs=None)
_TWH_HELPERS = """NEW_SHARE_TESTV = %(mne)s

def checkstring_to_testvs(checkstring):
%(cs_body)s

def make_tw_vectors(shnum, datavs, testvs=None):
    if %(fallback_test)s:
        testvs = [NEW_SHARE_TESTV]
    return {shnum: (testvs, datavs, None)}

def pack_offsets(verification_key_length, signature_length,
"""
_TWH_CS_BODY = '    if checkstring == b"":\n        return []\n    return [(0, len(checkstring), checkstring)]'
_TWH_SDMF_SET_OLD = """        if checkstring == b"":
            # An empty checkstring means "the share must still be empty".
            # A zero-length test vector would match any contents; leave
            # _testvs empty so finish_publishing uses (0, 1, b"") instead,
            # as MDMFSlotWriteProxy.set_checkstring does.
            self._testvs = []
        else:
            self._testvs = [(0, len(checkstring), checkstring)]
"""
_TWH_SDMF_FIN_OLD = """        if not self._testvs:
            # Our caller has not provided us with another checkstring
            # yet, so we assume that we are writing a new share, and set
            # a test vector that will only allow a new share to be written.
            self._testvs = []
            self._testvs.append(tuple([0, 1, b""]))

        tw_vectors = {}
        tw_vectors[self.shnum] = (self._testvs, datavs, None)
"""
_TWH_MDMF_SET_OLD = """        if checkstring == b"":
            # We special-case this, since len("") = 0, but we need
            # length of 1 for the case of an empty share to work on the
            # storage server, which is what a checkstring that is the
            # empty string means.
            self._testvs = []
        else:
            self._testvs = []
            self._testvs.append((0, len(checkstring), checkstring))
"""
_TWH_MDMF_W1_OLD = """        tw_vectors = {}
        if not self._testvs:
            # Make sure we will only successfully write if the share didn't
            # previously exist.
            self._testvs = []
            self._testvs.append(tuple([0, 1, b""]))
        if not self._written:
"""
_TWH_MDMF_W2_OLD = """            on_success = _first_write
        tw_vectors[self.shnum] = (self._testvs, datavs, None)
"""


def tw_helper_refactor(mid, expect, fallback_test="not testvs", mne='(0, 1, b"")', cs_body=_TWH_CS_BODY,
                       call="make_tw_vectors(self.shnum, datavs, self._testvs)"):
    """The C12-I refactor of mutable/layout.py on the current source; the keyword arguments vary the one detail."""
    helpers = _TWH_HELPERS % {"mne": mne, "cs_body": cs_body, "fallback_test": fallback_test}
    return M(mid, LAY, "def pack_offsets(verification_key_length, signature_length,\n", helpers, expect, edits=[
        (LAY, _TWH_SDMF_SET_OLD, "        self._testvs = checkstring_to_testvs(checkstring)\n"),
        (LAY, _TWH_SDMF_FIN_OLD, "        tw_vectors = %s\n" % call),
        (LAY, _TWH_MDMF_SET_OLD, "        self._testvs = checkstring_to_testvs(checkstring)\n"),
        (LAY, _TWH_MDMF_W1_OLD, "        if not self._written:\n"),
        (LAY, _TWH_MDMF_W2_OLD, "            on_success = _first_write\n        tw_vectors = %s\n" % call),
    ])


MUTANTS += [
    tw_helper_refactor("benign-refactor-tw-vector-helpers-faithful", None),
    tw_helper_refactor("benign-refactor-tw-vector-helpers-keyword-call", None,
                       call="make_tw_vectors(testvs=self._testvs, shnum=self.shnum, datavs=datavs)"),
    tw_helper_refactor("refactor-tw-vector-helpers-fallback-only-for-none", "C12.1", fallback_test="testvs is None"),
    tw_helper_refactor("refactor-tw-vector-helpers-fallback-zero-length", "C12.1", mne='(0, 0, b"")'),
    tw_helper_refactor("refactor-tw-vector-helpers-default-testvs", "C12.1",
                       call="make_tw_vectors(self.shnum, datavs)"),
    tw_helper_refactor("refactor-tw-vector-helpers-wrong-share", "C12.1",
                       call="make_tw_vectors(0, datavs, self._testvs)"),
    tw_helper_refactor("refactor-tw-vector-helpers-empty-checkstring-vector", "C12.15",
                       cs_body="    return [(0, len(checkstring), checkstring)]"),
    tw_helper_refactor("refactor-tw-vector-helpers-checkstring-prefix-only", "C12.2",
                       cs_body='    if checkstring == b"":\n        return []\n    return [(0, 1, checkstring[:1])]'),
]

# ---- "refactor with a slip" C47-I: the surprise-share scan (any(..) form) and the testv-failure logging of
# Publish._got_write_answer extracted into the methods _check_for_surprise_shares / _log_testv_failure
_SSH_SCAN_OLD = '        surprise_shares = set(read_data.keys()) - set([writer.shnum])\n\n        # We need to remove from surprise_shares any shares that we are\n        # knowingly also writing to that server from other writers.\n\n        # TODO: Precompute this.\n        shares = []\n        for shnum, writers in self.writers.items():\n            shares.extend([x.shnum for x in writers if x.server == server])\n        known_shnums = set(shares)\n        surprise_shares -= known_shnums\n        self.log("found the following surprise shares: %s" %\n                 str(surprise_shares))\n\n        # Now surprise shares contains all of the shares that we did not\n        # expect to be there.\n\n        surprised = False\n        for shnum in surprise_shares:\n            # read_data is a dict mapping shnum to checkstring (SIGNED_PREFIX)\n            checkstring = read_data[shnum][0]\n            # What we want to do here is to see if their (seqnum,\n            # roothash, salt) is the same as our (seqnum, roothash,\n            # salt), or the equivalent for MDMF. The best way to do this\n            # is to store a packed representation of our checkstring\n            # somewhere, then not bother unpacking the other\n            # checkstring.\n            if checkstring == self._checkstring:\n                # they have the right share, somehow\n\n                if (server,shnum) in self.goal:\n                    # and we want them to have it, so we probably sent them a\n                    # copy in an earlier write. This is ok, and avoids the\n                    # #546 problem.\n                    continue\n\n                # They aren\'t in our goal, but they are still for the right\n                # version. Somebody else wrote them, and it\'s a convergent\n                # uncoordinated write. Pretend this is ok (don\'t be\n                # surprised), since I suspect there\'s a decent chance that\n                # we\'ll hit this in normal operation.\n                continue\n\n            else:\n                # the new shares are of a different version\n                if server in self._servermap.get_reachable_servers():\n                    # we asked them about their shares, so we had knowledge\n                    # of what they used to have. Any surprising shares must\n                    # have come from someone else, so UCW.\n                    surprised = True\n                else:\n                    # we didn\'t ask them, and now we\'ve discovered that they\n                    # have a share we didn\'t know about. This indicates that\n                    # mapupdate should have wokred harder and asked more\n                    # servers before concluding that it knew about them all.\n\n                    # signal UCW, but make sure to ask this server next time,\n                    # so we\'ll remember to update it if/when we retry.\n                    surprised = True\n                    # TODO: ask this server next time. I don\'t yet have a good\n                    # way to do this. Two insufficient possibilities are:\n                    #\n                    # self._servermap.add_new_share(server, shnum, verinfo, now)\n                    #  but that requires fetching/validating/parsing the whole\n                    #  version string, and all we have is the checkstring\n                    # self._servermap.mark_bad_share(server, shnum, checkstring)\n                    #  that will make publish overwrite the share next time,\n                    #  but it won\'t re-query the server, and it won\'t make\n                    #  mapupdate search further\n\n                    # TODO later: when publish starts, do\n                    # servermap.get_best_version(), extract the seqnum,\n                    # subtract one, and store as highest-replaceable-seqnum.\n                    # Then, if this surprise-because-we-didn\'t-ask share is\n                    # of highest-replaceable-seqnum or lower, we\'re allowed\n                    # to replace it: send out a new writev (or rather add it\n                    # to self.goal and loop).\n\n                surprised = True\n\n        if surprised:\n            self.log("they had shares %s that we didn\'t know about" %\n                     (list(surprise_shares),),\n                     parent=lp, level=log.WEIRD, umid="un9CSQ")\n            self.surprised = True\n\n'
_SSH_LOG_OLD = '            # use the checkstring to add information to the log message\n            unknown_format = False\n            for (shnum,readv) in list(read_data.items()):\n                checkstring = readv[0]\n                version = get_version_from_checkstring(checkstring)\n                if version == MDMF_VERSION:\n                    (other_seqnum,\n                     other_roothash) = unpack_mdmf_checkstring(checkstring)\n                elif version == SDMF_VERSION:\n                    (other_seqnum,\n                     other_roothash,\n                     other_IV) = unpack_sdmf_checkstring(checkstring)\n                else:\n                    unknown_format = True\n                expected_version = self._servermap.version_on_server(server,\n                                                                     shnum)\n                if expected_version:\n                    (seqnum, root_hash, IV, segsize, datalength, k, N, prefix,\n                     offsets_tuple) = expected_version\n                    msg = ("somebody modified the share on us:"\n                           " shnum=%d: I thought they had #%d:R=%r," %\n                           (shnum,\n                            seqnum, base32.b2a(root_hash)[:4]))\n                    if unknown_format:\n                        msg += (" but I don\'t know how to read share"\n                                " format %d" % version)\n                    else:\n                        msg += " but testv reported #%d:R=%r" % \\\n                               (other_seqnum, base32.b2a(other_roothash)[:4])\n                    self.log(msg, parent=lp, level=log.NOISY)\n                # if expected_version==None, then we didn\'t expect to see a\n                # share on that server, and the \'surprise_shares\' clause\n                # above will have logged it.\n'
_SSH_HELPERS_PRE = '    def _check_for_surprise_shares(self, writer, read_data, lp):\n        """\n        Look at the shares that a server reported back alongside the answer\n        to one of our writes. Return True if the server holds a share, of a\n        version other than the one we are publishing, that we did not expect\n        it to hold.\n        """\n        server = writer.server\n        surprise_shares = set(read_data.keys()) - set([writer.shnum])\n\n\n        known_shnums = set(x.shnum\n                           for writers in self.writers.values()\n                           for x in writers\n                           if x.server == server)\n        surprise_shares -= known_shnums\n        self.log("found the following surprise shares: %s" %\n                 str(surprise_shares))\n\n'
_SSH_ANY = '        surprised = any(read_data[shnum][0] != self._checkstring\n                        for shnum in surprise_shares)\n'
_SSH_HELPERS_POST = '        if surprised:\n            self.log("they had shares %s that we didn\'t know about" %\n                     (list(surprise_shares),),\n                     parent=lp, level=log.WEIRD, umid="un9CSQ")\n        return surprised\n\n\n    def _log_testv_failure(self, server, read_data, lp):\n        """\n        One of our writes was refused. Use the checkstrings that the server\n        sent back to add information to the log.\n        """\n        unknown_format = False\n        for (shnum,readv) in list(read_data.items()):\n            checkstring = readv[0]\n            version = get_version_from_checkstring(checkstring)\n            if version == MDMF_VERSION:\n                (other_seqnum,\n                 other_roothash) = unpack_mdmf_checkstring(checkstring)\n            elif version == SDMF_VERSION:\n                (other_seqnum,\n                 other_roothash,\n                 other_IV) = unpack_sdmf_checkstring(checkstring)\n            else:\n                unknown_format = True\n            expected_version = self._servermap.version_on_server(server,\n                                                                 shnum)\n            if not expected_version:\n                continue\n            (seqnum, root_hash, IV, segsize, datalength, k, N, prefix,\n             offsets_tuple) = expected_version\n            msg = ("somebody modified the share on us:"\n                   " shnum=%d: I thought they had #%d:R=%r," %\n                   (shnum,\n                    seqnum, base32.b2a(root_hash)[:4]))\n            if unknown_format:\n                msg += (" but I don\'t know how to read share"\n                        " format %d" % version)\n            else:\n                msg += " but testv reported #%d:R=%r" % \\\n                       (other_seqnum, base32.b2a(other_roothash)[:4])\n            self.log(msg, parent=lp, level=log.NOISY)\n\n\n'
_SSH_FAITHFUL_CALL = ("        if self._check_for_surprise_shares(writer, read_data, lp):\n"
                      "            self.surprised = True\n\n")


def surprise_helper_refactor(mid, expect, call=_SSH_FAITHFUL_CALL, scan=_SSH_ANY, post=_SSH_HELPERS_POST):
    """The C47-I refactor of mutable/publish.py on the current source; the keyword arguments vary the one detail."""
    return M(mid, PUB, _SSH_SCAN_OLD, call, expect, edits=[
        (PUB, _SSH_LOG_OLD, "            self._log_testv_failure(server, read_data, lp)\n"),
        (PUB, "    def _done(self):\n", _SSH_HELPERS_PRE + scan + post + "    def _done(self):\n"),
    ])


MUTANTS += [
    surprise_helper_refactor("benign-refactor-surprise-scan-helper-faithful", None),
    surprise_helper_refactor("benign-refactor-surprise-scan-helper-result-in-local", None,
                             call="        unexpected = self._check_for_surprise_shares(writer, read_data, lp)\n"
                                  "        if unexpected:\n            self.surprised = True\n\n"),
    # the slip of C47-I: the flag is assigned, so a later clean answer forgets an earlier surprise
    surprise_helper_refactor("refactor-surprise-scan-helper-flag-assigned", "C12.4",
                             call="        self.surprised = self._check_for_surprise_shares(writer, read_data, lp)\n\n"),
    # the helper's verdict is only logged, never recorded
    surprise_helper_refactor("refactor-surprise-scan-helper-result-dropped", "C12.4",
                             call="        self._check_for_surprise_shares(writer, read_data, lp)\n\n"),
    # the helper sees the mismatch but reports False
    surprise_helper_refactor("refactor-surprise-scan-helper-returns-false", "C12.4",
                             post=_SSH_HELPERS_POST.replace("        return surprised\n", "        return False\n", 1)),
    # other writers' share numbers are withheld from the scan whichever server they are for
    surprise_helper_refactor("refactor-surprise-scan-helper-known-shares-of-any-server", "C12.11",
                             scan=_SSH_ANY.replace("surprise_shares)", "surprise_shares - set(self.writers))", 1)),
    # only the first byte of the checkstring is compared
    surprise_helper_refactor("refactor-surprise-scan-helper-compares-other-server-data", "C12.11",
                             scan=_SSH_ANY.replace("read_data[shnum][0]", "read_data[writer.shnum][0]", 1)),
    # the scan no longer looks at the checkstrings at all
    surprise_helper_refactor("refactor-surprise-scan-helper-any-surprise-share-ignored", "C12.4",
                             scan="        surprised = False\n"),
]
