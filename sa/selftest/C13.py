from .runner import M

FN = "src/allmydata/mutable/filenode.py"
NM = "src/allmydata/nodemaker.py"
DN = "src/allmydata/dirnode.py"
REP = "src/allmydata/mutable/repairer.py"

# MutableFileNode._do_serialized and MutableFileVersion._do_serialized are textually identical; the node's copy is
# singled out by the method that precedes / follows it.
_HEAD = (
    "    def _do_serialized(self, cb, *args, **kwargs):\n"
    "        # note: to avoid deadlock, this callable is *not* allowed to invoke\n"
    "        # other serialized methods within this (or any other)\n"
    "        # MutableFileNode. The callable should be a bound method of this same\n"
    "        # MFN instance.\n"
    "        d = defer.Deferred()\n")
_QUEUE = "        self._serializer.addCallback(lambda ignore: cb(*args, **kwargs))\n"
_MFN_PRE = "    def get_version(self):\n        return self._protocol_version\n\n\n"
_FIRE = "        self._serializer.addBoth(lambda res: eventually(d.callback, res))\n"
_TAIL = (
    "        # add a log.err just in case something really weird happens, because\n"
    "        # self._serializer stays around forever, therefore we won't see the\n"
    "        # usual Unhandled Error in Deferred that would give us a hint.\n"
    "        self._serializer.addErrback(log.err)\n"
    "        return d\n")
_MFN_POST = "\n\n    def _upload(self, new_contents, servermap):\n"
_MFV_POST = "\n\n    def _upload(self, new_contents):\n"

_RETRY_OLD = (
    "        def _retry(f):\n"
    "            f.trap(UncoordinatedWriteError)\n"
    "            # Uh oh, it broke. We're allowed to trust the servermap for our\n"
    "            # first try, but after that we need to update it. It's\n"
    "            # possible that we've failed due to a race with another\n"
    "            # uploader, and if the race is to converge correctly, we\n"
    "            # need to know about that upload.\n"
    "            d2 = defer.maybeDeferred(backoffer, self, f)\n"
    "            d2.addCallback(lambda ignored:\n"
    "                           self._modify_and_retry(modifier,\n"
    "                                                  backoffer, False))\n"
    "            return d2\n"
    "        d.addErrback(_retry)\n"
    "        return d\n")
_DL_RETRY_OLD = (
    "        def _maybe_retry(failure):\n"
    "            failure.trap(NotEnoughSharesError)\n\n"
    "            d = self.get_best_mutable_version()\n"
    "            d.addCallback(self._record_size)\n"
    "            d.addCallback(lambda version: version.download_to_data())\n"
    "            return d\n\n"
    "        d.addErrback(_maybe_retry)\n"
    "        return d\n")
_CREATED_OLD = (
    "        def _created(child):\n"
    "            entries = {name: (child, metadata)}\n"
    "            a = Adder(self, entries, overwrite=overwrite,\n"
    "                      create_readonly_node=self._create_readonly_node)\n"
    "            d = self._node.modify(a.modify)\n"
    "            d.addCallback(lambda res: child)\n"
    "            return d\n"
    "        d.addCallback(_created)\n"
    "        return d\n")
_DN_READ_OLD = (
    "        if self._node.is_mutable():\n"
    "            # use the IMutableFileNode API.\n"
    "            d = self._node.download_best_version()\n"
    "        else:\n"
    "            d = download_to_data(self._node)\n"
    "        d.addCallback(self._unpack_contents)\n")

# ---- move_child_to re-written as an inlineCallbacks generator (the refactor seeded as C20-I, done faithfully):
# `yield d` / `x = yield d` is the sequencing form of returning / chaining d
_MOVE_ANCHOR = "    def move_child_to(self, current_child_namex, new_parent,\n"
_MOVE_BODY_OLD = """        if self.is_readonly() or new_parent.is_readonly():
            return defer.fail(NotWriteableError())

        current_child_name = normalize(current_child_namex)
        if new_child_namex is None:
            new_child_name = current_child_name
        else:
            new_child_name = normalize(new_child_namex)

        from_uri = self.get_write_uri()
        if new_parent.get_write_uri() == from_uri and new_child_name == current_child_name:
            # needed for correctness, otherwise we would delete the child
            return defer.succeed("redundant rename/relink")

        d = self.get_child_and_metadata(current_child_name)
        def _got_child(child_and_metadata):
            (child, metadata) = child_and_metadata
            return new_parent.set_node(new_child_name, child, metadata,
                                       overwrite=overwrite)
        d.addCallback(_got_child)
        d.addCallback(lambda child: self.delete(current_child_name))
        return d
"""
_IMOVE_STEPS = ("        (child, metadata) = yield self.get_child_and_metadata(current_child_namex)\n"
                "        yield new_parent.set_node(new_child_namex, child, metadata,\n"
                "                                  overwrite=overwrite)\n"
                "        old_child = yield self.delete(current_child_namex)\n"
                "        return old_child\n")


def IM(mid, expect, steps=_IMOVE_STEPS, decorator="    @defer.inlineCallbacks\n"):
    body = ("        if self.is_readonly() or new_parent.is_readonly():\n"
            "            raise NotWriteableError()\n\n"
            "        if new_child_namex is None:\n"
            "            new_child_namex = current_child_namex\n\n"
            "        if (new_parent.get_write_uri() == self.get_write_uri()\n"
            "            and normalize(new_child_namex) == normalize(current_child_namex)):\n"
            "            # needed for correctness, otherwise we would delete the child\n"
            "            return \"redundant rename/relink\"\n\n" + steps)
    return M(mid, DN, _MOVE_BODY_OLD, body, expect, edits=[(DN, _MOVE_ANCHOR, decorator + _MOVE_ANCHOR)])


# ---- NodeMaker._create_from_single_cap's isinstance chain replaced by a module-level (factory name, cap classes) table
# and getattr(self, name) (the refactor seeded as C19-I, done faithfully)
_NM_IMPORT = "from allmydata import uri\n\n\n@implementer(INodeMaker)\n"
_NM_CHAIN = ("    def _create_from_single_cap(self, cap):\n"
             "        if isinstance(cap, uri.LiteralFileURI):\n"
             "            return self._create_lit(cap)\n"
             "        if isinstance(cap, uri.CHKFileURI):\n"
             "            return self._create_immutable(cap)\n"
             "        if isinstance(cap, uri.CHKFileVerifierURI):\n"
             "            return self._create_immutable_verifier(cap)\n"
             "        if isinstance(cap, (uri.ReadonlySSKFileURI, uri.WriteableSSKFileURI,\n"
             "                            uri.WriteableMDMFFileURI, uri.ReadonlyMDMFFileURI)):\n"
             "            return self._create_mutable(cap)\n"
             "        if isinstance(cap, (uri.DirectoryURI,\n"
             "                            uri.ReadonlyDirectoryURI,\n"
             "                            uri.ImmutableDirectoryURI,\n"
             "                            uri.LiteralDirectoryURI,\n"
             "                            uri.MDMFDirectoryURI,\n"
             "                            uri.ReadonlyMDMFDirectoryURI)):\n"
             "            filenode = self._create_from_single_cap(cap.get_filenode_cap())\n"
             "            return self._create_dirnode(filenode)\n"
             "        return None\n")
_NM_DIRNODE = ("    def _create_dirnode(self, filenode):\n"
               "        return DirectoryNode(filenode, self, self.uploader)\n")
_NM_DIRNODE_FROM_CAP = (_NM_DIRNODE +
                        "    def _create_dirnode_from_cap(self, cap):\n"
                        "        filenode = self._create_from_single_cap(cap.get_filenode_cap())\n"
                        "        return self._create_dirnode(filenode)\n")
_NM_LOOP_BODY = ("        for (factory_name, cap_classes) in _NODE_FACTORIES:\n"
                 "            if isinstance(cap, cap_classes):\n"
                 "                return getattr(self, factory_name)(cap)\n"
                 "        return None\n")
_NM_LOOP = "    def _create_from_single_cap(self, cap):\n" + _NM_LOOP_BODY
_NM_TABLE = ("from allmydata import uri\n\n\n"
             "_NODE_FACTORIES = [\n"
             "    (\"_create_lit\", (uri.LiteralFileURI,)),\n"
             "    (\"_create_immutable\", (uri.CHKFileURI,)),\n"
             "    (\"_create_immutable_verifier\", (uri.CHKFileVerifierURI,)),\n"
             "    (\"_create_mutable\", (uri.WriteableSSKFileURI,\n"
             "                         uri.ReadonlySSKFileURI,\n"
             "                         uri.WriteableMDMFFileURI,\n"
             "                         uri.ReadonlyMDMFFileURI)),\n"
             "    (\"_create_dirnode_from_cap\", (uri.DirectoryURI,\n"
             "                                  uri.ReadonlyDirectoryURI,\n"
             "                                  uri.ImmutableDirectoryURI,\n"
             "                                  uri.LiteralDirectoryURI,\n"
             "                                  uri.MDMFDirectoryURI,\n"
             "                                  uri.ReadonlyMDMFDirectoryURI)),\n"
             "]\n\n\n@implementer(INodeMaker)\n")


def TBL(mid, expect, loop=_NM_LOOP, dirnode=_NM_DIRNODE_FROM_CAP, table=_NM_TABLE):
    return M(mid, NM, _NM_IMPORT, table, expect, edits=[(NM, _NM_DIRNODE, dirnode), (NM, _NM_CHAIN, loop)])


# ---- NodeMaker.create_from_cap split into helpers (_memokey, _create_uncached, _check_blacklist; dict.get for the
# lookup) - the refactor seeded as C18-I, done faithfully.  The memo rules do not follow create_from_cap through
# helpers on self: this shape is an analysis error (fail closed), never a violation.
_CFC_OLD = (
    '    def create_from_cap(self, writecap, readcap=None, deep_immutable=False, name=u"<unknown name>"):\n'
    '        # this returns synchronously. It starts with a "cap string".\n'
    '        assert isinstance(writecap, (bytes, type(None))), type(writecap)\n'
    '        assert isinstance(readcap,  (bytes, type(None))), type(readcap)\n'
    '\n'
    '        bigcap = writecap or readcap\n'
    '        if not bigcap:\n'
    "            # maybe the writecap was hidden because we're in a readonly\n"
    "            # directory, and the future cap format doesn't have a readcap, or\n"
    '            # something.\n'
    '            return UnknownNode(None, None)  # deep_immutable and name not needed\n'
    '\n'
    "        # The name doesn't matter for caching since it's only used in the error\n"
    "        # attribute of an UnknownNode, and we don't cache those.\n"
    '        if deep_immutable:\n'
    '            memokey = b"I" + bigcap\n'
    '        else:\n'
    '            memokey = b"M" + bigcap\n'
    '        try:\n'
    '            node = self._node_cache[memokey]\n'
    '        except KeyError:\n'
    '            cap = uri.from_string(bigcap, deep_immutable=deep_immutable,\n'
    '                                  name=name)\n'
    '            node = self._create_from_single_cap(cap)\n'
    '\n'
    '            # node is None for an unknown URI, otherwise it is a type for which\n'
    '            # is_mutable() is known. We avoid cacheing mutable nodes due to\n'
    '            # ticket #1679.\n'
    '            if node is None:\n'
    "                # don't cache UnknownNode\n"
    '                node = UnknownNode(writecap, readcap,\n'
    '                                   deep_immutable=deep_immutable, name=name)\n'
    '            elif node.is_mutable():\n'
    '                self._node_cache[memokey] = node  # note: WeakValueDictionary\n'
    '\n'
    '        if self.blacklist:\n'
    '            si = node.get_storage_index()\n'
    '            # if this node is blacklisted, return the reason, otherwise return None\n'
    '            reason = self.blacklist.check_storageindex(si)\n'
    '            if reason is not None:\n'
    '                # The original node object is cached above, not the ProhibitedNode wrapper.\n'
    '                # This ensures that removing the blacklist entry will make the node\n'
    '                # accessible if create_from_cap is called again.\n'
    '                node = ProhibitedNode(node, reason)\n'
    '        return node\n'
    '\n'
)
_CFC_SPLIT = (
    '    @staticmethod\n'
    '    def _memokey(writecap, readcap, deep_immutable):\n'
    '        prefix = b"I" if deep_immutable else b"M"\n'
    '        return prefix + (writecap or readcap)\n'
    '\n'
    '    def _create_uncached(self, writecap, readcap, deep_immutable, name):\n'
    '        cap = uri.from_string(writecap or readcap, deep_immutable=deep_immutable,\n'
    '                              name=name)\n'
    '        node = self._create_from_single_cap(cap)\n'
    '        if node is None:\n'
    '            return UnknownNode(writecap, readcap,\n'
    '                               deep_immutable=deep_immutable, name=name)\n'
    '        return node\n'
    '\n'
    '    def _check_blacklist(self, node):\n'
    '        if not self.blacklist:\n'
    '            return node\n'
    '        si = node.get_storage_index()\n'
    '        reason = self.blacklist.check_storageindex(si)\n'
    '        if reason is None:\n'
    '            return node\n'
    '        return ProhibitedNode(node, reason)\n'
    '\n'
    '    def create_from_cap(self, writecap, readcap=None, deep_immutable=False, name=u"<unknown name>"):\n'
    '        assert isinstance(writecap, (bytes, type(None))), type(writecap)\n'
    '        assert isinstance(readcap,  (bytes, type(None))), type(readcap)\n'
    '\n'
    '        if not (writecap or readcap):\n'
    '            return UnknownNode(None, None)\n'
    '\n'
    '        memokey = self._memokey(writecap, readcap, deep_immutable)\n'
    '        node = self._node_cache.get(memokey)\n'
    '        if node is None:\n'
    '            node = self._create_uncached(writecap, readcap, deep_immutable, name)\n'
    '            if not isinstance(node, UnknownNode) and node.is_mutable():\n'
    '                self._node_cache[memokey] = node\n'
    '\n'
    '        return self._check_blacklist(node)\n'
    '\n'
)


MUTANTS = [
    # ---- C13.1 public operations enter through the serialiser
    M("modify-bypasses-serializer", FN,
      "        # TODO: Update downloader hints.\n        return self._do_serialized(self._modify, modifier, backoffer)\n",
      "        # TODO: Update downloader hints.\n        return self._modify(modifier, backoffer)\n", "C13.1"),
    M("overwrite-does-its-own-work", FN,
      "        # TODO: Update downloader hints.\n        return self._do_serialized(self._overwrite, new_contents)\n",
      "        d = self.get_best_mutable_version()\n        d.addCallback(lambda mfv: mfv.overwrite(new_contents))\n"
      "        return d\n", "C13.1"),
    M("upload-drops-servermap", FN,
      "        return self._do_serialized(self._upload, new_contents, servermap)\n",
      "        return self._do_serialized(self._upload, new_contents, None)\n", "C13.1"),
    M("download-empty-file-fast-path", FN,
      "        return self._do_serialized(self._download_best_version)\n",
      "        if self._most_recent_size == 0:\n            return defer.succeed(b\"\")\n"
      "        return self._do_serialized(self._download_best_version)\n", "C13.1"),
    M("get-servermap-serializes-wrong-impl", FN,
      "        return self._do_serialized(self._get_servermap, mode)\n",
      "        return self._do_serialized(self._update_servermap, ServerMap(), mode)\n", "C13.1"),
    # ---- C13.2 who may call the _impls
    M("repairer-calls-upload-impl", REP,
      "        d.addCallback(self.node.upload, smap)\n", "        d.addCallback(self.node._upload, smap)\n", "C13.2"),
    M("current-size-downloads-unserialized", FN,
      "        d = self.get_size_of_best_version()\n        d.addCallback(self._stash_size)\n",
      "        d = self._download_best_version()\n        d.addCallback(len)\n        d.addCallback(self._stash_size)\n", "C13.2"),
    M("readonly-twin-writes", FN,
      "        ro.init_from_cap(self._uri.get_readonly())\n        return ro\n",
      "        ro.init_from_cap(self._uri.get_readonly())\n        ro.refresh = lambda: self.get_best_mutable_version()\n"
      "        return ro\n", "C13.2"),
    # ---- C13.3 the serialiser itself
    M("node-serializer-fires-only-on-success", FN,
      _FIRE + _TAIL + _MFN_POST,
      "        self._serializer.addCallback(lambda res: eventually(d.callback, res))\n" + _TAIL + _MFN_POST, "C13.3"),
    M("version-serializer-fires-only-on-success", FN,
      _FIRE + _TAIL + _MFV_POST,
      "        self._serializer.addCallback(lambda res: eventually(d.callback, res))\n" + _TAIL + _MFV_POST, "C13.3"),
    M("node-serializer-does-not-wait", FN,
      _MFN_PRE + _HEAD + _QUEUE,
      _MFN_PRE + _HEAD + "        def _start(ignore):\n            cb(*args, **kwargs)\n"
      "        self._serializer.addCallback(_start)\n", "C13.3"),
    M("node-serializer-keeps-failure", FN,
      _FIRE + _TAIL + _MFN_POST,
      "        def _fire(res):\n            eventually(d.callback, res)\n            return res\n"
      "        self._serializer.addBoth(_fire)\n        return d\n" + _MFN_POST, "C13.3"),
    M("node-operation-on-private-deferred", FN,
      _MFN_PRE + _HEAD + _QUEUE,
      _MFN_PRE + _HEAD + "        d2 = defer.succeed(None)\n        d2.addCallback(lambda ignore: cb(*args, **kwargs))\n"
      "        d2.addBoth(lambda res: eventually(d.callback, res))\n", "C13.3"),
    M("serializer-rebound-after-upload", FN,
      "    def _did_upload(self, res, size):\n        self._most_recent_size = size\n        return res\n\n\n@implementer",
      "    def _did_upload(self, res, size):\n        self._most_recent_size = size\n"
      "        self._serializer = defer.succeed(None)\n        return res\n\n\n@implementer", "C13.3"),
    M("version-serializer-never-fired", FN,
      "        self._writekey = writekey\n        self._serializer = defer.succeed(None)\n",
      "        self._writekey = writekey\n        self._serializer = defer.Deferred()\n", "C13.3"),
    # ---- C13.4 one node per cap string
    M("memo-key-includes-name", NM,
      "            memokey = b\"M\" + bigcap\n", "            memokey = b\"M\" + bigcap + name.encode(\"utf-8\")\n", "C13.4"),
    M("memo-key-truncated", NM,
      "            memokey = b\"M\" + bigcap\n", "            memokey = b\"M\" + bigcap[:32]\n", "C13.4"),
    M("memo-stored-under-cap-object", NM,
      "                self._node_cache[memokey] = node  # note: WeakValueDictionary\n",
      "                self._node_cache[cap.to_string()] = node  # note: WeakValueDictionary\n", "C13.4"),
    M("memo-only-directories", NM,
      "            elif node.is_mutable():\n", "            elif node.is_mutable() and isinstance(node, DirectoryNode):\n", "C13.4"),
    M("memo-store-removed", NM,
      "                self._node_cache[memokey] = node  # note: WeakValueDictionary\n",
      "                pass  # cacheing disabled, see ticket #1679\n", "C13.4"),
    M("dirnode-builds-its-own-filenode", DN,
      "        self._node = filenode\n        filenode_cap = filenode.get_cap()\n",
      "        self._node = filenode\n        filenode_cap = filenode.get_cap()\n"
      "        if filenode.is_mutable() and not filenode.is_readonly():\n"
      "            self._node = MutableFileNode(filenode._storage_broker, filenode._secret_holder,\n"
      "                                         filenode._default_encoding_parameters,\n"
      "                                         filenode._history).init_from_cap(filenode_cap)\n", "C13.4"),
    # ---- C13.5 directory edits go through node.modify
    M("delete-read-modify-overwrite", DN,
      "        d = self._node.modify(deleter.modify)\n",
      "        d = self._node.download_best_version()\n"
      "        d.addCallback(lambda old: self._node.overwrite(MutableData(deleter.modify(old, None, True))))\n", "C13.5"),
    M("set-metadata-through-version-object", DN,
      "        d = self._node.modify(s.modify)\n",
      "        d = self._node.get_best_mutable_version()\n        d.addCallback(lambda mfv: mfv.modify(s.modify))\n", "C13.5"),
    M("set-nodes-does-not-wait", DN,
      "        d = self._node.modify(a.modify)\n        d.addCallback(lambda res: self)\n        return d\n\n\n    def add_file",
      "        self._node.modify(a.modify)\n        return defer.succeed(self)\n\n\n    def add_file", "C13.5"),
    M("set-node-modifier-on-other-directory", DN,
      "        a = Adder(self, overwrite=overwrite,\n                  create_readonly_node=self._create_readonly_node)\n"
      "        a.set_node(namex, child, metadata)\n",
      "        a = Adder(child, overwrite=overwrite,\n                  create_readonly_node=self._create_readonly_node)\n"
      "        a.set_node(namex, child, metadata)\n", "C13.5"),
    # ---- C13.6 the serialised region covers all the work
    M("overwrite-impl-forgets-return", FN,
      "        d.addCallback(self._did_upload, new_contents.get_size())\n        return d\n\n\n    def upload(self, new_contents, servermap):",
      "        d.addCallback(self._did_upload, new_contents.get_size())\n\n\n    def upload(self, new_contents, servermap):",
      "C13.6"),
    M("modify-once-does-not-await-publish", FN,
      "            return self._upload(new_contents)\n        d.addCallback(_apply)\n",
      "            self._upload(new_contents)\n        d.addCallback(_apply)\n", "C13.6"),
    M("node-modify-callback-drops-deferred", FN,
      "        d.addCallback(lambda mfv: mfv.modify(modifier, backoffer))\n",
      "        def _go(mfv):\n            mfv.modify(modifier, backoffer)\n        d.addCallback(_go)\n", "C13.6"),
    M("retry-not-awaited", FN,
      "            d2.addCallback(lambda ignored:\n                           self._modify_and_retry(modifier,\n"
      "                                                  backoffer, False))\n            return d2\n",
      "            d2.addCallback(lambda ignored:\n                           self._modify_and_retry(modifier,\n"
      "                                                  backoffer, False))\n", "C13.6"),
    # sweep survivors (callback that carries the work is dropped / detached from the returned Deferred)
    M("modify-once-apply-never-attached", FN,
      "            return self._upload(new_contents)\n        d.addCallback(_apply)\n        return d\n",
      "            return self._upload(new_contents)\n        return d\n", "C13.6"),
    M("download-retry-never-attached", FN,
      "        d.addErrback(_maybe_retry)\n        return d\n", "        return d\n", "C13.6"),
    M("modify-retry-on-detached-deferred", FN,
      "        d.addErrback(_retry)\n        return d\n",
      "        conflicts = defer.Deferred()\n        conflicts.addErrback(_retry)\n        d.addErrback(conflicts.errback)\n"
      "        return d\n", "C13.6"),
    M("modify-once-apply-run-by-helper-unawaited", FN,
      "            return self._upload(new_contents)\n        d.addCallback(_apply)\n        return d\n",
      "            return self._upload(new_contents)\n        d.addCallback(lambda old: defer.maybeDeferred(_apply, old) and None)\n"
      "        return d\n", "C13.6"),
    M("update-publish-on-detached-deferred", FN,
      "        d.addCallback(self._build_uploadable_and_finish, data, offset)\n        return d\n",
      "        publishing = defer.Deferred()\n        publishing.addCallback(self._build_uploadable_and_finish, data, offset)\n"
      "        d.addCallback(publishing.callback)\n        return d\n", "C13.6"),
    # ---- C13.7 directory operations cover the edits they start
    M("set-uri-does-not-return-deferred", DN,
      "        d.addCallback(lambda res: child_node)\n        return d\n",
      "        d.addCallback(lambda res: child_node)\n        return None\n", "C13.7"),
    M("move-child-does-not-return-deferred", DN,
      "        d.addCallback(lambda child: self.delete(current_child_name))\n        return d\n",
      "        d.addCallback(lambda child: self.delete(current_child_name))\n        return None\n", "C13.7"),
    M("create-subdirectory-link-never-attached", DN,
      "            return d\n        d.addCallback(_created)\n        return d\n",
      "            return d\n        return d\n", "C13.7"),
    M("create-subdirectory-returns-early", DN,
      "            return d\n        d.addCallback(_created)\n        return d\n",
      "            return d\n        d.addCallback(_created)\n        return defer.succeed(None)\n", "C13.7"),
    M("add-file-link-not-awaited", DN,
      "                d.addCallback(lambda node:\n                              self.set_node(name, node, metadata, overwrite))\n",
      "                def _link(node):\n                    self.set_node(name, node, metadata, overwrite)\n"
      "                    return node\n                d.addCallback(_link)\n", "C13.7"),
    M("add-file-does-not-return-deferred", DN,
      "        return d.addActionFinish()\n\n    def delete(",
      "        d.addActionFinish()\n\n    def delete(", "C13.7"),
    M("move-child-unlink-in-tuple", DN,
      "        d.addCallback(lambda child: self.delete(current_child_name))\n",
      "        d.addCallback(lambda child: (self.delete(current_child_name), child)[1])\n", "C13.7"),
    # ---- benign
    M("benign-modify-once-chained-return", FN,
      "            return self._upload(new_contents)\n        d.addCallback(_apply)\n        return d\n",
      "            return self._upload(new_contents)\n        return d.addCallback(_apply)\n", None),
    M("benign-update-chained-return", FN,
      "        d.addCallback(self._build_uploadable_and_finish, data, offset)\n        return d\n",
      "        return d.addCallback(self._build_uploadable_and_finish, data, offset)\n", None),
    M("benign-retry-through-alias", FN,
      "        d.addErrback(_retry)\n        return d\n",
      "        on_conflict = _retry\n        d.addErrback(on_conflict)\n        return d\n", None),
    M("benign-set-uri-chained-return", DN,
      "        d = self.set_node(namex, child_node, metadata, overwrite)\n        d.addCallback(lambda res: child_node)\n"
      "        return d\n",
      "        return self.set_node(namex, child_node, metadata, overwrite).addCallback(lambda res: child_node)\n", None),
    M("benign-create-subdirectory-second-name", DN,
      "            return d\n        d.addCallback(_created)\n        return d\n",
      "            return d\n        d2 = d.addCallback(_created)\n        return d2\n", None),
    M("benign-move-child-named-lambda", DN,
      "        d.addCallback(lambda child: self.delete(current_child_name))\n",
      "        unlink = lambda child: self.delete(current_child_name)\n        d.addCallback(unlink)\n", None),
    M("benign-upload-chained-return", FN,
      "        d = p.publish(new_contents)\n        d.addCallback(self._did_upload, new_contents.get_size())\n        return d\n"
      "\n\n    def _did_upload(self, res, size):\n        self._most_recent_size = size\n        return res\n\n    def update(",
      "        return p.publish(new_contents).addCallback(self._did_upload, new_contents.get_size())\n"
      "\n\n    def _did_upload(self, res, size):\n        self._most_recent_size = size\n        return res\n\n    def update(",
      None),
    M("benign-modify-through-local", FN,
      "        # TODO: Update downloader hints.\n        return self._do_serialized(self._modify, modifier, backoffer)\n",
      "        d = self._do_serialized(self._modify, modifier, backoffer)\n        return d\n", None),
    M("benign-serializer-nested-defs", FN,
      _MFN_PRE + _HEAD + _QUEUE,
      _MFN_PRE + _HEAD + "        def _run(ignore):\n            return cb(*args, **kwargs)\n"
      "        self._serializer.addCallback(_run)\n", None),
    M("benign-fire-as-def", FN,
      _FIRE + _TAIL + _MFV_POST,
      "        def _fire(result):\n            eventually(d.callback, result)\n        self._serializer.addBoth(_fire)\n"
      + _TAIL + _MFV_POST, None),
    M("benign-memokey-conditional-expression", NM,
      "        if deep_immutable:\n            memokey = b\"I\" + bigcap\n        else:\n            memokey = b\"M\" + bigcap\n",
      "        memokey = (b\"I\" if deep_immutable else b\"M\") + bigcap\n", None),
    M("benign-delete-modifier-through-local", DN,
      "        d = self._node.modify(deleter.modify)\n",
      "        m = deleter.modify\n        d = self._node.modify(m)\n", None),
    M("benign-dirnode-reads-readcap", DN,
      "        return self._node.get_size()\n",
      "        self._node.get_readcap()\n        return self._node.get_size()\n", None),
    # ---- C13.8 the memo key is a function of the cap string the node is built from
    M("memo-key-is-argument-tuple", NM,      # seeded C13-C
      "        if deep_immutable:\n            memokey = b\"I\" + bigcap\n        else:\n            memokey = b\"M\" + bigcap\n",
      "        memokey = (deep_immutable, writecap, readcap)\n", "C13.8"),
    M("memo-key-appends-readcap", NM,
      "            memokey = b\"M\" + bigcap\n", "            memokey = b\"M\" + bigcap + (readcap or b\"\")\n", "C13.8"),
    M("memo-key-writecap-then-readcap", NM,
      "            memokey = b\"M\" + bigcap\n",
      "            memokey = (b\"M\", writecap) if writecap else (b\"M\", None, readcap)\n", "C13.8"),
    M("benign-memokey-tuple-of-effective-cap", NM,
      "        if deep_immutable:\n            memokey = b\"I\" + bigcap\n        else:\n            memokey = b\"M\" + bigcap\n",
      "        memokey = (bool(deep_immutable), writecap or readcap)\n", None),
    M("benign-memokey-by-branch-on-writecap", NM,
      "        if deep_immutable:\n            memokey = b\"I\" + bigcap\n        else:\n            memokey = b\"M\" + bigcap\n",
      "        prefix = b\"I\" if deep_immutable else b\"M\"\n        if writecap:\n            memokey = prefix + writecap\n"
      "        else:\n            memokey = prefix + readcap\n", None),
    M("memokey-branches-swapped", NM,
      "        if deep_immutable:\n            memokey = b\"I\" + bigcap\n        else:\n            memokey = b\"M\" + bigcap\n",
      "        prefix = b\"I\" if deep_immutable else b\"M\"\n        if readcap:\n            memokey = prefix + readcap\n"
      "        else:\n            memokey = prefix + writecap\n", "C13.8"),
    M("benign-memokey-conditional-cap", NM,
      "            memokey = b\"M\" + bigcap\n", "            memokey = b\"M\" + (writecap if writecap else readcap)\n", None),
    M("benign-bigcap-two-step", NM,
      "        bigcap = writecap or readcap\n",
      "        bigcap = writecap\n        if not bigcap:\n            bigcap = readcap\n", None),
    M("benign-from-string-inline", NM,
      "            cap = uri.from_string(bigcap, deep_immutable=deep_immutable,\n                                  name=name)\n"
      "            node = self._create_from_single_cap(cap)\n",
      "            node = self._create_from_single_cap(uri.from_string(bigcap, deep_immutable=deep_immutable,\n"
      "                                                                name=name))\n", None),
    # ---- C13.9 nothing inside a serialised region re-enters the serialiser
    M("retry-through-public-get-servermap", FN,      # seeded C13-D
      "            failure.trap(NotEnoughSharesError)\n\n            d = self.get_best_mutable_version()\n",
      "            failure.trap(NotEnoughSharesError)\n\n            d = self.get_servermap(MODE_WRITE)\n"
      "            d.addCallback(self.get_best_mutable_version)\n", "C13.9"),
    M("region-helper-uses-public-get-servermap", FN,
      "            d = defer.succeed(servermap)\n        else:\n            d = self._get_servermap(mode)\n",
      "            d = defer.succeed(servermap)\n        else:\n            d = self.get_servermap(mode)\n", "C13.9"),
    M("version-modify-downloads-through-serialized-read", FN,
      "        d = self._try_to_download_data()\n        def _apply(old_contents):\n",
      "        d = self.download_to_data(fetch_privkey=True)\n        def _apply(old_contents):\n", "C13.9"),
    M("version-retry-asks-node-for-servermap", FN,
      "            d = self._update_servermap(mode=MODE_CHECK)\n",
      "            d = self._node.get_servermap(MODE_CHECK)\n"
      "            d.addCallback(lambda smap: setattr(self, \"_servermap\", smap))\n", "C13.9"),
    M("publish-confirms-through-node-servermap", "src/allmydata/mutable/publish.py",
      "        self._node.set_downloader_hints(hints)\n        eventually(self.done_deferred.callback, None)\n",
      "        self._node.set_downloader_hints(hints)\n        d = self._node.get_servermap(MODE_CHECK)\n"
      "        d.addCallback(lambda ign: eventually(self.done_deferred.callback, None))\n", "C13.9"),
    M("benign-retry-calls-get-mutable-version", FN,
      "            failure.trap(NotEnoughSharesError)\n\n            d = self.get_best_mutable_version()\n",
      "            failure.trap(NotEnoughSharesError)\n\n            d = self.get_mutable_version()\n", None),
    M("benign-modify-once-inlines-unserialized-download", FN,
      "        d = self._try_to_download_data()\n        def _apply(old_contents):\n",
      "        c = consumer.MemoryConsumer()\n        d = self._read(c, fetch_privkey=True)\n"
      "        d.addCallback(lambda mc: b\"\".join(mc.chunks))\n        def _apply(old_contents):\n", None),
    # ---- C13.4 the local holding the cap string is known by what it is bound to, not by its name
    M("benign-bigcap-renamed", NM, '        bigcap = writecap or readcap\n        if not bigcap:\n', '        bigcap_sa = writecap or readcap\n        if not bigcap_sa:\n', None, edits=[
      (NM, '        if deep_immutable:\n            memokey = b"I" + bigcap\n        else:\n            memokey = b"M" + bigcap\n', '        if deep_immutable:\n            memokey = b"I" + bigcap_sa\n        else:\n            memokey = b"M" + bigcap_sa\n'), (NM, '            cap = uri.from_string(bigcap, deep_immutable=deep_immutable,\n', '            cap = uri.from_string(bigcap_sa, deep_immutable=deep_immutable,\n')]),
    M("renamed-bigcap-is-a-prefix-of-the-cap", NM, '        bigcap = writecap or readcap\n        if not bigcap:\n', '        capstr = (writecap or readcap)[:40]\n        if not capstr:\n', "C13.4", edits=[
      (NM, '        if deep_immutable:\n            memokey = b"I" + bigcap\n        else:\n            memokey = b"M" + bigcap\n', '        if deep_immutable:\n            memokey = b"I" + capstr\n        else:\n            memokey = b"M" + capstr\n'), (NM, '            cap = uri.from_string(bigcap, deep_immutable=deep_immutable,\n', '            cap = uri.from_string(capstr, deep_immutable=deep_immutable,\n')]),
    # ---- C13.6 `d = E; return d` and `return E` are the same function
    M("benign-read-returns-download-directly", FN,
      "        d = r.download(consumer, offset, size)\n        return d\n",
      "        return r.download(consumer, offset, size)\n", None),
    M("benign-read-download-via-two-locals", FN,
      "        d = r.download(consumer, offset, size)\n        return d\n",
      "        d = r.download(consumer, offset, size)\n        done = d\n        return done\n", None),
    # ---- C13.10 methods split off an awaited function are awaited too
    M("retry-errback-extracted-without-return", FN,      # seeded C13-F
      _RETRY_OLD,
      "        d.addErrback(self._back_off_and_retry, modifier, backoffer)\n        return d\n\n\n"
      "    def _back_off_and_retry(self, f, modifier, backoffer):\n"
      "        f.trap(UncoordinatedWriteError)\n"
      "        d2 = defer.maybeDeferred(backoffer, self, f)\n"
      "        d2.addCallback(lambda ignored:\n"
      "                       self._modify_and_retry(modifier, backoffer, False))\n", "C13.10"),
    M("retry-errback-extracted-retry-not-chained", FN,
      _RETRY_OLD,
      "        d.addErrback(self._back_off_and_retry, modifier, backoffer)\n        return d\n\n\n"
      "    def _back_off_and_retry(self, f, modifier, backoffer):\n"
      "        f.trap(UncoordinatedWriteError)\n"
      "        d2 = defer.maybeDeferred(backoffer, self, f)\n"
      "        def _again(ignored):\n"
      "            self._modify_and_retry(modifier, backoffer, False)\n"
      "        d2.addCallback(_again)\n"
      "        return d2\n", "C13.10"),
    M("download-retry-extracted-without-return", FN,
      _DL_RETRY_OLD,
      "        d.addErrback(self._retry_with_write_servermap)\n        return d\n\n\n"
      "    def _retry_with_write_servermap(self, failure):\n"
      "        failure.trap(NotEnoughSharesError)\n"
      "        d = self.get_best_mutable_version()\n"
      "        d.addCallback(self._record_size)\n"
      "        d.addCallback(lambda version: version.download_to_data())\n", "C13.10"),
    M("modify-once-split-publish-step-not-returned", FN,
      "        d = self._try_to_download_data()\n        def _apply(old_contents):\n",
      "        d = self._try_to_download_data()\n        d.addCallback(self._apply_modifier, modifier, first_time)\n"
      "        d.addCallback(self._publish_modified)\n        return d\n\n"
      "    def _apply_modifier(self, old_contents, modifier, first_time):\n"
      "        return modifier(old_contents, self._servermap, first_time)\n\n"
      "    def _publish_modified(self, new_contents):\n"
      "        if new_contents is not None:\n"
      "            self._upload(MutableData(new_contents))\n\n"
      "    def _modify_once_unsplit(self, modifier, first_time):\n"
      "        d = self._try_to_download_data()\n        def _apply(old_contents):\n", "C13.10"),
    M("create-subdirectory-link-extracted-without-return", DN,
      _CREATED_OLD,
      "        d.addCallback(self._link_new_subdirectory, name, metadata, overwrite)\n        return d\n\n"
      "    def _link_new_subdirectory(self, child, name, metadata, overwrite):\n"
      "        entries = {name: (child, metadata)}\n"
      "        a = Adder(self, entries, overwrite=overwrite,\n"
      "                  create_readonly_node=self._create_readonly_node)\n"
      "        self._node.modify(a.modify)\n"
      "        return child\n", "C13.10"),
    M("benign-retry-errback-extracted", FN,
      _RETRY_OLD,
      "        d.addErrback(self._back_off_and_retry, modifier, backoffer)\n        return d\n\n\n"
      "    def _back_off_and_retry(self, f, modifier, backoffer):\n"
      "        f.trap(UncoordinatedWriteError)\n"
      "        d2 = defer.maybeDeferred(backoffer, self, f)\n"
      "        d2.addCallback(lambda ignored:\n"
      "                       self._modify_and_retry(modifier, backoffer, False))\n"
      "        return d2\n", None),
    M("benign-download-retry-extracted", FN,
      _DL_RETRY_OLD,
      "        d.addErrback(self._retry_with_write_servermap)\n        return d\n\n\n"
      "    def _retry_with_write_servermap(self, failure):\n"
      "        failure.trap(NotEnoughSharesError)\n"
      "        return self.get_best_mutable_version().addCallback(self._record_size).addCallback(\n"
      "            lambda version: version.download_to_data())\n", None),
    M("benign-create-subdirectory-link-extracted", DN,
      _CREATED_OLD,
      "        d.addCallback(self._link_new_subdirectory, name, metadata, overwrite)\n        return d\n\n"
      "    def _link_new_subdirectory(self, child, name, metadata, overwrite):\n"
      "        entries = {name: (child, metadata)}\n"
      "        a = Adder(self, entries, overwrite=overwrite,\n"
      "                  create_readonly_node=self._create_readonly_node)\n"
      "        d = self._node.modify(a.modify)\n"
      "        d.addCallback(lambda res: child)\n"
      "        return d\n", None),
    # ---- C13.11 directory reads enter through the node's serialiser
    M("dirnode-read-through-readable-version", DN,      # seeded C13-E
      _DN_READ_OLD,
      "        d = self._node.get_best_readable_version()\n        d.addCallback(download_to_data)\n"
      "        d.addCallback(self._unpack_contents)\n", "C13.11"),
    M("dirnode-read-downloads-version-from-servermap", DN,
      "            d = self._node.download_best_version()\n",
      "            d = self._node.get_servermap(MODE_READ)\n"
      "            d.addCallback(lambda smap: self._node.download_version(smap, smap.best_recoverable_version()))\n",
      "C13.11", edits=[(DN, "from allmydata.mutable.common import NotWriteableError\n",
                        "from allmydata.mutable.common import NotWriteableError, MODE_READ\n")]),
    M("dirnode-read-version-object-through-alias", DN,
      "            d = self._node.download_best_version()\n",
      "            node = self._node\n            d = node.get_readable_version()\n"
      "            d.addCallback(lambda version: version.download_to_data())\n", "C13.11"),
    M("dirnode-has-child-peeks-unserialised", DN,
      "        return self._node.get_current_size()\n",
      "        d = self._node.get_best_readable_version()\n        d.addCallback(lambda v: v.get_size())\n        return d\n",
      "C13.11"),
    M("benign-dirnode-read-node-alias", DN,
      "            d = self._node.download_best_version()\n",
      "            node = self._node\n            d = node.download_best_version()\n", None),
    M("benign-dirnode-read-conditional-expression", DN,
      _DN_READ_OLD,
      "        d = self._node.download_best_version() if self._node.is_mutable() else download_to_data(self._node)\n"
      "        d.addCallback(self._unpack_contents)\n", None),
    M("benign-dirnode-size-of-best-version", DN,
      "        return self._node.get_current_size()\n",
      "        return self._node.get_size_of_best_version()\n", None),
    # ---- C13.7 in the inlineCallbacks shape (seeded C20-I): a yielded Deferred is waited for, a merely started or a
    # returned one is not
    IM("benign-imove-faithful", None),
    IM("benign-imove-deferred-in-local-then-yielded", None,
       steps=_IMOVE_STEPS.replace("        yield new_parent.set_node(new_child_namex, child, metadata,\n"
                                  "                                  overwrite=overwrite)\n",
                                  "        linking = new_parent.set_node(new_child_namex, child, metadata,\n"
                                  "                                      overwrite=overwrite)\n"
                                  "        yield linking\n")),
    IM("imove-link-started-not-yielded", "C13.7",
       steps=_IMOVE_STEPS.replace("        yield new_parent.set_node(", "        new_parent.set_node(")),
    IM("imove-unlink-returned-not-yielded", "C13.7",
       steps=_IMOVE_STEPS.replace("        old_child = yield self.delete(", "        old_child = self.delete(")),
    IM("imove-unlink-in-local-never-yielded", "C13.7",
       steps=_IMOVE_STEPS.replace("        old_child = yield self.delete(current_child_namex)\n        return old_child\n",
                                  "        unlinking = self.delete(current_child_namex)\n"
                                  "        unlinking.addErrback(log.err)\n")),
    # ---- C13.4 with the factories looked up through a (name, classes) table + getattr(self, name) (seeded C19-I)
    TBL("benign-factory-table-getattr", None),
    TBL("benign-factory-table-dirnode-step-inline", None, dirnode=_NM_DIRNODE +
        "    def _create_dirnode_from_cap(self, cap):\n"
        "        return self._create_dirnode(self._create_from_single_cap(cap.get_filenode_cap()))\n"),
    # a second, public way into the table: nodes for an already parsed cap are built without the memo
    TBL("factory-table-public-entry-bypasses-memo", "C13.4", loop=_NM_LOOP +
        "\n    def create_from_parsed_cap(self, cap):\n"
        "        # callers that already hold a parsed cap skip the string round-trip\n" + _NM_LOOP_BODY),
    # the split-off directory step becomes reachable from outside the single-cap factory
    TBL("factory-table-dirnode-step-made-public-entry", "C13.4", loop=_NM_LOOP +
        "\n    def create_dirnode_from_cap(self, cap):\n"
        "        return self._create_dirnode_from_cap(cap)\n"),
    # the method name is computed: who reaches the factories cannot be decided
    TBL("factory-getattr-computed-name", "ANALYSIS-ERROR", loop=_NM_LOOP.replace(
        "getattr(self, factory_name)(cap)", "getattr(self, \"_create_\" + factory_name)(cap)")),
    # ---- vanished anchor
    # create_from_cap cut into helpers (seeded C18-I, faithful form): not followed, fails closed - must not be a violation
    M("create-from-cap-split-into-helpers-not-followed", NM, _CFC_OLD, _CFC_SPLIT, "ANALYSIS-ERROR"),
    M("vanish-dirnode-serialised-read", DN,
      "            d = self._node.download_best_version()\n", "            d = download_to_data(self._node)\n",
      "ANALYSIS-ERROR"),
    M("vanish-create-from-cap", NM,
      "    def create_from_cap(self, writecap, readcap=None,", "    def create_from_capX(self, writecap, readcap=None,",
      "ANALYSIS-ERROR"),
]


# ---- C13.3 with _do_serialized as an inlineCallbacks generator in a shared mixin (seeded C13-I; the faithful forms are
# benign variants of C09 and were false alarms of C13.3 in the cross-property run).  The builder is C09's; when it cannot
# be imported the variants are skipped.
try:
    from .C09 import _ds_variant as _C09_DS, _DS_MIXIN as _C09_DS_MIXIN
except Exception:           # pragma: no cover
    _C09_DS = None

if _C09_DS is not None:
    _DS_HEAD = "        ahead = self._serializer\n        self._serializer = finished = defer.Deferred()\n        yield ahead\n"
    _DS_TRY = ("        try:\n            res = yield cb(*args, **kwargs)\n        finally:\n"
               "            eventually(finished.callback, None)\n        return res\n")

    def _DS(mid, expect, head=_DS_HEAD, **kw):
        m = _C09_DS(mid, expect, **kw)
        if head is not _DS_HEAD:
            if _DS_HEAD not in m.new:
                return None
            m = M(mid, m.path, m.old, m.new.replace(_DS_HEAD, head), expect, edits=list(m.edits))
        return m

    MUTANTS += [x for x in [
        _DS("benign-do-serialized-inlinecallbacks-faithful", None),
        _DS("benign-do-serialized-inlinecallbacks-yield-a-local", None,
            run="        try:\n            d = cb(*args, **kwargs)\n            res = yield d\n        finally:\n"
                "            eventually(finished.callback, None)\n        return res\n"),
        _DS("benign-do-serialized-inlinecallbacks-return-the-yield", None,
            run="        try:\n            return (yield cb(*args, **kwargs))\n        finally:\n"
                "            eventually(finished.callback, None)\n"),
        _DS("benign-do-serialized-inlinecallbacks-tail-in-local-first", None,
            head="        ahead = self._serializer\n        finished = defer.Deferred()\n        self._serializer = finished\n"
                 "        yield ahead\n"),
        # the seeded C13-I order: wait first, take the tail afterwards - all waiters are released together
        _DS("do-serialized-inlinecallbacks-tail-installed-after-wait", "C13.3",
            head="        yield self._serializer\n        self._serializer = finished = defer.Deferred()\n"),
        _DS("do-serialized-inlinecallbacks-previous-tail-not-awaited", "C13.3",
            head="        ahead = self._serializer\n        self._serializer = finished = defer.Deferred()\n"),
        _DS("do-serialized-inlinecallbacks-waits-for-its-own-tail", "C13.3",
            head="        self._serializer = finished = defer.Deferred()\n        ahead = self._serializer\n        yield ahead\n"),
        _DS("do-serialized-inlinecallbacks-installs-old-tail-again", "C13.3",
            head="        ahead = self._serializer\n        finished = defer.Deferred()\n        self._serializer = ahead\n"
                 "        yield ahead\n"),
        _DS("do-serialized-inlinecallbacks-tail-fired-only-on-success", "C13.3",
            run="        res = yield cb(*args, **kwargs)\n        eventually(finished.callback, None)\n        return res\n"),
        _DS("do-serialized-inlinecallbacks-tail-never-fired", "C13.3",
            run="        res = yield cb(*args, **kwargs)\n        return res\n"),
        _DS("do-serialized-inlinecallbacks-fires-another-deferred", "C13.3",
            run="        try:\n            res = yield cb(*args, **kwargs)\n        finally:\n"
                "            eventually(ahead.callback, None)\n        return res\n"),
        _DS("do-serialized-inlinecallbacks-operation-not-yielded", "C13.3",
            run="        try:\n            res = cb(*args, **kwargs)\n        finally:\n"
                "            eventually(finished.callback, None)\n        return res\n"),
        _DS("do-serialized-inlinecallbacks-operation-without-arguments", "C13.3",
            run="        try:\n            res = yield cb()\n        finally:\n"
                "            eventually(finished.callback, None)\n        return res\n"),
        _DS("do-serialized-inlinecallbacks-result-dropped", "C13.3",
            run="        try:\n            yield cb(*args, **kwargs)\n        finally:\n"
                "            eventually(finished.callback, None)\n        return None\n"),
        _DS("do-serialized-generator-decorator-lost", "C13.3", deco=""),
    ] if x is not None]
