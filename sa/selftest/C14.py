from .runner import M

CHK = "src/allmydata/mutable/checker.py"
REP = "src/allmydata/mutable/repairer.py"
SM = "src/allmydata/mutable/servermap.py"
PUB = "src/allmydata/mutable/publish.py"
NODE = "src/allmydata/mutable/filenode.py"

MUTANTS = [
    # ---- C14.1 health verdict
    M("healthy-ignores-unrecoverable", CHK,
      "        if smap.unrecoverable_versions():\n            healthy = False\n            summary.append(\"some versions are unrecoverable\")",
      "        if smap.unrecoverable_versions():\n            summary.append(\"some versions are unrecoverable\")", "C14.1"),
    M("healthy-with-two-recoverable", CHK, "        if len(recoverable) > 1:", "        if len(recoverable) > 2:", "C14.1"),
    M("healthy-multiple-check-dropped", CHK,
      "        if len(recoverable) > 1:\n            healthy = False\n", "        if len(recoverable) > 1:\n", "C14.1"),
    M("healthy-when-k-shares", CHK, "            if s < N:\n                healthy = False",
      "            if s < k:\n                healthy = False", "C14.1"),
    M("healthy-share-check-le", CHK, "            if s < N:\n                healthy = False",
      "            if s <= N:\n                healthy = False", "C14.1"),
    M("unhealthy-unconditionally-in-best-branch", CHK,
      "            N = counters[\"count-shares-expected\"]\n            if s < N:\n",
      "            N = counters[\"count-shares-expected\"]\n            if k < N:\n                healthy = False\n            if s < N:\n", "C14.1"),
    M("good-shares-not-distinct", SM, "            all_shares[verinfo] = (len(s), k, N)",
      "            all_shares[verinfo] = (len(shares), k, N)", "C14.1"),
    M("good-count-is-host-count", CHK, "        counters[\"count-shares-good\"] = num_distinct_shares\n",
      "        counters[\"count-shares-good\"] = len(smap.all_servers_for_version(version))\n", "C14.1"),
    M("health-benign-not-recoverable", CHK, "        if len(recoverable) == 0:\n            healthy = False",
      "        if not recoverable:\n            healthy = False", None),
    M("health-benign-ge-form", CHK, "            if s < N:\n                healthy = False",
      "            if not (s >= N):\n                healthy = False", None),
    M("health-benign-local-for-unrecoverable", CHK,
      "        if smap.unrecoverable_versions():\n            healthy = False", "        if unrecoverable:\n            healthy = False", None),
    M("health-benign-reorder-checks", CHK,
      "        if smap.unrecoverable_versions():\n            healthy = False\n            summary.append(\"some versions are unrecoverable\")\n"
      "            report.append(\"Unhealthy: some versions are unrecoverable\")\n"
      "        if len(recoverable) == 0:\n            healthy = False\n            summary.append(\"no versions are recoverable\")\n"
      "            report.append(\"Unhealthy: no versions are recoverable\")\n",
      "        if len(recoverable) == 0:\n            healthy = False\n            summary.append(\"no versions are recoverable\")\n"
      "            report.append(\"Unhealthy: no versions are recoverable\")\n"
      "        if smap.unrecoverable_versions():\n            healthy = False\n            summary.append(\"some versions are unrecoverable\")\n"
      "            report.append(\"Unhealthy: some versions are unrecoverable\")\n", None),
    # ---- C14.2 need_repair
    M("no-repair-for-unrecoverable", CHK,
      "        if servermap.unrecoverable_versions():\n            self.need_repair = True\n", "", "C14.2"),
    M("no-repair-for-competing-versions", CHK, "        if num_recoverable != 1:", "        if num_recoverable < 1:", "C14.2"),
    M("no-repair-when-k-shares", CHK, "            if num_distinct_shares < N:", "            if num_distinct_shares < k:", "C14.2"),
    M("check-and-repair-forces", CHK, "        d = self._node.repair(pre_repair_results, monitor=self._monitor)",
      "        d = self._node.repair(pre_repair_results, force=True, monitor=self._monitor)", "C14.2"),
    M("repair-skipped-when-needed", CHK, "        if not self.need_repair:\n            crr.post_repair_results = pre_repair_results\n            return\n",
      "        if not self.need_repair or pre_repair_results.is_recoverable():\n            crr.post_repair_results = pre_repair_results\n            return\n",
      "C14.2"),
    M("need-repair-benign-eq", CHK, "        if num_recoverable != 1:", "        if not (num_recoverable == 1):", None),
    # ---- C14.3 refusal gates
    M("newer-gate-wrong-predicate", REP, "        if smap.unrecoverable_newer_versions():\n            if not force:",
      "        if smap.unrecoverable_versions() and not smap.recoverable_versions():\n            if not force:", "C14.3"),
    M("merge-gate-inverted", REP, "        if smap.needs_merge():\n            if not force:", "        if smap.needs_merge():\n            if force:", "C14.3"),
    M("merge-gate-only-logged", REP,
      "        if smap.needs_merge():\n            if not force:\n                raise MustForceRepairError(\"There were multiple recoverable \"",
      "        if smap.needs_merge():\n            if not force:\n                print(\"There were multiple recoverable \"", "C14.3"),
    M("force-defaults-true", NODE, "    def repair(self, check_results, force=False, monitor=None):",
      "    def repair(self, check_results, force=True, monitor=None):", "C14.3"),
    M("gate-benign-writekey-check-left-to-publish", REP,
      "        if not self.node.get_writekey():\n            raise RepairRequiresWritecapError(\"Sorry, repair currently requires a writecap, to set the write-enabler properly.\")\n",
      "", None),
    M("force-always-passed", NODE, "        d = r.start(force)", "        d = r.start(True)", "C14.3"),
    M("best-gate-dropped", REP,
      "        if not best_version:\n            # the file is damaged beyond repair\n            rr = RepairResults(smap)\n"
      "            rr.set_successful(False)\n            return defer.succeed(rr)\n", "", "C14.3"),
    M("gate-benign-is-none", REP, "        if not best_version:\n            # the file is damaged beyond repair",
      "        if best_version is None:\n            # the file is damaged beyond repair", None),
    M("gate-benign-merged-conditions", REP,
      "        if smap.needs_merge():\n            if not force:\n                raise MustForceRepairError(\"There were multiple recoverable \"",
      "        if smap.needs_merge() and not force:\n                raise MustForceRepairError(\"There were multiple recoverable \"", None),
    # ---- C14.4 what is republished
    M("repair-republishes-oldest", REP, "        d = self.node.download_version(smap, best_version, fetch_privkey=True)",
      "        d = self.node.download_version(smap, sorted(smap.recoverable_versions())[0], fetch_privkey=True)", "C14.4"),
    M("repair-overwrites-with-own-map", REP, "        d.addCallback(self.node.upload, smap)", "        d.addCallback(self.node.overwrite)", "C14.4"),
    M("repair-uploads-into-fresh-map", REP, "        d.addCallback(self.node.upload, smap)", "        d.addCallback(self.node.upload, ServerMap())", "C14.4"),
    M("best-version-is-smallest", SM, "        if recoverable:\n            return recoverable[-1]", "        if recoverable:\n            return recoverable[0]", "C14.4"),
    M("best-version-unsorted", SM, "        recoverable = list(self.recoverable_versions())\n        recoverable.sort()\n",
      "        recoverable = list(self.recoverable_versions())\n", "C14.4"),
    M("best-version-benign-max", SM, "        if recoverable:\n            return recoverable[-1]", "        if recoverable:\n            return max(recoverable)", None),
    # ---- C14.5 bad shares
    M("bad-shares-not-in-goal", PUB, "            self.goal.add( (server,shnum) )\n", "", "C14.5"),
    M("bad-checkstring-not-recorded", PUB, "            self.bad_share_checkstrings[(server,shnum)] = old_checkstring\n",
      "            self.log(\"will replace bad share %d\" % shnum)\n", "C14.5"),
    M("goal-reset-after-bad-shares", PUB, "            self.bad_share_checkstrings[(server,shnum)] = old_checkstring\n",
      "            self.bad_share_checkstrings[(server,shnum)] = old_checkstring\n        self.goal = set(self._servermap.get_known_shares())\n",
      "C14.5"),
    M("writer-ignores-old-checkstring", PUB,
      "            elif (server, shnum) in self.bad_share_checkstrings:\n"
      "                old_checkstring = self.bad_share_checkstrings[(server, shnum)]\n"
      "                writer.set_checkstring(old_checkstring)\n", "", "C14.5"),
    M("bad-share-still-known", SM, "        self._known_shares.pop(key, None)\n", "", "C14.5"),
    M("bad-share-benign-key", PUB, "            self.goal.add( (server,shnum) )\n", "            self.goal.add(key)\n", None),
    # ---- C14.6 verdict after verification
    M("verdict-before-verify", CHK,
      "        if verify:\n            d.addCallback(self._verify_all_shares)\n        d.addCallback(lambda res: servermap)\n"
      "        d.addCallback(self._make_checker_results)\n",
      "        d.addCallback(lambda res: servermap)\n        d.addCallback(self._make_checker_results)\n"
      "        if verify:\n            d.addCallback(lambda cr: self._verify_all_shares(servermap).addCallback(lambda ign: cr))\n", "C14.6"),
    M("verifier-marks-a-copy", CHK, "        r = Retrieve(self._node, self._storage_broker, servermap,\n                     self.best_version, verify=True)",
      "        r = Retrieve(self._node, self._storage_broker, servermap.copy(),\n                     self.best_version, verify=True)", "C14.6"),
    # ---- C14.7 version classification in the servermap
    M("newer-counts-share-instances", SM,       # seeded C14-A
      "            shnums = set([shnum for (shnum, server, timestamp) in shares])\n            healths[verinfo] = (len(shnums),k)\n"
      "            if len(shnums) < k:\n",
      "            healths[verinfo] = (len(shares), k)\n            if len(shares) < k:\n", "C14.7"),
    M("newer-counts-shnum-list", SM,            # same effect: duplicates are kept because a list is counted
      "            shnums = set([shnum for (shnum, server, timestamp) in shares])\n            healths[verinfo] = (len(shnums),k)\n",
      "            shnums = [shnum for (shnum, server, timestamp) in shares]\n            healths[verinfo] = (len(shnums),k)\n", "C14.7"),
    M("newer-counts-servers", SM,
      "            shnums = set([shnum for (shnum, server, timestamp) in shares])\n            healths[verinfo] = (len(shnums),k)\n",
      "            shnums = set([server for (shnum, server, timestamp) in shares])\n            healths[verinfo] = (len(shnums),k)\n", "C14.7"),
    M("recoverable-counts-share-instances", SM,
      "            shnums = set([shnum for (shnum, server, timestamp) in shares])\n            if len(shnums) >= k:\n",
      "            if len(shares) >= k:\n", "C14.7"),
    M("recoverable-needs-more-than-k", SM, "            if len(shnums) >= k:\n", "            if len(shnums) > k:\n", "C14.7"),
    M("unrecoverable-includes-exactly-k", SM, "            if len(shnums) < k:\n                unrecoverable_versions.add(verinfo)",
      "            if len(shnums) <= k:\n                unrecoverable_versions.add(verinfo)", "C14.7"),
    M("unrecoverable-compares-with-N", SM, "            if len(shnums) < k:\n                unrecoverable_versions.add(verinfo)",
      "            if len(shnums) < N:\n                unrecoverable_versions.add(verinfo)", "C14.7"),
    M("newer-needs-gap-of-two", SM, "            if seqnum > highest_recoverable_seqnum:\n                newversions[verinfo]",
      "            if seqnum > highest_recoverable_seqnum + 1:\n                newversions[verinfo]", "C14.7"),
    M("highest-seqnum-raised-by-every-version", SM,
      "                unrecoverable.add(verinfo)\n            else:\n                highest_recoverable_seqnum = max(seqnum,\n"
      "                                                 highest_recoverable_seqnum)\n",
      "                unrecoverable.add(verinfo)\n            highest_recoverable_seqnum = max(seqnum,\n"
      "                                             highest_recoverable_seqnum)\n", "C14.7"),
    M("highest-seqnum-starts-at-highest", SM, "        highest_recoverable_seqnum = -1\n",
      "        highest_recoverable_seqnum = self.highest_seqnum()\n", "C14.7"),
    M("merge-needs-three-heads", SM, "            if recoverable_seqnums.count(seqnum) > 1:", "            if recoverable_seqnums.count(seqnum) > 2:", "C14.7"),
    M("merge-answers-after-first-seqnum", SM,
      "            if recoverable_seqnums.count(seqnum) > 1:\n                return True\n        return False",
      "            if recoverable_seqnums.count(seqnum) > 1:\n                return True\n            return False\n        return False", "C14.7"),
    M("merge-looks-at-unrecoverable", SM, "                               for verinfo in self.recoverable_versions()]",
      "                               for verinfo in self.unrecoverable_versions()]", "C14.7"),
    M("versionmap-tuple-server-first", SM, "            versionmap.add(verinfo, (shnum, server, timestamp))",
      "            versionmap.add(verinfo, (server, shnum, timestamp))", "C14.7"),
    M("classify-benign-set-comprehension", SM,
      "            shnums = set([shnum for (shnum, server, timestamp) in shares])\n            healths[verinfo] = (len(shnums),k)\n",
      "            shnums = {sh for (sh, _srv, _ts) in shares}\n            healths[verinfo] = (len(shnums),k)\n", None),
    M("classify-benign-hoisted-count", SM,
      "            shnums = set([shnum for (shnum, server, timestamp) in shares])\n            if len(shnums) >= k:\n",
      "            shnums = set([shnum for (shnum, server, timestamp) in shares])\n            found = len(shnums)\n            if not found < k:\n", None),
    M("classify-benign-set-built-in-loop", SM,
      "            shnums = set([shnum for (shnum, server, timestamp) in shares])\n            if len(shnums) < k:\n                unrecoverable_versions.add(verinfo)",
      "            shnums = set()\n            for (shnum, server, timestamp) in shares:\n                shnums.add(shnum)\n"
      "            if len(shnums) < k:\n                unrecoverable_versions.add(verinfo)", None),
    M("classify-benign-conditional-raise", SM,
      "                highest_recoverable_seqnum = max(seqnum,\n                                                 highest_recoverable_seqnum)\n",
      "                if seqnum > highest_recoverable_seqnum:\n                    highest_recoverable_seqnum = seqnum\n", None),
    M("classify-benign-merge-closed-form", SM,
      "        for seqnum in recoverable_seqnums:\n            if recoverable_seqnums.count(seqnum) > 1:\n                return True\n        return False",
      "        return len(set(recoverable_seqnums)) != len(recoverable_seqnums)", None),
    M("classify-benign-versionmap-key", SM,
      "        for ( (server, shnum), (verinfo, timestamp) ) in list(self._known_shares.items()):\n            versionmap.add(verinfo, (shnum, server, timestamp))",
      "        for (key, (verinfo, timestamp)) in list(self._known_shares.items()):\n            versionmap.add(verinfo, (key[1], key[0], timestamp))", None),
    M("classify-benign-newer-continue", SM,
      "            if seqnum > highest_recoverable_seqnum:\n                newversions[verinfo] = healths[verinfo]\n",
      "            if seqnum <= highest_recoverable_seqnum:\n                continue\n            newversions[verinfo] = healths[verinfo]\n", None),
    # ---- C14.8 the servermap the repair decides on
    M("repair-reuses-check-servermap", REP,     # seeded C14-B
      "        u = ServermapUpdater(self.node, self._storage_broker, self._monitor,\n                             ServerMap(), MODE_REPAIR)\n",
      "        smap = self.check_results.get_servermap()\n        if smap is not None and self.node.get_privkey():\n"
      "            return defer.maybeDeferred(self._got_full_servermap, smap, force)\n"
      "        u = ServermapUpdater(self.node, self._storage_broker, self._monitor,\n                             ServerMap(), MODE_REPAIR)\n", "C14.8"),
    M("repair-chain-starts-from-check-servermap", REP, "        d = u.update()\n",
      "        d = defer.succeed(self.check_results.get_servermap())\n", "C14.8"),
    M("repair-mapupdate-in-write-mode", REP, "                             ServerMap(), MODE_REPAIR)\n", "                             ServerMap(), MODE_WRITE)\n",
      "C14.8", edits=[(REP, "from allmydata.mutable.common import MODE_REPAIR\n", "from allmydata.mutable.common import MODE_REPAIR, MODE_WRITE\n")]),
    M("repair-mode-stops-at-boundary", SM, "        if self.mode in (MODE_CHECK, MODE_REPAIR):\n            # We want to query all of the servers.\n",
      "        if self.mode in (MODE_CHECK,):\n            # We want to query all of the servers.\n", "C14.8"),
    M("repair-callback-swaps-servermap", REP, "        d = u.update()\n",
      "        d = u.update()\n        d.addCallback(lambda smap: self.check_results.get_servermap() or smap)\n", "C14.8"),
    M("filenode-repair-skips-mapupdate", NODE, "        d = r.start(force)\n",
      "        d = defer.maybeDeferred(r._got_full_servermap, check_results.get_servermap(), force)\n", "C14.8"),
    M("repair-map-benign-lambda-callback", REP, "        d.addCallback(self._got_full_servermap, force)\n",
      "        d.addCallback(lambda smap: self._got_full_servermap(smap, force))\n", None),
    M("repair-map-benign-keyword-mode", REP,
      "        u = ServermapUpdater(self.node, self._storage_broker, self._monitor,\n                             ServerMap(), MODE_REPAIR)\n"
      "        if self._history:\n            self._history.notify_mapupdate(u.get_status())\n        d = u.update()\n",
      "        updater = ServermapUpdater(self.node, self._storage_broker, self._monitor,\n                                   ServerMap(), mode=MODE_REPAIR)\n"
      "        if self._history:\n            self._history.notify_mapupdate(updater.get_status())\n        d = updater.update()\n", None),
    M("plain-check-in-read-mode", CHK, "class MutableChecker:\n    SERVERMAP_MODE = MODE_CHECK\n", "class MutableChecker:\n    SERVERMAP_MODE = MODE_READ\n",
      "C14.8", edits=[(CHK, "from allmydata.mutable.common import MODE_CHECK, MODE_REPAIR, CorruptShareError",
                       "from allmydata.mutable.common import MODE_CHECK, MODE_READ, MODE_REPAIR, CorruptShareError")]),
    M("plain-check-default-mode", CHK, "                             servermap, self.SERVERMAP_MODE,\n                             add_lease=add_lease)",
      "                             servermap, add_lease=add_lease)", "C14.8"),
    M("check-mode-benign-repair-mode", CHK, "class MutableChecker:\n    SERVERMAP_MODE = MODE_CHECK\n",
      "class MutableChecker:\n    SERVERMAP_MODE = MODE_REPAIR   # also queries every server\n",
      None, edits=[(CHK, "from allmydata.mutable.common import MODE_CHECK, MODE_REPAIR, CorruptShareError",
                    "from allmydata.mutable.common import MODE_CHECK, MODE_REPAIR, CorruptShareError")]),
    # the defect repaired by the fix: commit in /repo (check-and-repair judged health from a bounded MODE_WRITE map)
    M("check-and-repair-in-write-mode", CHK, "    SERVERMAP_MODE = MODE_REPAIR # query all peers, and get the privkey\n",
      "    SERVERMAP_MODE = MODE_WRITE # needed to get the privkey\n", "C14.8",
      edits=[(CHK, "from allmydata.mutable.common import MODE_CHECK, MODE_REPAIR, CorruptShareError",
              "from allmydata.mutable.common import MODE_CHECK, MODE_REPAIR, MODE_WRITE, CorruptShareError")]),
    # ---- gap review: survivors of the mutation sweep
    M("unhealthy-with-single-version", CHK, "        if len(recoverable) > 1:", "        if len(recoverable) >= 1:", "C14.1"),
    M("unhealthy-unless-spare-shares", CHK, "            if s < N:\n                healthy = False",
      "            if s < N + 1:\n                healthy = False", "C14.1"),
    M("summary-says-healthy-when-not", CHK, "        if healthy:\n            summary = \"Healthy\"", "        if not healthy:\n            summary = \"Healthy\"",
      "C14.1"),
    M("good-count-set-never-filled", SM, "            s = set()\n            for (shnum, server, timestamp) in shares:\n                s.add(shnum)\n",
      "            s = set()\n", "C14.1"),
    # the share number counted by shares_available is found by role (component 0 of the per-version share tuples),
    # not by the spelling of the loop local
    M("good-count-benign-shnum-local-renamed", SM,
      "            for (shnum, server, timestamp) in shares:\n                s.add(shnum)\n",
      "            for (shnum_sa, server, timestamp) in shares:\n                s.add(shnum_sa)\n", None),
    M("good-count-benign-share-tuple-indexed", SM,
      "            for (shnum, server, timestamp) in shares:\n                s.add(shnum)\n",
      "            for share in shares:\n                s.add(share[0])\n", None),
    M("good-count-counts-servers", SM,
      "            for (shnum, server, timestamp) in shares:\n                s.add(shnum)\n",
      "            for (shnum, server, timestamp) in shares:\n                s.add(server)\n", "C14.1"),
    M("good-count-counts-servers-named-shnum", SM,      # the spelling does not decide: component 1 is the server
      "            for (shnum, server, timestamp) in shares:\n                s.add(shnum)\n",
      "            for (server, shnum, timestamp) in shares:\n                s.add(shnum)\n", "C14.1"),
    M("health-benign-ge-two", CHK, "        if len(recoverable) > 1:", "        if len(recoverable) >= 2:", None),
    M("health-benign-summary-else-first", CHK,
      "        if healthy:\n            summary = \"Healthy\"\n        else:\n            summary = \"Unhealthy: \" + \" \".join(summary)\n",
      "        if not healthy:\n            summary = \"Unhealthy: \" + \" \".join(summary)\n        else:\n            summary = \"Healthy\"\n", None),
    M("verifier-result-omits-bad-share", "src/allmydata/mutable/retrieve.py",
      "        self.servermap.mark_bad_share(server, shnum, prefix)\n        self._bad_shares.add((server, shnum, f))\n",
      "        self.servermap.mark_bad_share(server, shnum, prefix)\n", "C14.5"),
    M("verifier-result-benign-hoisted-entry", "src/allmydata/mutable/retrieve.py",
      "        self.servermap.mark_bad_share(server, shnum, prefix)\n        self._bad_shares.add((server, shnum, f))\n",
      "        self.servermap.mark_bad_share(server, shnum, prefix)\n        entry = (server, shnum, f)\n        self._bad_shares.add(entry)\n", None),
    M("publish-skips-update-goal", PUB, "        # TODO: Make this part do server selection.\n        self.update_goal()\n",
      "        # TODO: Make this part do server selection.\n", "C14.5"),
    M("publish-update-goal-only-for-an-empty-goal", PUB, "        # TODO: Make this part do server selection.\n        self.update_goal()\n",
      "        # TODO: Make this part do server selection.\n        if not self.goal:\n            self.update_goal()\n", "C14.5"),
    M("publish-benign-update-goal-after-writers-table", PUB,
      "        self.update_goal()\n\n        # shnum -> set of IMutableSlotWriter\n        self.writers = DictOfSets()\n",
      "        # shnum -> set of IMutableSlotWriter\n        self.writers = DictOfSets()\n        self.update_goal()\n", None),
    M("verify-flag-inverted", CHK, "        if verify:\n            d.addCallback(self._verify_all_shares)",
      "        if not verify:\n            d.addCallback(self._verify_all_shares)", "C14.6"),
    M("verify-only-when-leases-added", CHK, "        if verify:\n            d.addCallback(self._verify_all_shares)",
      "        if verify and add_lease:\n            d.addCallback(self._verify_all_shares)", "C14.6"),
    M("verify-skipped-when-there-is-a-best-version", CHK, "        if not self.best_version:\n            return\n\n        r = Retrieve(",
      "        if self.best_version:\n            return\n\n        r = Retrieve(", "C14.6"),
    M("verifier-deferred-not-returned", CHK, "        d.addCallback(self._process_bad_shares)\n        return d\n",
      "        d.addCallback(self._process_bad_shares)\n", "C14.6"),
    M("verifier-bad-shares-dropped", CHK, "        d = r.download()\n        d.addCallback(self._process_bad_shares)\n        return d\n",
      "        d = r.download()\n        return d\n", "C14.6"),
    M("bad-shares-do-not-ask-for-repair", CHK, "        if bad_shares:\n            self.need_repair = True\n        self.bad_shares = bad_shares",
      "        self.bad_shares = bad_shares", "C14.6"),
    M("verify-benign-chained-return", CHK, "        d = r.download()\n        d.addCallback(self._process_bad_shares)\n        return d\n",
      "        return r.download().addCallback(self._process_bad_shares)\n", None),
    M("verify-benign-is-none", CHK, "        if not self.best_version:\n            return\n\n        r = Retrieve(",
      "        if self.best_version is None:\n            return None\n\n        r = Retrieve(", None),
    M("verify-benign-always-verify", CHK, "        if verify:\n            d.addCallback(self._verify_all_shares)",
      "        d.addCallback(self._verify_all_shares)   # always read every share", None),
    M("full-query-modes-inverted", SM, "        if self.mode in (MODE_CHECK, MODE_REPAIR):\n            # We want to query all of the servers.\n",
      "        if self.mode not in (MODE_CHECK, MODE_REPAIR):\n            # We want to query all of the servers.\n", "C14.8"),
    M("full-query-only-for-check-eq", SM, "        if self.mode in (MODE_CHECK, MODE_REPAIR):\n            # We want to query all of the servers.\n",
      "        if self.mode == MODE_CHECK:\n            # We want to query all of the servers.\n", "C14.8"),
    M("full-query-benign-complement-form", SM, "        if self.mode in (MODE_CHECK, MODE_REPAIR):\n            # We want to query all of the servers.\n",
      "        if self.mode not in (MODE_WRITE, MODE_READ, MODE_ANYTHING):\n            # We want to query all of the servers.\n", None),
    M("full-query-benign-or-form", SM, "        if self.mode in (MODE_CHECK, MODE_REPAIR):\n            # We want to query all of the servers.\n",
      "        if self.mode == MODE_CHECK or self.mode == MODE_REPAIR:\n            # We want to query all of the servers.\n", None),
    # the fixed finding (C14.8, MutableCheckAndRepairer): its re-introduction, and the same defect in another subclass
    M("check-and-repair-benign-mode-alias", CHK, "    SERVERMAP_MODE = MODE_REPAIR # query all peers, and get the privkey\n",
      "    FULL_SEARCH = MODE_REPAIR\n    SERVERMAP_MODE = FULL_SEARCH # query all peers, and get the privkey\n", None),
    M("quick-checker-subclass-bounded-search", CHK, "class MutableCheckAndRepairer(MutableChecker):\n",
      "class MutableQuickChecker(MutableChecker):\n    SERVERMAP_MODE = MODE_READ   # cheap check for deep traversals\n\n\n"
      "class MutableCheckAndRepairer(MutableChecker):\n",
      "C14.8", edits=[(CHK, "from allmydata.mutable.common import MODE_CHECK, MODE_REPAIR, CorruptShareError",
                       "from allmydata.mutable.common import MODE_CHECK, MODE_READ, MODE_REPAIR, CorruptShareError")]),
    # ---- C14.9 the version that was asked for is the version that is read
    M("requested-version-falls-back-to-best", NODE,      # the seeded mechanism (C14-C)
      "                v = None\n            elif not v:\n                v = servermap.best_recoverable_version()",
      "                v = None\n            if not v:\n                v = servermap.best_recoverable_version()", "C14.9"),
    M("requested-version-replaced-when-unrecoverable", NODE,
      "            if v and v not in servermap.recoverable_versions():\n                v = None\n            elif not v:\n"
      "                v = servermap.best_recoverable_version()",
      "            if not v or v not in servermap.recoverable_versions():\n                v = servermap.best_recoverable_version()", "C14.9"),
    M("requested-version-always-best", NODE,
      "                v = None\n            elif not v:\n                v = servermap.best_recoverable_version()",
      "                v = None\n            best = servermap.best_recoverable_version()\n            if best:\n                v = best", "C14.9"),
    M("download-version-drops-version", NODE, "        d = self.get_readable_version(servermap, version)\n        return d.addCallback(lambda mfv: mfv.download_to_data(fetch_privkey))",
      "        d = self.get_readable_version(servermap)\n        return d.addCallback(lambda mfv: mfv.download_to_data(fetch_privkey))", "C14.9"),
    M("readable-version-drops-version", NODE, "        d = self._get_version_from_servermap(MODE_READ, servermap, version)",
      "        d = self._get_version_from_servermap(MODE_READ, servermap)", "C14.9"),
    M("selection-not-given-the-request", NODE, "        return d.addCallback(_get_version, version)", "        return d.addCallback(_get_version, None)", "C14.9"),
    M("version-object-built-for-best", NODE, "                                     servermap,\n                                     their_version,\n",
      "                                     servermap,\n                                     servermap.best_recoverable_version(),\n", "C14.9"),
    M("version-object-keeps-best", NODE, "        self._servermap = servermap\n        self._version = version\n",
      "        self._servermap = servermap\n        self._version = servermap.best_recoverable_version() or version\n", "C14.9"),
    M("version-object-reads-best", NODE, "        r = Retrieve(self._node, self._storage_broker, self._servermap,\n                     self._version, fetch_privkey)",
      "        r = Retrieve(self._node, self._storage_broker, self._servermap,\n                     self._servermap.best_recoverable_version(), fetch_privkey)",
      "C14.9"),
    M("requested-benign-nested-ifs", NODE,
      "            if v and v not in servermap.recoverable_versions():\n                v = None\n            elif not v:\n"
      "                v = servermap.best_recoverable_version()\n            if not v:\n                raise UnrecoverableFileError(\"no recoverable versions\")\n",
      "            if v:\n                if v not in servermap.recoverable_versions():\n                    raise UnrecoverableFileError(\"no recoverable versions\")\n"
      "            else:\n                v = servermap.best_recoverable_version()\n                if v is None:\n"
      "                    raise UnrecoverableFileError(\"no recoverable versions\")\n", None),
    M("requested-benign-or-fallback-local", NODE,
      "            if v and v not in servermap.recoverable_versions():\n                v = None\n            elif not v:\n"
      "                v = servermap.best_recoverable_version()\n            if not v:\n                raise UnrecoverableFileError(\"no recoverable versions\")\n"
      "\n            return (servermap, v)",
      "            if v is not None and v not in servermap.recoverable_versions():\n                raise UnrecoverableFileError(\"no recoverable versions\")\n"
      "            chosen = v or servermap.best_recoverable_version()\n            if not chosen:\n"
      "                raise UnrecoverableFileError(\"no recoverable versions\")\n            result = (servermap, chosen)\n            return result", None),
    M("requested-benign-is-none-and-lambda", NODE,
      "            elif not v:\n                v = servermap.best_recoverable_version()",
      "            elif v is None:\n                v = servermap.best_recoverable_version()", None,
      edits=[(NODE, "        return d.addCallback(_get_version, version)", "        d.addCallback(lambda smap: _get_version(smap, version))\n        return d")]),
    M("requested-benign-keyword-and-subscript", NODE, "        d = self.get_readable_version(servermap, version)\n        return d.addCallback(lambda mfv: mfv.download_to_data(fetch_privkey))",
      "        wanted = version\n        d = self.get_readable_version(servermap=servermap, version=wanted)\n"
      "        d.addCallback(lambda mfv: mfv.download_to_data(fetch_privkey))\n        return d", None,
      edits=[(NODE, "            (servermap, their_version) = servermap_and_their_version\n            assert their_version in servermap.recoverable_versions()",
              "            servermap = servermap_and_their_version[0]\n            their_version = servermap_and_their_version[1]\n"
              "            assert their_version in servermap.recoverable_versions()")]),
    M("vanish-get-version-from-servermap", NODE, "    def _get_version_from_servermap(self,", "    def _get_version_from_servermapX(self,", "ANALYSIS-ERROR"),
    # ---- C14.10 in the all-servers modes the mapupdate ends only when every answer is in
    M("check-fast-path-ends-with-queries-outstanding", SM,
      "        if self._must_query:\n            # we are still waiting for responses from servers that used to have\n",
      "        if self.mode == MODE_CHECK and self._queries_outstanding:\n"
      "            recoverable = self._servermap.recoverable_versions()\n"
      "            if (len(recoverable) == 1\n"
      "                and not self._servermap.unrecoverable_versions()\n"
      "                and not self._servermap.get_bad_shares()):\n"
      "                (verinfo,) = recoverable\n"
      "                (num_distinct_shares, k, N) = self._servermap.shares_available()[verinfo]\n"
      "                if num_distinct_shares >= N:\n"
      "                    return self._done()\n"
      "        if self._must_query:\n            # we are still waiting for responses from servers that used to have\n", "C14.10"),
    M("must-query-wait-skipped-for-repair", SM,
      "        if self._must_query:\n            # we are still waiting for responses from servers that used to have\n",
      "        if self._must_query and self.mode != MODE_REPAIR:\n            # we are still waiting for responses from servers that used to have\n",
      "C14.10"),
    M("completion-benign-check-done-when-recoverable-behind-the-wait", SM,
      "        if self.mode == MODE_ANYTHING:\n            if recoverable_versions:\n",
      "        if self.mode in (MODE_ANYTHING, MODE_CHECK):\n            if recoverable_versions:\n", None),
    M("must-query-only-old-share-holders-in-check", SM,
      "            initial_servers_to_query = list(full_serverlist)\n            must_query = set(initial_servers_to_query)\n",
      "            initial_servers_to_query = list(full_serverlist)\n            must_query = set(self._servermap.all_servers())\n", "C14.10"),
    M("update-ended-by-timer", SM,
      "        self._send_initial_requests(initial_servers_to_query)\n        self._status.timings[\"initial_queries\"] = time.time() - self._started\n",
      "        self._send_initial_requests(initial_servers_to_query)\n        eventually(self._done)\n"
      "        self._status.timings[\"initial_queries\"] = time.time() - self._started\n", "C14.10"),
    M("server-retired-when-query-is-sent", SM,
      "        started = time.time()\n        self._queries_outstanding.add(server)\n",
      "        started = time.time()\n        self._must_query.discard(server)\n        self._queries_outstanding.add(server)\n", "C14.10"),
    M("server-retired-before-its-shares-are-processed", SM,
      "        self._status.add_per_server_time(server, \"query\", started, elapsed)\n\n        if datavs:\n",
      "        self._status.add_per_server_time(server, \"query\", started, elapsed)\n        _done_processing()\n\n        if datavs:\n",
      "C14.10"),
    M("completion-benign-len-and-order", SM,
      "        if (not self._queries_outstanding and not self.extra_servers):\n",
      "        nobody_left = not self.extra_servers\n        if (nobody_left and len(self._queries_outstanding) == 0):\n", None),
    M("completion-benign-check-repair-first", SM,
      "        if (not self._queries_outstanding and not self.extra_servers):\n",
      "        if self.mode in (MODE_REPAIR, MODE_CHECK) and not self._queries_outstanding:\n            return self._done()\n"
      "        if (not self._queries_outstanding and not self.extra_servers):\n", None),
    M("vanish-check-for-done", SM, "    def _check_for_done(self, res):", "    def _check_for_doneX(self, res):", "ANALYSIS-ERROR"),
    # ---- vanished anchor
    M("vanish-got-full-servermap", REP, "    def _got_full_servermap(self, smap, force):", "    def _got_full_servermapX(self, smap, force):",
      "ANALYSIS-ERROR"),
]


# ---- C14.11: the ServerMap queries refactored onto a per-version helper / shares_available() (seeded C14-I) ------
_SA_DEF = "    def shares_available(self):\n"
_HELPER = ("    def _shnums_by_version(self):\n"
           "        shnums = {}\n"
           "        for ( (server, shnum), (verinfo, timestamp) ) in self._known_shares.items():\n"
           "            %s\n"
           "        return shnums\n\n")
_OLD_SA = ("        versionmap = self.make_versionmap()\n        all_shares = {}\n        for verinfo, shares in list(versionmap.items()):\n"
           "            s = set()\n            for (shnum, server, timestamp) in shares:\n                s.add(shnum)\n"
           "            (seqnum, root_hash, IV, segsize, datalength, k, N, prefix,\n             offsets_tuple) = verinfo\n"
           "            all_shares[verinfo] = (len(s), k, N)\n        return all_shares\n")
_NEW_SA = ("        all_shares = {}\n        for verinfo, shnums in self._shnums_by_version().items():\n"
           "            (seqnum, root_hash, IV, segsize, datalength, k, N, prefix,\n             offsets_tuple) = verinfo\n"
           "            all_shares[verinfo] = (len(shnums), k, N)\n        return all_shares\n")
_OLD_REC = ("        versionmap = self.make_versionmap()\n        recoverable_versions = set()\n"
            "        for (verinfo, shares) in list(versionmap.items()):\n"
            "            (seqnum, root_hash, IV, segsize, datalength, k, N, prefix,\n             offsets_tuple) = verinfo\n"
            "            shnums = set([shnum for (shnum, server, timestamp) in shares])\n"
            "            if len(shnums) >= k:\n                # this one is recoverable\n                recoverable_versions.add(verinfo)\n\n"
            "        return recoverable_versions\n")
_NEW_REC = ("        return set([verinfo\n                    for (verinfo, (found, k, N))\n"
            "                    in self.shares_available().items()\n                    if found %s k])\n")
_OLD_UNREC = ("        versionmap = self.make_versionmap()\n\n        unrecoverable_versions = set()\n"
              "        for (verinfo, shares) in list(versionmap.items()):\n"
              "            (seqnum, root_hash, IV, segsize, datalength, k, N, prefix,\n             offsets_tuple) = verinfo\n"
              "            shnums = set([shnum for (shnum, server, timestamp) in shares])\n"
              "            if len(shnums) < k:\n                unrecoverable_versions.add(verinfo)\n\n"
              "        return unrecoverable_versions\n")
_OLD_NEWER = ("        versionmap = self.make_versionmap()\n        healths = {} # maps verinfo to (found,k)\n        unrecoverable = set()\n"
              "        highest_recoverable_seqnum = -1\n        for (verinfo, shares) in list(versionmap.items()):\n"
              "            (seqnum, root_hash, IV, segsize, datalength, k, N, prefix,\n             offsets_tuple) = verinfo\n"
              "            shnums = set([shnum for (shnum, server, timestamp) in shares])\n"
              "            healths[verinfo] = (len(shnums),k)\n            if len(shnums) < k:\n                unrecoverable.add(verinfo)\n"
              "            else:\n                highest_recoverable_seqnum = max(seqnum,\n"
              "                                                 highest_recoverable_seqnum)\n\n"
              "        newversions = {}\n        for verinfo in unrecoverable:\n"
              "            (seqnum, root_hash, IV, segsize, datalength, k, N, prefix,\n             offsets_tuple) = verinfo\n"
              "            if seqnum > highest_recoverable_seqnum:\n                newversions[verinfo] = healths[verinfo]\n\n"
              "        return newversions\n")
_NEW_NEWER = ("        available = self.shares_available()\n"
              "        highest_recoverable_seqnum = max([verinfo[0]\n                                          for (verinfo, (found, k, N))\n"
              "                                          in available.items()%s],\n                                         default=-1)\n"
              "        newversions = {} # maps verinfo to (found,k)\n        for (verinfo, (found, k, N)) in available.items():\n"
              "            if found < k and verinfo[0] > highest_recoverable_seqnum:\n                newversions[verinfo] = (found, k)\n"
              "        return newversions\n")
_GE_ONLY = "\n                                          if found >= k"


def _refactor(mid, expect, fill="shnums.setdefault(verinfo, set()).add(shnum)", helper=None, rec_op=">=", bound_filter=_GE_ONLY):
    """The C14-I refactor (helper + shares_available + the three classifiers as comprehensions over shares_available());
    `fill` is how the helper files a share, which is where the seeded slip sits."""
    return M(mid, SM, _SA_DEF, (helper or (_HELPER % fill)) + _SA_DEF, expect, edits=[
        (SM, _OLD_SA, _NEW_SA), (SM, _OLD_REC, _NEW_REC % rec_op), (SM, _OLD_UNREC, _NEW_REC % "<"),
        (SM, _OLD_NEWER, _NEW_NEWER % bound_filter)])


MUTANTS += [
    # the seeded slip: the helper collects the share numbers in a list where every replaced loop built a set
    _refactor("queries-refactored-shnums-in-list", "C14.11", fill="shnums.setdefault(verinfo, []).append(shnum)"),
    # same effect, other edit: a set, but of (shnum, server) placements
    _refactor("queries-refactored-set-of-placements", "C14.11", fill="shnums.setdefault(verinfo, set()).add((shnum, server))"),
    # same effect: the helper is a dict comprehension over the version map that keeps a list per version
    _refactor("queries-refactored-list-comprehension", "C14.11",
              helper="    def _shnums_by_version(self):\n        return {verinfo: [shnum for (shnum, server, timestamp) in shares]\n"
                     "                for (verinfo, shares) in self.make_versionmap().items()}\n\n"),
    # other slips of the same translation
    _refactor("queries-refactored-recoverable-gt", "C14.11", rec_op=">"),
    _refactor("queries-refactored-bound-over-all-versions", "C14.11", bound_filter=""),
    _refactor("queries-refactored-bound-over-unrecoverable", "C14.11", bound_filter="\n                                          if found < k"),
    M("recoverable-comprehension-counts-placements", SM, _OLD_REC,
      "        return set(verinfo for (verinfo, shares) in self.make_versionmap().items() if len(shares) >= verinfo[5])\n", "C14.11"),
    # the same refactor done faithfully
    _refactor("queries-refactored-faithfully", None),
    _refactor("queries-refactored-faithfully-dict-comprehension", None,
              helper="    def _shnums_by_version(self):\n        return {verinfo: set(shnum for (shnum, server, timestamp) in shares)\n"
                     "                for (verinfo, shares) in self.make_versionmap().items()}\n\n"),
    _refactor("queries-refactored-faithfully-defaultdict", None,
              helper="    def _shnums_by_version(self):\n        shnums = defaultdict(set)\n"
                     "        for ( (server, shnum), (verinfo, timestamp) ) in self._known_shares.items():\n"
                     "            shnums[verinfo].add(shnum)\n        return shnums\n\n"),
    M("recoverable-benign-comprehension-over-available", SM, _OLD_REC, _NEW_REC % ">=", None),
    # fail closed: a helper the evaluation cannot follow (a hand-rolled distinct list) is not waved through
    _refactor("queries-refactored-helper-not-followed", "ANALYSIS-ERROR",
              fill="if shnum not in shnums.setdefault(verinfo, []):\n                shnums[verinfo].append(shnum)"),
    M("recoverable-benign-comprehension-over-versionmap", SM, _OLD_REC,
      "        return set(verinfo for (verinfo, shares) in self.make_versionmap().items()\n"
      "                   if len(set(shnum for (shnum, server, timestamp) in shares)) >= verinfo[5])\n", None),
]


# ---- seeded C11-I (another property's refactor, anchored in the same code): all ServerMap queries answered from one
# per-version table _version_health(); best_recoverable_version() = max(.., default=None); unrecoverable_newer_versions() =
# dict((verinfo, (found, k)) for .. if ..); needs_merge as len(set(..)) < len(..); _check_for_done (MODE_READ) asks
# unrecoverable_newer_versions().  `count` is the per-version count of the table (the seeded slip sits there).
_VH_HELPER = ("    def _version_health(self):\n        health = {}\n"
              "        for (verinfo, shares) in self.make_versionmap().items():\n"
              "            (seqnum, root_hash, IV, segsize, datalength, k, N, prefix,\n             offsets_tuple) = verinfo\n"
              "%s        return health\n\n")
_VH_FAITHFUL = ("            shnums = set([shnum for (shnum, server, timestamp) in shares])\n"
                "            health[verinfo] = (len(shnums), k, N)\n")
_VH_SLIP = "            health[verinfo] = (len(shares), k, N)\n"
_VH_CLASS = ("        return set(verinfo\n                   for (verinfo, (found, k, N))\n"
             "                   in self._version_health().items()\n                   if found %s k)\n")
_VH_BEST = "        return max(self.recoverable_versions(), default=None)\n"
_VH_NEWER = ("        health = self._version_health()\n        highest_recoverable_seqnum = max(\n            [verinfo[0]\n"
             "             for (verinfo, (found, k, N)) in health.items()\n             if found >= k],\n            default=-1)\n"
             "        return dict((verinfo, (found, k))\n                    for (verinfo, (found, k, N)) in health.items()\n"
             "                    if found < k and verinfo[0] > highest_recoverable_seqnum)\n")
_VH_EDITS = [
    (_OLD_SA, "        return self._version_health()\n"),
    ("        available = self.shares_available()\n        seqnums = [verinfo[0]\n                   for verinfo in available.keys()]\n"
     "        seqnums.append(0)\n        return max(seqnums)\n",
     "        return max([verinfo[0] for verinfo in self._version_health()],\n                   default=0)\n"),
    (_OLD_REC, _VH_CLASS % ">="),
    (_OLD_UNREC, _VH_CLASS % "<"),
    ("        recoverable = list(self.recoverable_versions())\n        recoverable.sort()\n        if recoverable:\n"
     "            return recoverable[-1]\n        return None\n", _VH_BEST),
    (_OLD_NEWER, _VH_NEWER),
    ("        for seqnum in recoverable_seqnums:\n            if recoverable_seqnums.count(seqnum) > 1:\n                return True\n"
     "        return False\n", "        return len(set(recoverable_seqnums)) < len(recoverable_seqnums)\n"),
    ("        recoverable_versions = self._servermap.recoverable_versions()\n"
     "        unrecoverable_versions = self._servermap.unrecoverable_versions()\n",
     "        recoverable_versions = self._servermap.recoverable_versions()\n"),
    ("            highest_recoverable = max(recoverable_versions)\n            highest_recoverable_seqnum = highest_recoverable[0]\n"
     "            for unrec_verinfo in unrecoverable_versions:\n                if unrec_verinfo[0] > highest_recoverable_seqnum:\n",
     "            if True:\n                if self._servermap.unrecoverable_newer_versions():\n"),
]


def _vh_refactor(mid, expect, count=_VH_FAITHFUL, swaps=()):
    helper = _VH_HELPER % count
    edits = []
    used = set()
    for (old, new) in _VH_EDITS:
        for (a, b) in swaps:
            if a in new:
                new = new.replace(a, b)
                used.add(a)
        edits.append((SM, old, new))
    assert used == {a for (a, _b) in swaps}, mid
    return M(mid, SM, _SA_DEF, helper + _SA_DEF, expect, edits=edits)


MUTANTS += [
    # the refactor done faithfully (the table counts distinct share numbers): every C14 rule stays silent
    _vh_refactor("version-health-refactor-faithful", None),
    _vh_refactor("version-health-refactor-faithful-guarded-max", None,
                 swaps=[(_VH_BEST, "        recoverable = self.recoverable_versions()\n        if not recoverable:\n            return None\n"
                                   "        return max(recoverable)\n")]),
    # the seeded slip breaks this property too: the table counts (shnum, server, timestamp) placements
    _vh_refactor("version-health-refactor-counts-placements", "C14.11", count=_VH_SLIP),
    # real breakages of this property in the refactored shape
    _vh_refactor("version-health-refactor-best-is-min", "C14.4",
                 swaps=[("return max(self.recoverable_versions(), default=None)", "return min(self.recoverable_versions(), default=None)")]),
    _vh_refactor("version-health-refactor-best-among-unrecoverable", "C14.4",
                 swaps=[("return max(self.recoverable_versions(), default=None)", "return max(self.unrecoverable_versions(), default=None)")]),
    _vh_refactor("version-health-refactor-best-defaults-to-a-version-like-tuple", "C14.4",
                 swaps=[("return max(self.recoverable_versions(), default=None)", "return max(self.recoverable_versions(), default=(0,))")]),
    _vh_refactor("version-health-refactor-best-by-datalength", "C14.4",
                 swaps=[("return max(self.recoverable_versions(), default=None)",
                         "return max(self.recoverable_versions(), default=None, key=lambda v: v[4])")]),
    _vh_refactor("version-health-refactor-newer-keeps-recoverable-ones", "C14.11",
                 swaps=[("                    if found < k and verinfo[0] > highest_recoverable_seqnum)",
                         "                    if found >= k and verinfo[0] > highest_recoverable_seqnum)")]),
    _vh_refactor("version-health-refactor-newer-bound-over-all-versions", "C14.11",
                 swaps=[("             for (verinfo, (found, k, N)) in health.items()\n             if found >= k],\n",
                         "             for (verinfo, (found, k, N)) in health.items()],\n")]),
    # fail closed: a falsy non-None answer for "nothing recoverable" is not decided
    _vh_refactor("version-health-refactor-best-defaults-to-empty-tuple", "ANALYSIS-ERROR",
                 swaps=[("return max(self.recoverable_versions(), default=None)", "return max(self.recoverable_versions(), default=())")]),
]
