from .runner import M

CHK = "src/allmydata/mutable/checker.py"
REP = "src/allmydata/mutable/repairer.py"
SM = "src/allmydata/mutable/servermap.py"
PUB = "src/allmydata/mutable/publish.py"
NODE = "src/allmydata/mutable/filenode.py"

MUTANTS = [
    # ---- C14.1 health verdict
    M("healthy-ignores-unrecoverable", CHK,
      "        if smap.unrecoverable_versions():\n            healthy = False\n            summary.append(\"some versions are unrecoverable\")",
      "        if smap.unrecoverable_versions():\n            summary.append(\"some versions are unrecoverable\")", "C14.1"),
    M("healthy-with-two-recoverable", CHK, "        if len(recoverable) > 1:", "        if len(recoverable) > 2:", "C14.1"),
    M("healthy-multiple-check-dropped", CHK,
      "        if len(recoverable) > 1:\n            healthy = False\n", "        if len(recoverable) > 1:\n", "C14.1"),
    M("healthy-when-k-shares", CHK, "            if s < N:\n                healthy = False",
      "            if s < k:\n                healthy = False", "C14.1"),
    M("healthy-share-check-le", CHK, "            if s < N:\n                healthy = False",
      "            if s <= N:\n                healthy = False", "C14.1"),
    M("unhealthy-unconditionally-in-best-branch", CHK,
      "            N = counters[\"count-shares-expected\"]\n            if s < N:\n",
      "            N = counters[\"count-shares-expected\"]\n            if k < N:\n                healthy = False\n            if s < N:\n", "C14.1"),
    M("good-shares-not-distinct", SM, "            all_shares[verinfo] = (len(s), k, N)",
      "            all_shares[verinfo] = (len(shares), k, N)", "C14.1"),
    M("good-count-is-host-count", CHK, "        counters[\"count-shares-good\"] = num_distinct_shares\n",
      "        counters[\"count-shares-good\"] = len(smap.all_servers_for_version(version))\n", "C14.1"),
    M("health-benign-not-recoverable", CHK, "        if len(recoverable) == 0:\n            healthy = False",
      "        if not recoverable:\n            healthy = False", None),
    M("health-benign-ge-form", CHK, "            if s < N:\n                healthy = False",
      "            if not (s >= N):\n                healthy = False", None),
    M("health-benign-local-for-unrecoverable", CHK,
      "        if smap.unrecoverable_versions():\n            healthy = False", "        if unrecoverable:\n            healthy = False", None),
    M("health-benign-reorder-checks", CHK,
      "        if smap.unrecoverable_versions():\n            healthy = False\n            summary.append(\"some versions are unrecoverable\")\n"
      "            report.append(\"Unhealthy: some versions are unrecoverable\")\n"
      "        if len(recoverable) == 0:\n            healthy = False\n            summary.append(\"no versions are recoverable\")\n"
      "            report.append(\"Unhealthy: no versions are recoverable\")\n",
      "        if len(recoverable) == 0:\n            healthy = False\n            summary.append(\"no versions are recoverable\")\n"
      "            report.append(\"Unhealthy: no versions are recoverable\")\n"
      "        if smap.unrecoverable_versions():\n            healthy = False\n            summary.append(\"some versions are unrecoverable\")\n"
      "            report.append(\"Unhealthy: some versions are unrecoverable\")\n", None),
    # ---- C14.2 need_repair
    M("no-repair-for-unrecoverable", CHK,
      "        if servermap.unrecoverable_versions():\n            self.need_repair = True\n", "", "C14.2"),
    M("no-repair-for-competing-versions", CHK, "        if num_recoverable != 1:", "        if num_recoverable < 1:", "C14.2"),
    M("no-repair-when-k-shares", CHK, "            if num_distinct_shares < N:", "            if num_distinct_shares < k:", "C14.2"),
    M("check-and-repair-forces", CHK, "        d = self._node.repair(pre_repair_results, monitor=self._monitor)",
      "        d = self._node.repair(pre_repair_results, force=True, monitor=self._monitor)", "C14.2"),
    M("repair-skipped-when-needed", CHK, "        if not self.need_repair:\n            crr.post_repair_results = pre_repair_results\n            return\n",
      "        if not self.need_repair or pre_repair_results.is_recoverable():\n            crr.post_repair_results = pre_repair_results\n            return\n",
      "C14.2"),
    M("need-repair-benign-eq", CHK, "        if num_recoverable != 1:", "        if not (num_recoverable == 1):", None),
    # ---- C14.3 refusal gates
    M("newer-gate-wrong-predicate", REP, "        if smap.unrecoverable_newer_versions():\n            if not force:",
      "        if smap.unrecoverable_versions() and not smap.recoverable_versions():\n            if not force:", "C14.3"),
    M("merge-gate-inverted", REP, "        if smap.needs_merge():\n            if not force:", "        if smap.needs_merge():\n            if force:", "C14.3"),
    M("merge-gate-only-logged", REP,
      "        if smap.needs_merge():\n            if not force:\n                raise MustForceRepairError(\"There were multiple recoverable \"",
      "        if smap.needs_merge():\n            if not force:\n                print(\"There were multiple recoverable \"", "C14.3"),
    M("force-defaults-true", NODE, "    def repair(self, check_results, force=False, monitor=None):",
      "    def repair(self, check_results, force=True, monitor=None):", "C14.3"),
    M("gate-benign-writekey-check-left-to-publish", REP,
      "        if not self.node.get_writekey():\n            raise RepairRequiresWritecapError(\"Sorry, repair currently requires a writecap, to set the write-enabler properly.\")\n",
      "", None),
    M("force-always-passed", NODE, "        d = r.start(force)", "        d = r.start(True)", "C14.3"),
    M("best-gate-dropped", REP,
      "        if not best_version:\n            # the file is damaged beyond repair\n            rr = RepairResults(smap)\n"
      "            rr.set_successful(False)\n            return defer.succeed(rr)\n", "", "C14.3"),
    M("gate-benign-is-none", REP, "        if not best_version:\n            # the file is damaged beyond repair",
      "        if best_version is None:\n            # the file is damaged beyond repair", None),
    M("gate-benign-merged-conditions", REP,
      "        if smap.needs_merge():\n            if not force:\n                raise MustForceRepairError(\"There were multiple recoverable \"",
      "        if smap.needs_merge() and not force:\n                raise MustForceRepairError(\"There were multiple recoverable \"", None),
    # ---- C14.4 what is republished
    M("repair-republishes-oldest", REP, "        d = self.node.download_version(smap, best_version, fetch_privkey=True)",
      "        d = self.node.download_version(smap, sorted(smap.recoverable_versions())[0], fetch_privkey=True)", "C14.4"),
    M("repair-overwrites-with-own-map", REP, "        d.addCallback(self.node.upload, smap)", "        d.addCallback(self.node.overwrite)", "C14.4"),
    M("repair-uploads-into-fresh-map", REP, "        d.addCallback(self.node.upload, smap)", "        d.addCallback(self.node.upload, ServerMap())", "C14.4"),
    M("best-version-is-smallest", SM, "        if recoverable:\n            return recoverable[-1]", "        if recoverable:\n            return recoverable[0]", "C14.4"),
    M("best-version-unsorted", SM, "        recoverable = list(self.recoverable_versions())\n        recoverable.sort()\n",
      "        recoverable = list(self.recoverable_versions())\n", "C14.4"),
    M("best-version-benign-max", SM, "        if recoverable:\n            return recoverable[-1]", "        if recoverable:\n            return max(recoverable)", None),
    # ---- C14.5 bad shares
    M("bad-shares-not-in-goal", PUB, "            self.goal.add( (server,shnum) )\n", "", "C14.5"),
    M("bad-checkstring-not-recorded", PUB, "            self.bad_share_checkstrings[(server,shnum)] = old_checkstring\n",
      "            self.log(\"will replace bad share %d\" % shnum)\n", "C14.5"),
    M("goal-reset-after-bad-shares", PUB, "            self.bad_share_checkstrings[(server,shnum)] = old_checkstring\n",
      "            self.bad_share_checkstrings[(server,shnum)] = old_checkstring\n        self.goal = set(self._servermap.get_known_shares())\n",
      "C14.5"),
    M("writer-ignores-old-checkstring", PUB,
      "            elif (server, shnum) in self.bad_share_checkstrings:\n"
      "                old_checkstring = self.bad_share_checkstrings[(server, shnum)]\n"
      "                writer.set_checkstring(old_checkstring)\n", "", "C14.5"),
    M("bad-share-still-known", SM, "        self._known_shares.pop(key, None)\n", "", "C14.5"),
    M("bad-share-benign-key", PUB, "            self.goal.add( (server,shnum) )\n", "            self.goal.add(key)\n", None),
    # ---- C14.6 verdict after verification
    M("verdict-before-verify", CHK,
      "        if verify:\n            d.addCallback(self._verify_all_shares)\n        d.addCallback(lambda res: servermap)\n"
      "        d.addCallback(self._make_checker_results)\n",
      "        d.addCallback(lambda res: servermap)\n        d.addCallback(self._make_checker_results)\n"
      "        if verify:\n            d.addCallback(lambda cr: self._verify_all_shares(servermap).addCallback(lambda ign: cr))\n", "C14.6"),
    M("verifier-marks-a-copy", CHK, "        r = Retrieve(self._node, self._storage_broker, servermap,\n                     self.best_version, verify=True)",
      "        r = Retrieve(self._node, self._storage_broker, servermap.copy(),\n                     self.best_version, verify=True)", "C14.6"),
    # ---- C14.7 version classification in the servermap
    M("newer-counts-share-instances", SM,       # seeded C14-A
      "            shnums = set([shnum for (shnum, server, timestamp) in shares])\n            healths[verinfo] = (len(shnums),k)\n"
      "            if len(shnums) < k:\n",
      "            healths[verinfo] = (len(shares), k)\n            if len(shares) < k:\n", "C14.7"),
    M("newer-counts-shnum-list", SM,            # same effect: duplicates are kept because a list is counted
      "            shnums = set([shnum for (shnum, server, timestamp) in shares])\n            healths[verinfo] = (len(shnums),k)\n",
      "            shnums = [shnum for (shnum, server, timestamp) in shares]\n            healths[verinfo] = (len(shnums),k)\n", "C14.7"),
    M("newer-counts-servers", SM,
      "            shnums = set([shnum for (shnum, server, timestamp) in shares])\n            healths[verinfo] = (len(shnums),k)\n",
      "            shnums = set([server for (shnum, server, timestamp) in shares])\n            healths[verinfo] = (len(shnums),k)\n", "C14.7"),
    M("recoverable-counts-share-instances", SM,
      "            shnums = set([shnum for (shnum, server, timestamp) in shares])\n            if len(shnums) >= k:\n",
      "            if len(shares) >= k:\n", "C14.7"),
    M("recoverable-needs-more-than-k", SM, "            if len(shnums) >= k:\n", "            if len(shnums) > k:\n", "C14.7"),
    M("unrecoverable-includes-exactly-k", SM, "            if len(shnums) < k:\n                unrecoverable_versions.add(verinfo)",
      "            if len(shnums) <= k:\n                unrecoverable_versions.add(verinfo)", "C14.7"),
    M("unrecoverable-compares-with-N", SM, "            if len(shnums) < k:\n                unrecoverable_versions.add(verinfo)",
      "            if len(shnums) < N:\n                unrecoverable_versions.add(verinfo)", "C14.7"),
    M("newer-needs-gap-of-two", SM, "            if seqnum > highest_recoverable_seqnum:\n                newversions[verinfo]",
      "            if seqnum > highest_recoverable_seqnum + 1:\n                newversions[verinfo]", "C14.7"),
    M("highest-seqnum-raised-by-every-version", SM,
      "                unrecoverable.add(verinfo)\n            else:\n                highest_recoverable_seqnum = max(seqnum,\n"
      "                                                 highest_recoverable_seqnum)\n",
      "                unrecoverable.add(verinfo)\n            highest_recoverable_seqnum = max(seqnum,\n"
      "                                             highest_recoverable_seqnum)\n", "C14.7"),
    M("highest-seqnum-starts-at-highest", SM, "        highest_recoverable_seqnum = -1\n",
      "        highest_recoverable_seqnum = self.highest_seqnum()\n", "C14.7"),
    M("merge-needs-three-heads", SM, "            if recoverable_seqnums.count(seqnum) > 1:", "            if recoverable_seqnums.count(seqnum) > 2:", "C14.7"),
    M("merge-answers-after-first-seqnum", SM,
      "            if recoverable_seqnums.count(seqnum) > 1:\n                return True\n        return False",
      "            if recoverable_seqnums.count(seqnum) > 1:\n                return True\n            return False\n        return False", "C14.7"),
    M("merge-looks-at-unrecoverable", SM, "                               for verinfo in self.recoverable_versions()]",
      "                               for verinfo in self.unrecoverable_versions()]", "C14.7"),
    M("versionmap-tuple-server-first", SM, "            versionmap.add(verinfo, (shnum, server, timestamp))",
      "            versionmap.add(verinfo, (server, shnum, timestamp))", "C14.7"),
    M("classify-benign-set-comprehension", SM,
      "            shnums = set([shnum for (shnum, server, timestamp) in shares])\n            healths[verinfo] = (len(shnums),k)\n",
      "            shnums = {sh for (sh, _srv, _ts) in shares}\n            healths[verinfo] = (len(shnums),k)\n", None),
    M("classify-benign-hoisted-count", SM,
      "            shnums = set([shnum for (shnum, server, timestamp) in shares])\n            if len(shnums) >= k:\n",
      "            shnums = set([shnum for (shnum, server, timestamp) in shares])\n            found = len(shnums)\n            if not found < k:\n", None),
    M("classify-benign-set-built-in-loop", SM,
      "            shnums = set([shnum for (shnum, server, timestamp) in shares])\n            if len(shnums) < k:\n                unrecoverable_versions.add(verinfo)",
      "            shnums = set()\n            for (shnum, server, timestamp) in shares:\n                shnums.add(shnum)\n"
      "            if len(shnums) < k:\n                unrecoverable_versions.add(verinfo)", None),
    M("classify-benign-conditional-raise", SM,
      "                highest_recoverable_seqnum = max(seqnum,\n                                                 highest_recoverable_seqnum)\n",
      "                if seqnum > highest_recoverable_seqnum:\n                    highest_recoverable_seqnum = seqnum\n", None),
    M("classify-benign-merge-closed-form", SM,
      "        for seqnum in recoverable_seqnums:\n            if recoverable_seqnums.count(seqnum) > 1:\n                return True\n        return False",
      "        return len(set(recoverable_seqnums)) != len(recoverable_seqnums)", None),
    M("classify-benign-versionmap-key", SM,
      "        for ( (server, shnum), (verinfo, timestamp) ) in list(self._known_shares.items()):\n            versionmap.add(verinfo, (shnum, server, timestamp))",
      "        for (key, (verinfo, timestamp)) in list(self._known_shares.items()):\n            versionmap.add(verinfo, (key[1], key[0], timestamp))", None),
    M("classify-benign-newer-continue", SM,
      "            if seqnum > highest_recoverable_seqnum:\n                newversions[verinfo] = healths[verinfo]\n",
      "            if seqnum <= highest_recoverable_seqnum:\n                continue\n            newversions[verinfo] = healths[verinfo]\n", None),
    # ---- C14.8 the servermap the repair decides on
    M("repair-reuses-check-servermap", REP,     # seeded C14-B
      "        u = ServermapUpdater(self.node, self._storage_broker, self._monitor,\n                             ServerMap(), MODE_REPAIR)\n",
      "        smap = self.check_results.get_servermap()\n        if smap is not None and self.node.get_privkey():\n"
      "            return defer.maybeDeferred(self._got_full_servermap, smap, force)\n"
      "        u = ServermapUpdater(self.node, self._storage_broker, self._monitor,\n                             ServerMap(), MODE_REPAIR)\n", "C14.8"),
    M("repair-chain-starts-from-check-servermap", REP, "        d = u.update()\n",
      "        d = defer.succeed(self.check_results.get_servermap())\n", "C14.8"),
    M("repair-mapupdate-in-write-mode", REP, "                             ServerMap(), MODE_REPAIR)\n", "                             ServerMap(), MODE_WRITE)\n",
      "C14.8", edits=[(REP, "from allmydata.mutable.common import MODE_REPAIR\n", "from allmydata.mutable.common import MODE_REPAIR, MODE_WRITE\n")]),
    M("repair-mode-stops-at-boundary", SM, "        if self.mode in (MODE_CHECK, MODE_REPAIR):\n            # We want to query all of the servers.\n",
      "        if self.mode in (MODE_CHECK,):\n            # We want to query all of the servers.\n", "C14.8"),
    M("repair-callback-swaps-servermap", REP, "        d = u.update()\n",
      "        d = u.update()\n        d.addCallback(lambda smap: self.check_results.get_servermap() or smap)\n", "C14.8"),
    M("filenode-repair-skips-mapupdate", NODE, "        d = r.start(force)\n",
      "        d = defer.maybeDeferred(r._got_full_servermap, check_results.get_servermap(), force)\n", "C14.8"),
    M("repair-map-benign-lambda-callback", REP, "        d.addCallback(self._got_full_servermap, force)\n",
      "        d.addCallback(lambda smap: self._got_full_servermap(smap, force))\n", None),
    M("repair-map-benign-keyword-mode", REP,
      "        u = ServermapUpdater(self.node, self._storage_broker, self._monitor,\n                             ServerMap(), MODE_REPAIR)\n"
      "        if self._history:\n            self._history.notify_mapupdate(u.get_status())\n        d = u.update()\n",
      "        updater = ServermapUpdater(self.node, self._storage_broker, self._monitor,\n                                   ServerMap(), mode=MODE_REPAIR)\n"
      "        if self._history:\n            self._history.notify_mapupdate(updater.get_status())\n        d = updater.update()\n", None),
    M("plain-check-in-read-mode", CHK, "class MutableChecker:\n    SERVERMAP_MODE = MODE_CHECK\n", "class MutableChecker:\n    SERVERMAP_MODE = MODE_READ\n",
      "C14.8", edits=[(CHK, "from allmydata.mutable.common import MODE_CHECK, MODE_WRITE, CorruptShareError",
                       "from allmydata.mutable.common import MODE_CHECK, MODE_READ, MODE_WRITE, CorruptShareError")]),
    M("plain-check-default-mode", CHK, "                             servermap, self.SERVERMAP_MODE,\n                             add_lease=add_lease)",
      "                             servermap, add_lease=add_lease)", "C14.8"),
    M("check-mode-benign-repair-mode", CHK, "class MutableChecker:\n    SERVERMAP_MODE = MODE_CHECK\n",
      "class MutableChecker:\n    SERVERMAP_MODE = MODE_REPAIR   # also queries every server\n",
      None, edits=[(CHK, "from allmydata.mutable.common import MODE_CHECK, MODE_WRITE, CorruptShareError",
                    "from allmydata.mutable.common import MODE_CHECK, MODE_REPAIR, MODE_WRITE, CorruptShareError")]),
    # ---- vanished anchor
    M("vanish-got-full-servermap", REP, "    def _got_full_servermap(self, smap, force):", "    def _got_full_servermapX(self, smap, force):",
      "ANALYSIS-ERROR"),
]
