from .runner import M

CHK = "src/allmydata/mutable/checker.py"
REP = "src/allmydata/mutable/repairer.py"
SM = "src/allmydata/mutable/servermap.py"
PUB = "src/allmydata/mutable/publish.py"
NODE = "src/allmydata/mutable/filenode.py"

MUTANTS = [
    # ---- C14.1 health verdict
    M("healthy-ignores-unrecoverable", CHK,
      "        if smap.unrecoverable_versions():\n            healthy = False\n            summary.append(\"some versions are unrecoverable\")",
      "        if smap.unrecoverable_versions():\n            summary.append(\"some versions are unrecoverable\")", "C14.1"),
    M("healthy-with-two-recoverable", CHK, "        if len(recoverable) > 1:", "        if len(recoverable) > 2:", "C14.1"),
    M("healthy-multiple-check-dropped", CHK,
      "        if len(recoverable) > 1:\n            healthy = False\n", "        if len(recoverable) > 1:\n", "C14.1"),
    M("healthy-when-k-shares", CHK, "            if s < N:\n                healthy = False",
      "            if s < k:\n                healthy = False", "C14.1"),
    M("healthy-share-check-le", CHK, "            if s < N:\n                healthy = False",
      "            if s <= N:\n                healthy = False", "C14.1"),
    M("unhealthy-unconditionally-in-best-branch", CHK,
      "            N = counters[\"count-shares-expected\"]\n            if s < N:\n",
      "            N = counters[\"count-shares-expected\"]\n            if k < N:\n                healthy = False\n            if s < N:\n", "C14.1"),
    M("good-shares-not-distinct", SM, "            all_shares[verinfo] = (len(s), k, N)",
      "            all_shares[verinfo] = (len(shares), k, N)", "C14.1"),
    M("good-count-is-host-count", CHK, "        counters[\"count-shares-good\"] = num_distinct_shares\n",
      "        counters[\"count-shares-good\"] = len(smap.all_servers_for_version(version))\n", "C14.1"),
    M("health-benign-not-recoverable", CHK, "        if len(recoverable) == 0:\n            healthy = False",
      "        if not recoverable:\n            healthy = False", None),
    M("health-benign-ge-form", CHK, "            if s < N:\n                healthy = False",
      "            if not (s >= N):\n                healthy = False", None),
    M("health-benign-local-for-unrecoverable", CHK,
      "        if smap.unrecoverable_versions():\n            healthy = False", "        if unrecoverable:\n            healthy = False", None),
    M("health-benign-reorder-checks", CHK,
      "        if smap.unrecoverable_versions():\n            healthy = False\n            summary.append(\"some versions are unrecoverable\")\n"
      "            report.append(\"Unhealthy: some versions are unrecoverable\")\n"
      "        if len(recoverable) == 0:\n            healthy = False\n            summary.append(\"no versions are recoverable\")\n"
      "            report.append(\"Unhealthy: no versions are recoverable\")\n",
      "        if len(recoverable) == 0:\n            healthy = False\n            summary.append(\"no versions are recoverable\")\n"
      "            report.append(\"Unhealthy: no versions are recoverable\")\n"
      "        if smap.unrecoverable_versions():\n            healthy = False\n            summary.append(\"some versions are unrecoverable\")\n"
      "            report.append(\"Unhealthy: some versions are unrecoverable\")\n", None),
    # ---- C14.2 need_repair
    M("no-repair-for-unrecoverable", CHK,
      "        if servermap.unrecoverable_versions():\n            self.need_repair = True\n", "", "C14.2"),
    M("no-repair-for-competing-versions", CHK, "        if num_recoverable != 1:", "        if num_recoverable < 1:", "C14.2"),
    M("no-repair-when-k-shares", CHK, "            if num_distinct_shares < N:", "            if num_distinct_shares < k:", "C14.2"),
    M("check-and-repair-forces", CHK, "        d = self._node.repair(pre_repair_results, monitor=self._monitor)",
      "        d = self._node.repair(pre_repair_results, force=True, monitor=self._monitor)", "C14.2"),
    M("repair-skipped-when-needed", CHK, "        if not self.need_repair:\n            crr.post_repair_results = pre_repair_results\n            return\n",
      "        if not self.need_repair or pre_repair_results.is_recoverable():\n            crr.post_repair_results = pre_repair_results\n            return\n",
      "C14.2"),
    M("need-repair-benign-eq", CHK, "        if num_recoverable != 1:", "        if not (num_recoverable == 1):", None),
    # ---- C14.3 refusal gates
    M("newer-gate-wrong-predicate", REP, "        if smap.unrecoverable_newer_versions():\n            if not force:",
      "        if smap.unrecoverable_versions() and not smap.recoverable_versions():\n            if not force:", "C14.3"),
    M("merge-gate-inverted", REP, "        if smap.needs_merge():\n            if not force:", "        if smap.needs_merge():\n            if force:", "C14.3"),
    M("merge-gate-only-logged", REP,
      "        if smap.needs_merge():\n            if not force:\n                raise MustForceRepairError(\"There were multiple recoverable \"",
      "        if smap.needs_merge():\n            if not force:\n                print(\"There were multiple recoverable \"", "C14.3"),
    M("force-defaults-true", NODE, "    def repair(self, check_results, force=False, monitor=None):",
      "    def repair(self, check_results, force=True, monitor=None):", "C14.3"),
    M("gate-benign-writekey-check-left-to-publish", REP,
      "        if not self.node.get_writekey():\n            raise RepairRequiresWritecapError(\"Sorry, repair currently requires a writecap, to set the write-enabler properly.\")\n",
      "", None),
    M("force-always-passed", NODE, "        d = r.start(force)", "        d = r.start(True)", "C14.3"),
    M("best-gate-dropped", REP,
      "        if not best_version:\n            # the file is damaged beyond repair\n            rr = RepairResults(smap)\n"
      "            rr.set_successful(False)\n            return defer.succeed(rr)\n", "", "C14.3"),
    M("gate-benign-is-none", REP, "        if not best_version:\n            # the file is damaged beyond repair",
      "        if best_version is None:\n            # the file is damaged beyond repair", None),
    M("gate-benign-merged-conditions", REP,
      "        if smap.needs_merge():\n            if not force:\n                raise MustForceRepairError(\"There were multiple recoverable \"",
      "        if smap.needs_merge() and not force:\n                raise MustForceRepairError(\"There were multiple recoverable \"", None),
    # ---- C14.4 what is republished
    M("repair-republishes-oldest", REP, "        d = self.node.download_version(smap, best_version, fetch_privkey=True)",
      "        d = self.node.download_version(smap, sorted(smap.recoverable_versions())[0], fetch_privkey=True)", "C14.4"),
    M("repair-overwrites-with-own-map", REP, "        d.addCallback(self.node.upload, smap)", "        d.addCallback(self.node.overwrite)", "C14.4"),
    M("repair-uploads-into-fresh-map", REP, "        d.addCallback(self.node.upload, smap)", "        d.addCallback(self.node.upload, ServerMap())", "C14.4"),
    M("best-version-is-smallest", SM, "        if recoverable:\n            return recoverable[-1]", "        if recoverable:\n            return recoverable[0]", "C14.4"),
    M("best-version-unsorted", SM, "        recoverable = list(self.recoverable_versions())\n        recoverable.sort()\n",
      "        recoverable = list(self.recoverable_versions())\n", "C14.4"),
    M("best-version-benign-max", SM, "        if recoverable:\n            return recoverable[-1]", "        if recoverable:\n            return max(recoverable)", None),
    # ---- C14.5 bad shares
    M("bad-shares-not-in-goal", PUB, "            self.goal.add( (server,shnum) )\n", "", "C14.5"),
    M("bad-checkstring-not-recorded", PUB, "            self.bad_share_checkstrings[(server,shnum)] = old_checkstring\n",
      "            self.log(\"will replace bad share %d\" % shnum)\n", "C14.5"),
    M("goal-reset-after-bad-shares", PUB, "            self.bad_share_checkstrings[(server,shnum)] = old_checkstring\n",
      "            self.bad_share_checkstrings[(server,shnum)] = old_checkstring\n        self.goal = set(self._servermap.get_known_shares())\n",
      "C14.5"),
    M("writer-ignores-old-checkstring", PUB,
      "            elif (server, shnum) in self.bad_share_checkstrings:\n"
      "                old_checkstring = self.bad_share_checkstrings[(server, shnum)]\n"
      "                writer.set_checkstring(old_checkstring)\n", "", "C14.5"),
    M("bad-share-still-known", SM, "        self._known_shares.pop(key, None)\n", "", "C14.5"),
    M("bad-share-benign-key", PUB, "            self.goal.add( (server,shnum) )\n", "            self.goal.add(key)\n", None),
    # ---- C14.6 verdict after verification
    M("verdict-before-verify", CHK,
      "        if verify:\n            d.addCallback(self._verify_all_shares)\n        d.addCallback(lambda res: servermap)\n"
      "        d.addCallback(self._make_checker_results)\n",
      "        d.addCallback(lambda res: servermap)\n        d.addCallback(self._make_checker_results)\n"
      "        if verify:\n            d.addCallback(lambda cr: self._verify_all_shares(servermap).addCallback(lambda ign: cr))\n", "C14.6"),
    M("verifier-marks-a-copy", CHK, "        r = Retrieve(self._node, self._storage_broker, servermap,\n                     self.best_version, verify=True)",
      "        r = Retrieve(self._node, self._storage_broker, servermap.copy(),\n                     self.best_version, verify=True)", "C14.6"),
    # ---- vanished anchor
    M("vanish-got-full-servermap", REP, "    def _got_full_servermap(self, smap, force):", "    def _got_full_servermapX(self, smap, force):",
      "ANALYSIS-ERROR"),
]
