from .runner import M

U = "src/allmydata/uri.py"

# distinguishing snippets (each occurs once in uri.py)
LIT_INIT = ("        mo = cls.STRING_RE.search(uri)\n        if not mo:\n"
            "            raise BadURIError(\"'%s' doesn't look like a %s cap\" % (uri, cls))\n"
            "        return cls(base32.a2b(mo.group(1)))")
MDMFV_OLD = (
    "    def __init__(self, storage_index, fingerprint):\n"
    "        assert len(storage_index) == 16\n"
    "        self.storage_index = storage_index\n"
    "        self.fingerprint = fingerprint\n\n"
    "    @classmethod\n"
    "    def init_from_string(cls, uri):\n"
    "        mo = cls.STRING_RE.search(uri)\n"
    "        if not mo:\n"
    "            raise BadURIError(\"%r doesn't look like a %s cap\" % (uri, cls))\n"
    "        return cls(si_a2b(mo.group(1)), base32.a2b(mo.group(2)))\n\n"
    "    def to_string(self):\n"
    "        assert isinstance(self.storage_index, bytes)\n"
    "        assert isinstance(self.fingerprint, bytes)\n"
    "        ret = b'URI:MDMF-Verifier:%s:%s' % (si_b2a(self.storage_index),\n"
    "                                            base32.b2a(self.fingerprint))\n")
MDMFV_NEW = (
    "    def __init__(self, storage_index, fingerprint, version=1):\n"
    "        assert len(storage_index) == 16\n"
    "        self.storage_index = storage_index\n"
    "        self.fingerprint = fingerprint\n"
    "        self.version = version\n\n"
    "    @classmethod\n"
    "    def init_from_string(cls, uri):\n"
    "        mo = cls.STRING_RE.search(uri)\n"
    "        if not mo:\n"
    "            raise BadURIError(\"%r doesn't look like a %s cap\" % (uri, cls))\n"
    "        return cls(si_a2b(mo.group(1)), base32.a2b(mo.group(2)), int(mo.group(3)))\n\n"
    "    def to_string(self):\n"
    "        assert isinstance(self.storage_index, bytes)\n"
    "        assert isinstance(self.fingerprint, bytes)\n"
    "        ret = b'URI:MDMF-Verifier:%s:%s:%d' % (si_b2a(self.storage_index),\n"
    "                                               base32.b2a(self.fingerprint), self.version)\n")

PREFIX_BLOCK = (
    "    if s.startswith(ALLEGED_IMMUTABLE_PREFIX):\n        can_be_mutable = can_be_writeable = False\n"
    "        s = s[len(ALLEGED_IMMUTABLE_PREFIX):]\n"
    "    elif s.startswith(ALLEGED_READONLY_PREFIX):\n        can_be_writeable = False\n"
    "        s = s[len(ALLEGED_READONLY_PREFIX):]\n")
B32 = "src/allmydata/util/base32.py"
B32_HELPER = "    d = {}\n    return b''.join(_get_trailing_chars_without_lsbs(N, d=d))\n"

# ---- the refactor of seeded change C15-I: the str/bytes step and the alleged-prefix handling of from_string,
#      is_literal_file_uri and has_uri_prefix factored into two module-level helpers (edits applied together)
FS_DEF = "def from_string(u, deep_immutable=False, name=u\"<unknown name>\"):\n"
TO_BYTES_HELPER = (
    "def _to_bytes_or_none(s):\n    if isinstance(s, str):\n        s = s.encode(\"utf-8\")\n"
    "    if not isinstance(s, bytes):\n        return None\n    return s\n\n")
SPLIT_HEAD = ("def _split_alleged_prefix(s):\n    alleged_immutable = s.startswith(ALLEGED_IMMUTABLE_PREFIX)\n"
              "    alleged_readonly = s.startswith(ALLEGED_READONLY_PREFIX)\n")
SPLIT_TAIL = "    return rest, alleged_immutable, alleged_readonly\n\n"
SPLIT_SLIP = SPLIT_HEAD + ("    rest = s.removeprefix(ALLEGED_IMMUTABLE_PREFIX).removeprefix(ALLEGED_READONLY_PREFIX)\n") + SPLIT_TAIL
SPLIT_FAITHFUL = SPLIT_HEAD + (
    "    if alleged_immutable:\n        rest = s.removeprefix(ALLEGED_IMMUTABLE_PREFIX)\n"
    "    else:\n        rest = s.removeprefix(ALLEGED_READONLY_PREFIX)\n") + SPLIT_TAIL
SPLIT_LOOP_NO_BREAK = SPLIT_HEAD + (
    "    rest = s\n    for alleged in (ALLEGED_IMMUTABLE_PREFIX, ALLEGED_READONLY_PREFIX):\n"
    "        if rest.startswith(alleged):\n            rest = rest[len(alleged):]\n") + SPLIT_TAIL
SPLIT_LOOP_BREAK = SPLIT_HEAD + (
    "    rest = s\n    for alleged in (ALLEGED_IMMUTABLE_PREFIX, ALLEGED_READONLY_PREFIX):\n"
    "        if rest.startswith(alleged):\n            rest = rest[len(alleged):]\n            break\n") + SPLIT_TAIL
FS_TYPE_OLD = ("    if isinstance(u, str):\n        u = u.encode(\"utf-8\")\n    if not isinstance(u, bytes):\n"
               "        raise TypeError(\"URI must be unicode string or bytes: %r\" % (u,))\n")
FS_TYPE_NEW = ("    given, u = u, _to_bytes_or_none(u)\n    if u is None:\n"
               "        raise TypeError(\"URI must be unicode string or bytes: %r\" % (given,))\n")
FS_PREFIX_OLD = "    s = u\n    can_be_mutable = can_be_writeable = not deep_immutable\n" + PREFIX_BLOCK
FS_PREFIX_NEW = ("    s, alleged_immutable, alleged_readonly = _split_alleged_prefix(u)\n"
                 "    can_be_mutable = not (deep_immutable or alleged_immutable)\n"
                 "    can_be_writeable = can_be_mutable and not alleged_readonly\n")
PRED_GUARD = "    if isinstance(s, str):\n        s = s.encode(\"utf-8\")\n    if not isinstance(s, bytes):\n        return False\n"
LIT_PRED_OLD = "def is_literal_file_uri(s):\n" + PRED_GUARD + (
    "    return (s.startswith(b'URI:LIT:') or\n            s.startswith(ALLEGED_READONLY_PREFIX + b'URI:LIT:') or\n"
    "            s.startswith(ALLEGED_IMMUTABLE_PREFIX + b'URI:LIT:'))\n")
URI_PRED_OLD = "def has_uri_prefix(s):\n" + PRED_GUARD + (
    "    return (s.startswith(b\"URI:\") or\n            s.startswith(ALLEGED_READONLY_PREFIX + b'URI:') or\n"
    "            s.startswith(ALLEGED_IMMUTABLE_PREFIX + b'URI:'))\n")
PRED_GUARD_NEW = "    s = _to_bytes_or_none(s)\n    if s is None:\n        return False\n"
LIT_PRED_NEW = "def is_literal_file_uri(s):\n" + PRED_GUARD_NEW + "    return _split_alleged_prefix(s)[0].startswith(b'URI:LIT:')\n"
URI_PRED_NEW = "def has_uri_prefix(s):\n" + PRED_GUARD_NEW + "    return _split_alleged_prefix(s)[0].startswith(b'URI:')\n"


def _helpers(split):
    return (U, FS_DEF, TO_BYTES_HELPER + split + FS_DEF)


FS_EDITS = [(U, FS_TYPE_OLD, FS_TYPE_NEW), (U, FS_PREFIX_OLD, FS_PREFIX_NEW)]
PRED_EDITS = [(U, LIT_PRED_OLD, LIT_PRED_NEW), (U, URI_PRED_OLD, URI_PRED_NEW)]


def _refactor(mid, split, expect, edits, note=""):
    (p, o, n) = _helpers(split)
    return M(mid, p, o, n, expect, edits=edits, note=note)


# ---- the refactor of seeded change C16-I: from_string's if/elif kind dispatch turned into a module-level table of
#      (prefix, class, constraint, description) rows looked up by a for/else loop (or next() over a generator), the
#      alleged-prefix handling into a helper driven by a second table.  Three edits applied together: tables + helper in
#      front of from_string, the prefix block, the dispatch chain.  The if-chain of /repo is generated from the same data.
_KINDS = [
    ("URI:CHK:", "CHKFileURI", None, None),
    ("URI:CHK-Verifier:", "CHKFileVerifierURI", None, None),
    ("URI:LIT:", "LiteralFileURI", None, None),
    ("URI:SSK:", "WriteableSSKFileURI", "W", "URI:SSK file writecap"),
    ("URI:SSK-RO:", "ReadonlySSKFileURI", "M", "URI:SSK-RO readcap to a mutable file"),
    ("URI:SSK-Verifier:", "SSKVerifierURI", None, None),
    ("URI:MDMF:", "WriteableMDMFFileURI", "W", "URI:MDMF file writecap"),
    ("URI:MDMF-RO:", "ReadonlyMDMFFileURI", "M", "URI:MDMF-RO readcap to a mutable file"),
    ("URI:MDMF-Verifier:", "MDMFVerifierURI", None, None),
    ("URI:DIR2:", "DirectoryURI", "W", "URI:DIR2 directory writecap"),
    ("URI:DIR2-RO:", "ReadonlyDirectoryURI", "M", "URI:DIR2-RO readcap to a mutable directory"),
    ("URI:DIR2-Verifier:", "DirectoryURIVerifier", None, None),
    ("URI:DIR2-CHK:", "ImmutableDirectoryURI", None, None),
    ("URI:DIR2-CHK-Verifier:", "ImmutableDirectoryURIVerifier", None, None),
    ("URI:DIR2-LIT:", "LiteralDirectoryURI", None, None),
    ("URI:DIR2-MDMF:", "MDMFDirectoryURI", "W", "URI:DIR2-MDMF directory writecap"),
    ("URI:DIR2-MDMF-RO:", "ReadonlyMDMFDirectoryURI", "M", "URI:DIR2-MDMF-RO readcap to a mutable directory"),
    ("URI:DIR2-MDMF-Verifier:", "MDMFDirectoryURIVerifier", None, None),
]
_FLAG = {"W": "can_be_writeable", "M": "can_be_mutable"}


def _fs_dispatch_chain():
    out = ["\n    error = None\n    try:\n"]
    for i, (pfx, k, gate, what) in enumerate(_KINDS):
        out.append("        %s s.startswith(b'%s'):\n" % ("elif" if i else "if", pfx))
        if gate is None:
            out.append("            return %s.init_from_string(s)\n" % k)
        else:
            out.append("            if %s:\n                return %s.init_from_string(s)\n            kind = \"%s\"\n" % (_FLAG[gate], k, what))
    out.append("        elif s.startswith(b'x-tahoe-future-test-writeable:') and not can_be_writeable:\n"
               "            # For testing how future writeable caps would behave in read-only contexts.\n"
               "            kind = \"x-tahoe-future-test-writeable: testing cap\"\n"
               "        elif s.startswith(b'x-tahoe-future-test-mutable:') and not can_be_mutable:\n"
               "            # For testing how future mutable readcaps would behave in immutable contexts.\n"
               "            kind = \"x-tahoe-future-test-mutable: testing cap\"\n"
               "        else:\n            return UnknownURI(u)\n\n"
               "        # We fell through because a constraint was not met.\n        # Prefer to report the most specific constraint.\n"
               "        if not can_be_mutable:\n            error = MustBeDeepImmutableError(kind + \" used in an immutable context\", name)\n"
               "        else:\n            error = MustBeReadonlyError(kind + \" used in a read-only context\", name)\n\n"
               "    except BadURIError as e:\n        error = e\n\n    return UnknownURI(u, error=error)\n\ndef is_uri(s):\n")
    return "".join(out)


FS_DISPATCH_CHAIN = _fs_dispatch_chain()
TBL_STRIP_LOOP = ("    for (prefix, can_be_mutable, can_be_writeable) in _ALLEGED_PREFIXES:\n        if s.startswith(prefix):\n"
                  "            return (s[len(prefix):], can_be_mutable and not deep_immutable, can_be_writeable and not deep_immutable)\n"
                  "    return (s, not deep_immutable, not deep_immutable)\n\n")
TBL_STRIP_ALL = ("    can_be_mutable = can_be_writeable = not deep_immutable\n"
                 "    for (prefix, mutable_ok, writeable_ok) in _ALLEGED_PREFIXES:\n        if s.startswith(prefix):\n"
                 "            s = s[len(prefix):]\n            can_be_mutable = can_be_mutable and mutable_ok\n"
                 "            can_be_writeable = can_be_writeable and writeable_ok\n"
                 "    return (s, can_be_mutable, can_be_writeable)\n\n")
TBL_PARSE = ("        try:\n            return cls.init_from_string(s)\n"
             "        except BadURIError as e:\n            return UnknownURI(u, error=e)\n\n")


def _table_refactor(mid, expect, rows=None, lookup="loop", strip=TBL_STRIP_LOOP, parse=TBL_PARSE, note=""):
    tbl = "_WRITEABLE = \"writeable\"\n_MUTABLE = \"mutable\"\n\n_KNOWN_CAPS = (\n"
    for (pfx, k, gate, what) in (rows or _KINDS):
        tbl += "    (b'%s', %s, %s, %s),\n" % (pfx, k, {"W": "_WRITEABLE", "M": "_MUTABLE", None: "None"}[gate],
                                              ("\"%s\"" % what) if what else "None")
    tbl += ("    (b'x-tahoe-future-test-writeable:', None, _WRITEABLE, \"x-tahoe-future-test-writeable: testing cap\"),\n"
            "    (b'x-tahoe-future-test-mutable:', None, _MUTABLE, \"x-tahoe-future-test-mutable: testing cap\"),\n)\n\n"
            "_ALLEGED_PREFIXES = (\n    # prefix,                  can be mutable, can be writeable\n"
            "    (ALLEGED_IMMUTABLE_PREFIX, False,          False),\n    (ALLEGED_READONLY_PREFIX,  True,           False),\n)\n\n"
            "def _strip_alleged_prefix(s, deep_immutable):\n" + strip + "\n")
    prefix_new = ("    (s, can_be_mutable, can_be_writeable) = _strip_alleged_prefix(u, deep_immutable)\n"
                  "    allowed = {\n        None: True,\n        _WRITEABLE: can_be_writeable,\n        _MUTABLE: can_be_mutable,\n    }\n")
    if lookup == "loop":
        body = ("\n    for (prefix, cls, requires, kind) in _KNOWN_CAPS:\n        if s.startswith(prefix):\n            break\n"
                "    else:\n        return UnknownURI(u)\n\n")
    else:
        body = ("\n    row = next((r for r in _KNOWN_CAPS if s.startswith(r[0])), None)\n    if row is None:\n"
                "        return UnknownURI(u)\n    (prefix, cls, requires, kind) = row\n\n")
    body += ("    if allowed[requires]:\n        if cls is None:\n            # a testing cap in a context that does not constrain it\n"
             "            return UnknownURI(u)\n" + parse +
             "    # A constraint was not met.\n    # Prefer to report the most specific constraint.\n    if not can_be_mutable:\n"
             "        error = MustBeDeepImmutableError(kind + \" used in an immutable context\", name)\n    else:\n"
             "        error = MustBeReadonlyError(kind + \" used in a read-only context\", name)\n    return UnknownURI(u, error=error)\n"
             "\ndef is_uri(s):\n")
    return M(mid, U, FS_DEF, tbl + FS_DEF, expect, note=note,
             edits=[(U, FS_PREFIX_OLD, prefix_new), (U, FS_DISPATCH_CHAIN, body)])


_ROWS_NO_DIR2_LIT = [r_ for r_ in _KINDS if r_[1] != "LiteralDirectoryURI"]
_ROWS_MDMF_RO_PASTED = [(p_, "ReadonlySSKFileURI" if k_ == "ReadonlyMDMFFileURI" else k_, g_, w_) for (p_, k_, g_, w_) in _KINDS]
_ROWS_CHK_SHORT = [("URI:CHK" if k_ == "CHKFileURI" else p_, k_, g_, w_) for (p_, k_, g_, w_) in _KINDS]


MUTANTS = [
    # ---- C15.1 start anchor / whole parameter
    M("lit-no-caret", U, "STRING_RE=re.compile(b'^URI:LIT:'+", "STRING_RE=re.compile(b'URI:LIT:'+", "C15.1"),
    M("lit-search-stripped", U, LIT_INIT, LIT_INIT.replace("search(uri)", "search(uri.strip())"), "C15.1"),
    M("dir-lit-no-caret", U, "    BASE_STRING_RE=re.compile(b'^'+BASE_STRING)\n    INNER_URI_CLASS=LiteralFileURI",
      "    BASE_STRING_RE=re.compile(BASE_STRING)\n    INNER_URI_CLASS=LiteralFileURI", "C15.1"),
    M("ssk-ro-multiline-flag", U, "BASE32STR_128bits+b':'+BASE32STR_256bits+b'$')\n\n    def __init__(self, readkey, fingerprint):\n        self.readkey = readkey\n        self.storage_index = hashutil.ssk_storage_index_hash(self.readkey)\n        assert len(self.storage_index) == 16\n        self.fingerprint = fingerprint\n\n    @classmethod\n    def init_from_string(cls, uri):\n        mo = cls.STRING_RE.search(uri)\n        if not mo:\n            raise BadURIError(\"%r doesn't look like a %s cap\" % (uri, cls))\n        return cls(base32.a2b(mo.group(1)), base32.a2b(mo.group(2)))\n\n    def to_string(self):\n        assert isinstance(self.readkey, bytes)\n        assert isinstance(self.fingerprint, bytes)\n        return b'URI:SSK-RO:",
      "BASE32STR_128bits+b':'+BASE32STR_256bits+b'$', re.MULTILINE)\n\n    def __init__(self, readkey, fingerprint):\n        self.readkey = readkey\n        self.storage_index = hashutil.ssk_storage_index_hash(self.readkey)\n        assert len(self.storage_index) == 16\n        self.fingerprint = fingerprint\n\n    @classmethod\n    def init_from_string(cls, uri):\n        mo = cls.STRING_RE.search(uri)\n        if not mo:\n            raise BadURIError(\"%r doesn't look like a %s cap\" % (uri, cls))\n        return cls(base32.a2b(mo.group(1)), base32.a2b(mo.group(2)))\n\n    def to_string(self):\n        assert isinstance(self.readkey, bytes)\n        assert isinstance(self.fingerprint, bytes)\n        return b'URI:SSK-RO:", "C15.1"),
    # ---- C15.2 end anchor present
    M("sskv-no-dollar", U, "STRING_RE=re.compile(b'^'+BASE_STRING+BASE32STR_128bits+b':'+BASE32STR_256bits+b'$')",
      "STRING_RE=re.compile(b'^'+BASE_STRING+BASE32STR_128bits+b':'+BASE32STR_256bits)", "C15.2"),
    M("ssk-ro-mdmf-tail", U, "STRING_RE=re.compile(b'^URI:SSK-RO:'+BASE32STR_128bits+b':'+BASE32STR_256bits+b'$')",
      "STRING_RE=re.compile(b'^URI:SSK-RO:'+BASE32STR_128bits+b':'+BASE32STR_256bits+b'(:|$)')", "C15.2"),
    M("lit-no-dollar", U, "STRING_RE=re.compile(b'^URI:LIT:'+base32.BASE32STR_anybytes+b'$')",
      "STRING_RE=re.compile(b'^URI:LIT:'+base32.BASE32STR_anybytes)", "C15.2"),
    # ---- C15.3 end anchor is end-of-string (the planned '$' repair of the CHK verifier still admits cap+'\n')
    M("chkv-dollar-repair", U, "BASE32STR_256bits+b':'+NUMBER+b':'+NUMBER+b':'+NUMBER)\n",
      "BASE32STR_256bits+b':'+NUMBER+b':'+NUMBER+b':'+NUMBER+b'$')\n", "C15.3"),
    M("benign-chk-backslash-Z", U, "STRING_RE=re.compile(b'^URI:CHK:'+BASE32STR_128bits+b':'+\n                         BASE32STR_256bits+b':'+NUMBER+b':'+NUMBER+b':'+NUMBER+\n                         b'$')",
      "STRING_RE=re.compile(b'^URI:CHK:'+BASE32STR_128bits+b':'+\n                         BASE32STR_256bits+b':'+NUMBER+b':'+NUMBER+b':'+NUMBER+\n                         br'\\Z')", None),
    M("benign-lit-fullmatch", U, LIT_INIT, LIT_INIT.replace("search(uri)", "fullmatch(uri)"), None),
    # ---- C15.4 groups <-> template <-> codecs
    M("mdmf-ro-groups-swapped", U,
      "(uri, cls))\n\n        return cls(base32.a2b(mo.group(1)), base32.a2b(mo.group(2)))",
      "(uri, cls))\n\n        return cls(base32.a2b(mo.group(2)), base32.a2b(mo.group(1)))", "C15.4"),
    M("ssk-ro-template-separator", U, "return b'URI:SSK-RO:%s:%s' % (", "return b'URI:SSK-RO:%s-%s' % (", "C15.4"),
    M("b32-128-one-char-short", U, "BASE32STR_128bits = b'(%s{25}%s)'", "BASE32STR_128bits = b'(%s{24}%s)'", "C15.4"),
    M("b32-256-noncanonical-tail", U, "BASE32STR_256bits = b'(%s{51}%s)' % (base32.BASE32CHAR, base32.BASE32CHAR_1bits)",
      "BASE32STR_256bits = b'(%s{51}%s)' % (base32.BASE32CHAR, base32.BASE32CHAR)", "C15.4"),
    M("chkv-shares-swapped-on-write", U,
      "                (si_b2a(self.storage_index),\n                 base32.b2a(self.uri_extension_hash),\n                 self.needed_shares,\n                 self.total_shares,",
      "                (si_b2a(self.storage_index),\n                 base32.b2a(self.uri_extension_hash),\n                 self.total_shares,\n                 self.needed_shares,", "C15.4"),
    M("mdmf-template-prefix-typo", U, "ret = b'URI:MDMF:%s:%s' % (", "ret = b'URI:MDMF2:%s:%s' % (", "C15.4"),
    M("ssk-key-normalised-in-init", U,
      "    def __init__(self, writekey, fingerprint):\n        self.writekey = writekey\n        self.readkey = hashutil.ssk_readkey_hash(writekey)\n        self.storage_index = hashutil.ssk_storage_index_hash(self.readkey)\n        assert len(self.storage_index) == 16\n        self.fingerprint = fingerprint\n\n    @classmethod\n    def init_from_string(cls, uri):\n        mo = cls.STRING_RE.search(uri)\n        if not mo:\n            raise BadURIError(\"%r doesn't look like a %s cap\" % (uri, cls))\n        return cls(base32.a2b(mo.group(1)), base32.a2b(mo.group(2)))\n\n    def to_string(self):\n        assert isinstance(self.writekey, bytes)\n        assert isinstance(self.fingerprint, bytes)\n        return b'URI:SSK:",
      "    def __init__(self, writekey, fingerprint):\n        self.writekey = writekey[:16]\n        self.readkey = hashutil.ssk_readkey_hash(writekey)\n        self.storage_index = hashutil.ssk_storage_index_hash(self.readkey)\n        assert len(self.storage_index) == 16\n        self.fingerprint = fingerprint[:16]\n\n    @classmethod\n    def init_from_string(cls, uri):\n        mo = cls.STRING_RE.search(uri)\n        if not mo:\n            raise BadURIError(\"%r doesn't look like a %s cap\" % (uri, cls))\n        return cls(base32.a2b(mo.group(1)), base32.a2b(mo.group(2)))\n\n    def to_string(self):\n        assert isinstance(self.writekey, bytes)\n        assert isinstance(self.fingerprint, bytes)\n        return b'URI:SSK:", "C15.4"),
    M("benign-ssk-template-from-base-string", U, "return b'URI:SSK:%s:%s' % (base32.b2a(self.writekey),",
      "return self.BASE_STRING + b'%s:%s' % (base32.b2a(self.writekey),", None),
    M("benign-number-backslash-d", U, "NUMBER=b'(0|[1-9][0-9]*)'", "NUMBER=br'(0|[1-9]\\d*)'", None),
    M("benign-lit-rename-local", U, LIT_INIT, LIT_INIT.replace("mo", "found"), None),
    M("benign-b32-split-repeat", U, "BASE32STR_128bits = b'(%s{25}%s)' % (base32.BASE32CHAR, base32.BASE32CHAR_3bits)",
      "BASE32STR_128bits = b'(%s{20}%s{5}%s)' % (base32.BASE32CHAR, base32.BASE32CHAR, base32.BASE32CHAR_3bits)", None),
    # ---- C15.5 numeric fields canonical: a new kind with a version number inherits NUMBER's leading zeros
    M("number-leading-zeros-again", U, "NUMBER=b'(0|[1-9][0-9]*)'", "NUMBER=b'([0-9]+)'", "C15.5",
      note="re-introduces the defect repaired by the fix: commit"),
    M("number-digit-class", U, "NUMBER=b'(0|[1-9][0-9]*)'", "NUMBER=b'([0-9][0-9]*)'", "C15.5"),
    M("benign-number-canonical", U, "NUMBER=b'([0-9]+)'", "NUMBER=b'(0|[1-9][0-9]*)'", None),
    # ---- C15.6 dispatch
    M("dispatch-chk-literal-short", U, "        if s.startswith(b'URI:CHK:'):\n            return CHKFileURI",
      "        if s.startswith(b'URI:CHK'):\n            return CHKFileURI", "C15.6"),
    M("dispatch-dir2-lit-dropped", U,
      "        elif s.startswith(b'URI:DIR2-LIT:'):\n            return LiteralDirectoryURI.init_from_string(s)\n", "", "C15.6"),
    M("dispatch-mdmfv-wrong-class", U, "        elif s.startswith(b'URI:MDMF-Verifier:'):\n            return MDMFVerifierURI.init_from_string(s)",
      "        elif s.startswith(b'URI:MDMF-Verifier:'):\n            return SSKVerifierURI.init_from_string(s)", "C15.6"),
    M("dispatch-lit-parses-unstripped", U, "return LiteralFileURI.init_from_string(s)", "return LiteralFileURI.init_from_string(u)", "C15.6"),
    M("unknown-keeps-stripped-string", U, "    return UnknownURI(u, error=error)", "    return UnknownURI(s, error=error)", "C15.6"),
    M("dispatch-chk-outside-handler", U,
      "    error = None\n    try:\n        if s.startswith(b'URI:CHK:'):\n            return CHKFileURI.init_from_string(s)\n        elif s.startswith(b'URI:CHK-Verifier:'):",
      "    error = None\n    if s.startswith(b'URI:CHK:'):\n        return CHKFileURI.init_from_string(s)\n    try:\n        if s.startswith(b'URI:CHK-Verifier:'):", "C15.6"),
    M("dispatch-shadowed", U,
      "        elif s.startswith(b'URI:DIR2:'):\n            if can_be_writeable:",
      "        elif s.startswith(b'URI:DIR2'):\n            if can_be_writeable:", "C15.6"),
    M("benign-dispatch-reordered", U,
      "        elif s.startswith(b'URI:DIR2-CHK:'):\n            return ImmutableDirectoryURI.init_from_string(s)\n        elif s.startswith(b'URI:DIR2-CHK-Verifier:'):\n            return ImmutableDirectoryURIVerifier.init_from_string(s)\n",
      "        elif s.startswith(b'URI:DIR2-CHK-Verifier:'):\n            return ImmutableDirectoryURIVerifier.init_from_string(s)\n        elif s.startswith(b'URI:DIR2-CHK:'):\n            return ImmutableDirectoryURI.init_from_string(s)\n", None),
    M("benign-dispatch-class-constant", U, "        elif s.startswith(b'URI:LIT:'):\n            return LiteralFileURI",
      "        elif s.startswith(LiteralFileURI.BASE_STRING):\n            return LiteralFileURI", None),
    # ---- C15.7 directory wrappers
    M("dir-to-string-not-stripped", U, "        return self.BASE_STRING+bits", "        return self.BASE_STRING+fnuri", "C15.7"),
    M("dir-init-own-base", U, "            cls.INNER_URI_CLASS.BASE_STRING+bits)", "            cls.BASE_STRING+bits)", "C15.7"),
    M("dir-chkv-re-without-colon", U, "    BASE_STRING_RE=re.compile(b'^'+BASE_STRING)\n    INNER_URI_CLASS=CHKFileVerifierURI",
      "    BASE_STRING_RE=re.compile(b'^URI:DIR2-CHK-Verifier')\n    INNER_URI_CLASS=CHKFileVerifierURI", "C15.7"),
    M("dir-lit-base-copy-paste", U, "    BASE_STRING=b'URI:DIR2-LIT:'", "    BASE_STRING=b'URI:DIR2-CHK:'", "C15.7"),
    M("dir-verifier-drops-inner", U,
      "    INNER_URI_CLASS : Type[IVerifierURI] = SSKVerifierURI\n\n    def __init__(self, filenode_uri=None):\n        if filenode_uri:\n            _assert(IVerifierURI.providedBy(filenode_uri))\n        self._filenode_uri = filenode_uri\n",
      "    INNER_URI_CLASS : Type[IVerifierURI] = SSKVerifierURI\n\n    def __init__(self, filenode_uri=None):\n        if filenode_uri:\n            _assert(IVerifierURI.providedBy(filenode_uri))\n        self._filenode_uri = filenode_uri.get_verify_cap()\n", "C15.7"),
    M("benign-dir-to-string-len", U,
      "        mo = re.match(self.INNER_URI_CLASS.BASE_STRING, fnuri)\n        assert mo, fnuri\n        bits = fnuri[mo.end():]",
      "        assert fnuri.startswith(self.INNER_URI_CLASS.BASE_STRING), fnuri\n        bits = fnuri[len(self.INNER_URI_CLASS.BASE_STRING):]", None),
    M("benign-dir-init-removeprefix", U, "        bits = uri[mo.end():]\n", "        bits = uri.removeprefix(cls.BASE_STRING)\n", None),
    M("dir-init-removeprefix-inner-base", U, "        bits = uri[mo.end():]\n",
      "        bits = uri.removeprefix(cls.INNER_URI_CLASS.BASE_STRING)\n", "C15.7"),
    # ---- C15.8 failed match
    M("lit-guard-deleted", U, LIT_INIT,
      "        mo = cls.STRING_RE.search(uri)\n        return cls(base32.a2b(mo.group(1)))", "C15.8"),
    M("dir-raises-valueerror", U, "            raise BadURIError(\"%r doesn't look like a %s cap\" % (uri, cls))\n        bits = uri[mo.end():]",
      "            raise ValueError(\"%r doesn't look like a %s cap\" % (uri, cls))\n        bits = uri[mo.end():]", "C15.8"),
    M("benign-dir-is-none", U, "        mo = cls.BASE_STRING_RE.search(uri)\n        if not mo:",
      "        mo = cls.BASE_STRING_RE.search(uri)\n        if mo is None:", None),
    # ---- C15.9 an unprefixed cap of every kind reaches its own parser (mutation-sweep survivors)
    M("ssk-writeable-guard-negated", U, "            if can_be_writeable:\n                return WriteableSSKFileURI",
      "            if not can_be_writeable:\n                return WriteableSSKFileURI", "C15.9"),
    M("dir2-ro-guard-negated", U, "            if can_be_mutable:\n                return ReadonlyDirectoryURI",
      "            if not can_be_mutable:\n                return ReadonlyDirectoryURI", "C15.9"),
    M("imm-prefix-test-negated", U, "    if s.startswith(ALLEGED_IMMUTABLE_PREFIX):",
      "    if not s.startswith(ALLEGED_IMMUTABLE_PREFIX):", "C15.9"),
    M("ro-prefix-test-negated", U, "    elif s.startswith(ALLEGED_READONLY_PREFIX):",
      "    elif not s.startswith(ALLEGED_READONLY_PREFIX):", "C15.9"),
    M("deep-immutable-by-default", U, "def from_string(u, deep_immutable=False, name=",
      "def from_string(u, deep_immutable=True, name=", "C15.9"),
    M("flags-start-cleared", U, "    can_be_mutable = can_be_writeable = not deep_immutable\n",
      "    can_be_mutable = can_be_writeable = deep_immutable\n", "C15.9"),
    M("prefix-always-stripped", U,
      "        can_be_writeable = False\n        s = s[len(ALLEGED_READONLY_PREFIX):]\n",
      "        can_be_writeable = False\n    s = s[len(ALLEGED_READONLY_PREFIX):]\n", "C15.9"),
    M("bytes-rejected", U, "    if not isinstance(u, bytes):\n        raise TypeError", "    if isinstance(u, bytes):\n        raise TypeError", "C15.9"),
    M("benign-flags-separate-statements", U, "    can_be_mutable = can_be_writeable = not deep_immutable\n",
      "    can_be_mutable = not deep_immutable\n    can_be_writeable = can_be_mutable\n", None),
    M("benign-prefix-tests-swapped", U,
      "    if s.startswith(ALLEGED_IMMUTABLE_PREFIX):\n        can_be_mutable = can_be_writeable = False\n        s = s[len(ALLEGED_IMMUTABLE_PREFIX):]\n    elif s.startswith(ALLEGED_READONLY_PREFIX):\n        can_be_writeable = False\n        s = s[len(ALLEGED_READONLY_PREFIX):]\n",
      "    if s.startswith(ALLEGED_READONLY_PREFIX):\n        can_be_writeable = False\n        s = s[len(ALLEGED_READONLY_PREFIX):]\n    elif s.startswith(ALLEGED_IMMUTABLE_PREFIX):\n        s = s[len(ALLEGED_IMMUTABLE_PREFIX):]\n        can_be_mutable = can_be_writeable = False\n", None),
    M("benign-ssk-guard-inverted-branches", U,
      "            if can_be_writeable:\n                return WriteableSSKFileURI.init_from_string(s)\n            kind = \"URI:SSK file writecap\"\n",
      "            if not can_be_writeable:\n                kind = \"URI:SSK file writecap\"\n            else:\n                return WriteableSSKFileURI.init_from_string(s)\n", None),
    M("benign-deep-immutable-conditional", U, "    can_be_mutable = can_be_writeable = not deep_immutable\n",
      "    can_be_mutable = can_be_writeable = (False if deep_immutable else True)\n", None),
    # ---- C15.10 constructor / to_string accept what the parser decodes (mutation-sweep survivors of the widened sweep)
    M("chk-si-guard-inverted", U, "        if not len(self.storage_index) == 16: # sha256",
      "        if len(self.storage_index) == 16: # sha256", "C15.10"),
    M("chk-si-guard-wrong-length", U, "        if not len(self.storage_index) == 16: # sha256",
      "        if not len(self.storage_index) == 32: # sha256", "C15.10"),
    M("chkv-si-assert-is-hash-length", U,
      "                 needed_shares, total_shares, size):\n        assert len(storage_index) == 16\n",
      "                 needed_shares, total_shares, size):\n        assert len(storage_index) == 32\n", "C15.10"),
    M("ssk-ro-si-assert-flipped", U,
      "        self.storage_index = hashutil.ssk_storage_index_hash(self.readkey)\n        assert len(self.storage_index) == 16\n        self.fingerprint = fingerprint\n\n    @classmethod\n    def init_from_string(cls, uri):\n        mo = cls.STRING_RE.search(uri)\n        if not mo:\n            raise BadURIError(\"%r doesn't look like a %s cap\" % (uri, cls))\n        return cls(base32.a2b(mo.group(1)), base32.a2b(mo.group(2)))\n\n    def to_string(self):\n        assert isinstance(self.readkey, bytes)\n        assert isinstance(self.fingerprint, bytes)\n        return b'URI:SSK-RO:",
      "        self.storage_index = hashutil.ssk_storage_index_hash(self.readkey)\n        assert len(self.storage_index) != 16\n        self.fingerprint = fingerprint\n\n    @classmethod\n    def init_from_string(cls, uri):\n        mo = cls.STRING_RE.search(uri)\n        if not mo:\n            raise BadURIError(\"%r doesn't look like a %s cap\" % (uri, cls))\n        return cls(base32.a2b(mo.group(1)), base32.a2b(mo.group(2)))\n\n    def to_string(self):\n        assert isinstance(self.readkey, bytes)\n        assert isinstance(self.fingerprint, bytes)\n        return b'URI:SSK-RO:", "C15.10"),
    M("lit-data-guard-inverted", U, "        if data is not None:\n            assert isinstance(data, bytes)",
      "        if data is None:\n            assert isinstance(data, bytes)", "C15.10"),
    M("lit-data-must-be-text", U, "        if data is not None:\n            assert isinstance(data, bytes)",
      "        if data is not None:\n            assert isinstance(data, str)", "C15.10"),
    M("chk-to-string-size-assert-negated", U,
      "        assert isinstance(self.size, int)\n\n        return (b'URI:CHK:%s",
      "        assert not isinstance(self.size, int)\n\n        return (b'URI:CHK:%s", "C15.10"),
    M("sskv-to-string-wants-text", U,
      "        assert isinstance(self.fingerprint, bytes)\n        return b'URI:SSK-Verifier:",
      "        assert isinstance(self.fingerprint, str)\n        return b'URI:SSK-Verifier:", "C15.10"),
    M("benign-chk-si-guard-not-equal", U, "        if not len(self.storage_index) == 16: # sha256",
      "        if len(self.storage_index) != 16: # sha256", None),
    M("benign-chkv-si-assert-operands-swapped", U,
      "                 needed_shares, total_shares, size):\n        assert len(storage_index) == 16\n",
      "                 needed_shares, total_shares, size):\n        assert 16 == len(storage_index)\n", None),
    M("benign-lit-data-guard-not-is", U, "        if data is not None:\n            assert isinstance(data, bytes)",
      "        if not data is None:\n            assert isinstance(data, (bytes,))", None),
    M("benign-chk-si-guard-hoisted", U,
      "        if not len(self.storage_index) == 16: # sha256 hash truncated to 128\n",
      "        si_len = len(self.storage_index)\n        if not si_len == hashutil.KEYLEN: # sha256 hash truncated to 128\n", None),
    # ---- C15.11 at most one alleged prefix is removed (seeded change C15-D and edits with the same effect)
    M("prefix-ifs-independent", U,
      "    can_be_mutable = can_be_writeable = not deep_immutable\n    if s.startswith(ALLEGED_IMMUTABLE_PREFIX):\n        can_be_mutable = can_be_writeable = False\n        s = s[len(ALLEGED_IMMUTABLE_PREFIX):]\n    elif s.startswith(ALLEGED_READONLY_PREFIX):\n",
      "    can_be_mutable = not deep_immutable\n    if s.startswith(ALLEGED_IMMUTABLE_PREFIX):\n        can_be_mutable = False\n        s = s[len(ALLEGED_IMMUTABLE_PREFIX):]\n    can_be_writeable = can_be_mutable\n    if s.startswith(ALLEGED_READONLY_PREFIX):\n", "C15.11"),
    M("prefix-elif-to-if", U, "    elif s.startswith(ALLEGED_READONLY_PREFIX):\n        can_be_writeable = False\n",
      "    if s.startswith(ALLEGED_READONLY_PREFIX):\n        can_be_writeable = False\n", "C15.11"),
    M("prefix-strip-loop", U,
      "    if s.startswith(ALLEGED_IMMUTABLE_PREFIX):\n        can_be_mutable = can_be_writeable = False\n        s = s[len(ALLEGED_IMMUTABLE_PREFIX):]\n    elif s.startswith(ALLEGED_READONLY_PREFIX):\n        can_be_writeable = False\n        s = s[len(ALLEGED_READONLY_PREFIX):]\n",
      "    while s.startswith((ALLEGED_IMMUTABLE_PREFIX, ALLEGED_READONLY_PREFIX)):\n        if s.startswith(ALLEGED_IMMUTABLE_PREFIX):\n            can_be_mutable = can_be_writeable = False\n            s = s[len(ALLEGED_IMMUTABLE_PREFIX):]\n        else:\n            can_be_writeable = False\n            s = s[len(ALLEGED_READONLY_PREFIX):]\n", "C15.11"),
    M("prefix-ro-then-ro-again", U,
      "        can_be_writeable = False\n        s = s[len(ALLEGED_READONLY_PREFIX):]\n",
      "        can_be_writeable = False\n        s = s[len(ALLEGED_READONLY_PREFIX):]\n        if s.startswith(ALLEGED_READONLY_PREFIX):\n            s = s[len(ALLEGED_READONLY_PREFIX):]\n", "C15.11"),
    M("benign-prefix-ifs-on-original", U,
      "    elif s.startswith(ALLEGED_READONLY_PREFIX):\n        can_be_writeable = False\n        s = s[len(ALLEGED_READONLY_PREFIX):]\n",
      "    if u.startswith(ALLEGED_READONLY_PREFIX):\n        can_be_writeable = False\n        s = u[len(ALLEGED_READONLY_PREFIX):]\n", None),
    M("benign-prefix-nested-else", U,
      "    elif s.startswith(ALLEGED_READONLY_PREFIX):\n        can_be_writeable = False\n        s = s[len(ALLEGED_READONLY_PREFIX):]\n",
      "    else:\n        if s.startswith(ALLEGED_READONLY_PREFIX):\n            s = s[3:]\n            can_be_writeable = False\n", None),
    M("benign-prefix-flag-then-strip", U,
      "    if s.startswith(ALLEGED_IMMUTABLE_PREFIX):\n        can_be_mutable = can_be_writeable = False\n        s = s[len(ALLEGED_IMMUTABLE_PREFIX):]\n    elif s.startswith(ALLEGED_READONLY_PREFIX):\n        can_be_writeable = False\n        s = s[len(ALLEGED_READONLY_PREFIX):]\n",
      "    alleged_imm = s.startswith(ALLEGED_IMMUTABLE_PREFIX)\n    alleged_ro = not alleged_imm and s.startswith(ALLEGED_READONLY_PREFIX)\n    if alleged_imm:\n        can_be_mutable = False\n        s = s[len(ALLEGED_IMMUTABLE_PREFIX):]\n    if alleged_ro:\n        s = s[len(ALLEGED_READONLY_PREFIX):]\n    if alleged_imm or alleged_ro:\n        can_be_writeable = False\n", None),
    # ---- C15.12 nothing but one alleged prefix is removed, neither end is trimmed
    M("input-stripped", U, "        raise TypeError(\"URI must be unicode string or bytes: %r\" % (u,))\n\n    # We allow",
      "        raise TypeError(\"URI must be unicode string or bytes: %r\" % (u,))\n    u = u.strip()\n\n    # We allow", "C15.12"),
    M("working-copy-lstripped", U, "    s = u\n    can_be_mutable = can_be_writeable", "    s = u.lstrip()\n    can_be_mutable = can_be_writeable", "C15.12"),
    M("after-prefix-lstripped", U,
      "        can_be_writeable = False\n        s = s[len(ALLEGED_READONLY_PREFIX):]\n",
      "        can_be_writeable = False\n        s = s[len(ALLEGED_READONLY_PREFIX):].lstrip()\n", "C15.12"),
    M("working-copy-rstripped", U, "    s = u\n    can_be_mutable = can_be_writeable", "    s = u.rstrip()\n    can_be_mutable = can_be_writeable", "C15.12"),
    M("ro-strip-too-long", U,
      "        can_be_writeable = False\n        s = s[len(ALLEGED_READONLY_PREFIX):]\n",
      "        can_be_writeable = False\n        s = s[len(ALLEGED_IMMUTABLE_PREFIX):]\n", ["C15.12", "C15.9"]),
    M("benign-prefix-test-by-slice", U, "    if s.startswith(ALLEGED_IMMUTABLE_PREFIX):\n",
      "    if s[:len(ALLEGED_IMMUTABLE_PREFIX)] == ALLEGED_IMMUTABLE_PREFIX:\n", None),
    M("benign-strip-literal-length", U,
      "        can_be_mutable = can_be_writeable = False\n        s = s[len(ALLEGED_IMMUTABLE_PREFIX):]\n",
      "        can_be_mutable = can_be_writeable = False\n        s = u[4:]\n", None),
    M("benign-working-copy-full-slice", U, "    s = u\n    can_be_mutable = can_be_writeable", "    s = u[0:]\n    can_be_mutable = can_be_writeable", None),
    # ---- C15.11 again: the strip family the seeded change C15-F used (bytes.removeprefix), decided on the known leading bytes
    M("prefix-removeprefix-chained", U, PREFIX_BLOCK,
      "    if s.startswith(ALLEGED_IMMUTABLE_PREFIX):\n        can_be_mutable = can_be_writeable = False\n"
      "    elif s.startswith(ALLEGED_READONLY_PREFIX):\n        can_be_writeable = False\n"
      "    s = s.removeprefix(ALLEGED_IMMUTABLE_PREFIX).removeprefix(ALLEGED_READONLY_PREFIX)\n", "C15.11",
      note="seeded change C15-F"),
    M("prefix-removeprefix-loop", U, PREFIX_BLOCK,
      "    if s.startswith(ALLEGED_IMMUTABLE_PREFIX):\n        can_be_mutable = can_be_writeable = False\n"
      "    elif s.startswith(ALLEGED_READONLY_PREFIX):\n        can_be_writeable = False\n"
      "    for alleged in (ALLEGED_IMMUTABLE_PREFIX, ALLEGED_READONLY_PREFIX):\n        s = s.removeprefix(alleged)\n", "C15.11"),
    M("prefix-imm-slice-then-removeprefix", U,
      "        can_be_mutable = can_be_writeable = False\n        s = s[len(ALLEGED_IMMUTABLE_PREFIX):]\n",
      "        can_be_mutable = can_be_writeable = False\n        s = s[len(ALLEGED_IMMUTABLE_PREFIX):].removeprefix(ALLEGED_READONLY_PREFIX)\n",
      "C15.11"),
    M("benign-prefix-removeprefix-per-branch", U, PREFIX_BLOCK,
      "    if s.startswith(ALLEGED_IMMUTABLE_PREFIX):\n        can_be_mutable = can_be_writeable = False\n"
      "        s = s.removeprefix(ALLEGED_IMMUTABLE_PREFIX)\n"
      "    elif s.startswith(ALLEGED_READONLY_PREFIX):\n        can_be_writeable = False\n"
      "        s = s.removeprefix(ALLEGED_READONLY_PREFIX)\n", None),
    M("benign-prefix-table-loop-break", U, PREFIX_BLOCK,
      "    if u.startswith(ALLEGED_IMMUTABLE_PREFIX):\n        can_be_mutable = can_be_writeable = False\n"
      "    elif u.startswith(ALLEGED_READONLY_PREFIX):\n        can_be_writeable = False\n"
      "    for alleged in (ALLEGED_IMMUTABLE_PREFIX, ALLEGED_READONLY_PREFIX):\n"
      "        if s.startswith(alleged):\n            s = s[len(alleged):]\n            break\n", None),
    M("benign-prefix-removeprefix-conditional", U, PREFIX_BLOCK,
      "    if s.startswith(ALLEGED_IMMUTABLE_PREFIX):\n        can_be_mutable = can_be_writeable = False\n"
      "    elif s.startswith(ALLEGED_READONLY_PREFIX):\n        can_be_writeable = False\n"
      "    s = (s.removeprefix(ALLEGED_IMMUTABLE_PREFIX) if s.startswith(ALLEGED_IMMUTABLE_PREFIX)\n"
      "         else s.removeprefix(ALLEGED_READONLY_PREFIX))\n", None),
    # ---- C15.12 again: removesuffix trims the end like rstrip does
    M("working-copy-removesuffix", U, "    s = u\n    can_be_mutable = can_be_writeable",
      "    s = u.removesuffix(b'/')\n    can_be_mutable = can_be_writeable", "C15.12"),
    # ---- C15.13 the final-character classes of util.base32 (seeded change C15-E and edits with the same effect)
    M("b32-mask-precedence-slip", B32, B32_HELPER,
      "    unused = 1 << N - 1\n    return bytes([c for (v, c) in enumerate(chars) if not v & unused])\n", "C15.13",
      note="seeded change C15-E, list-comprehension spelling"),
    M("b32-mask-precedence-slip-genexp", B32, B32_HELPER,
      "    unused = 1 << N - 1\n    return bytes(c for (v, c) in enumerate(chars) if not v & unused)\n", "C15.13",
      note="seeded change C15-E as delivered"),
    M("b32-step-times-not-power", B32, "        i = i + 2**N\n", "        i = i + 2*N\n", "C15.13"),
    M("b32-1bits-range-typo", B32, "BASE32CHAR_1bits = b'['+get_trailing_chars_without_lsbs(4)+b']'",
      "BASE32CHAR_1bits = b'[a-q]'", "C15.13"),
    M("b32-mask-one-bit-short", B32, B32_HELPER,
      "    unused = (1 << (N - 1)) - 1\n    return bytes([c for (v, c) in enumerate(chars) if not v & unused])\n",
      ["C15.4", "C15.13"], note="canonical classes, but for N-1: decided by the position check C15.4"),
    M("benign-b32-mask-correct", B32, B32_HELPER,
      "    unused = (1 << N) - 1\n    return bytes([c for (v, c) in enumerate(chars) if not v & unused])\n", None),
    M("benign-b32-mask-correct-genexp", B32, B32_HELPER,
      "    unused = (1 << N) - 1\n    return bytes(c for (v, c) in enumerate(chars) if v & unused == 0)\n", None),
    M("benign-b32-1bits-literal", B32, "BASE32CHAR_1bits = b'['+get_trailing_chars_without_lsbs(4)+b']'",
      "BASE32CHAR_1bits = b'[aq]'", None),
    # ---- C15.14 the table behind a2b's precondition accepts what the patterns accept (the a2b side of C15-E's helper;
    #      narrowing edits of this table are also caught by test_base32's hypothesis round trip - the rule decides them
    #      deterministically and at the lengths the caps use)
    M("s8-unused-bits-not-complemented", B32,
      "get_trailing_chars_without_lsbs(5-(NUM_QS_TO_NUM_BITS[lenmod8]%5))", "get_trailing_chars_without_lsbs(NUM_QS_TO_NUM_BITS[lenmod8]%5)",
      "C15.14", note="fails test_base32 too"),
    M("s8-legit-lengths-typo", B32, "NUM_QS_LEGIT=(1, 0, 1, 0, 1, 1, 0, 1,)", "NUM_QS_LEGIT=(1, 0, 0, 1, 1, 1, 0, 1,)", "C15.14",
      note="fails test_base32 too"),
    M("s8-check-array-drops-last", B32, "    for c in bytes(cs):\n        checka[c] = 1\n",
      "    for c in bytes(cs)[:-1]:\n        checka[c] = 1\n", "C15.14", note="fails test_base32 too"),
    M("benign-validator-row-local", B32, "    return s8[len(s)%8][s[-1]] and not tr(s, identitytranstable, chars)",
      "    row = s8[len(s) % 8]\n    last = s[-1]\n    return row[last] and not tr(s, identitytranstable, chars)", None),
    M("benign-s8-range-loop", B32, "    for lenmod8 in (1, 2, 3, 4, 5, 6, 7,):\n", "    for lenmod8 in range(1, 8):\n", None),
    M("benign-s8-global-table", B32, "def could_be_base32_encoded(s, s8=s8, tr=bytes.translate,",
      "def could_be_base32_encoded(s, tr=bytes.translate,", None),
    M("vanish-validator-table", B32, "    return s8[len(s)%8][s[-1]] and not tr(s, identitytranstable, chars)",
      "    return s[-1] in chars and not tr(s, identitytranstable, chars)", "ANALYSIS-ERROR"),
    # ---- C15.11 / C15.12 through helpers (seeded change C15-I): from_string's prefix handling moved into
    #      _split_alleged_prefix, whose result is unpacked; the abstract execution follows the helper call
    _refactor("helper-removeprefix-chained", SPLIT_SLIP, "C15.11", FS_EDITS + PRED_EDITS, note="seeded change C15-I as delivered"),
    _refactor("helper-removeprefix-chained-from-string-only", SPLIT_SLIP, "C15.11", FS_EDITS),
    _refactor("helper-prefix-loop-without-break", SPLIT_LOOP_NO_BREAK, "C15.11", FS_EDITS),
    _refactor("benign-helper-one-removeprefix", SPLIT_FAITHFUL, None, FS_EDITS + PRED_EDITS,
              note="the refactor of C15-I done faithfully"),
    _refactor("benign-helper-prefix-loop-break", SPLIT_LOOP_BREAK, None, FS_EDITS + PRED_EDITS),
    M("benign-type-step-in-helper", U, FS_DEF, TO_BYTES_HELPER + FS_DEF, None, edits=[(U, FS_TYPE_OLD, FS_TYPE_NEW)]),
    # ---- C15.15 the textual predicates admit exactly one optional alleged prefix
    _refactor("predicates-helper-removeprefix-chained", SPLIT_SLIP, "C15.15", PRED_EDITS,
              note="the predicate half of seeded change C15-I"),
    M("has-uri-prefix-strip-loop", U, URI_PRED_OLD, "def has_uri_prefix(s):\n" + PRED_GUARD +
      "    for alleged in (ALLEGED_READONLY_PREFIX, ALLEGED_IMMUTABLE_PREFIX):\n        if s.startswith(alleged):\n"
      "            s = s[len(alleged):]\n    return s.startswith(b\"URI:\")\n", "C15.15"),
    M("is-literal-imm-alternative-lost", U, LIT_PRED_OLD, "def is_literal_file_uri(s):\n" + PRED_GUARD +
      "    return s.startswith((b'URI:LIT:', ALLEGED_READONLY_PREFIX + b'URI:LIT:'))\n", "C15.15"),
    M("has-uri-prefix-lstripped", U, URI_PRED_OLD, URI_PRED_OLD.replace("    return (s.startswith(b\"URI:\")", "    s = s.lstrip()\n    return (s.startswith(b\"URI:\")"), "C15.15"),
    _refactor("benign-predicates-helper-one-removeprefix", SPLIT_FAITHFUL, None, PRED_EDITS),
    M("benign-has-uri-prefix-tuple", U, URI_PRED_OLD, "def has_uri_prefix(s):\n" + PRED_GUARD +
      "    return s.startswith((b\"URI:\", ALLEGED_READONLY_PREFIX + b'URI:', ALLEGED_IMMUTABLE_PREFIX + b'URI:'))\n", None),
    M("benign-is-literal-early-returns", U, LIT_PRED_OLD, "def is_literal_file_uri(s):\n" + PRED_GUARD +
      "    for alleged in (b'', ALLEGED_READONLY_PREFIX, ALLEGED_IMMUTABLE_PREFIX):\n"
      "        if s.startswith(alleged + b'URI:LIT:'):\n            return True\n    return False\n", None),
    M("vanish-has-uri-prefix", U, "def has_uri_prefix(s):", "def has_uri_prefixX(s):", "ANALYSIS-ERROR"),
    # ---- the table-driven shape of from_string (seeded change C16-I): decided by unrolling the loops over the folded tables
    _table_refactor("benign-from-string-table-driven", None,
                    note="seeded C16-I with its slip repaired: kind rows in a module-level table, for/else lookup, prefix helper over a table"),
    _table_refactor("benign-from-string-table-driven-next", None, lookup="next",
                    note="the same, the row found with next() over a generator expression"),
    _table_refactor("table-row-dropped", ["C15.6", "C15.9"], rows=_ROWS_NO_DIR2_LIT,
                    note="table shape: the URI:DIR2-LIT: row was lost, such caps become UnknownURI"),
    _table_refactor("table-row-class-pasted", ["C15.6", "C15.9"], rows=_ROWS_MDMF_RO_PASTED,
                    note="table shape: the URI:MDMF-RO: row names ReadonlySSKFileURI"),
    _table_refactor("table-row-prefix-shadows", ["C15.6", "C15.9"], rows=_ROWS_CHK_SHORT, lookup="next",
                    note="table shape: the first row's prefix b'URI:CHK' also takes URI:CHK-Verifier: strings"),
    _table_refactor("table-helper-strips-every-prefix", "C15.11", strip=TBL_STRIP_ALL,
                    note="table shape: the helper's loop does not stop at the first alleged prefix"),
    _table_refactor("table-helper-strips-whitespace", "C15.12",
                    strip=TBL_STRIP_LOOP.replace("return (s[len(prefix):],", "return (s[len(prefix):].strip(),"),
                    note="table shape: the helper tidies the string behind the alleged prefix"),
    _table_refactor("table-parse-outside-handler", "C15.6", parse="        return cls.init_from_string(s)\n\n",
                    note="table shape: the parser call lost its BadURIError handler"),
    # ---- vanished anchor
    M("vanish-from-string", U, "def from_string(u, deep_immutable=False", "def from_stringX(u, deep_immutable=False", "ANALYSIS-ERROR"),
]
