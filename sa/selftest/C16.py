from .runner import M

U = "src/allmydata/uri.py"
K = "src/allmydata/unknown.py"
NM = "src/allmydata/nodemaker.py"
DN = "src/allmydata/dirnode.py"

SSK_RO_HEAD = ("    STRING_RE=re.compile(b'^URI:SSK-RO:'+BASE32STR_128bits+b':'+BASE32STR_256bits+b'$')\n\n"
               "    def __init__(self, readkey, fingerprint):\n"
               "        self.readkey = readkey\n"
               "        self.storage_index = hashutil.ssk_storage_index_hash(self.readkey)\n")
MDMF_W_HEAD = ("    STRING_RE=re.compile(b'^'+BASE_STRING+BASE32STR_128bits+b':'+BASE32STR_256bits+b'(:|$)')\n\n"
               "    def __init__(self, writekey, fingerprint):\n"
               "        self.writekey = writekey\n"
               "        self.readkey = hashutil.ssk_readkey_hash(writekey)\n")
MDMF_DV = ("    INNER_URI_CLASS=MDMFVerifierURI\n\n"
           "    def __init__(self, filenode_uri=None):\n"
           "        if filenode_uri:\n"
           "            _assert(IVerifierURI.providedBy(filenode_uri))\n"
           "        self._filenode_uri = filenode_uri\n\n"
           "    def get_filenode_cap(self):\n"
           "        return self._filenode_uri\n\n"
           "    def is_mutable(self):\n"
           "        return False\n")

FS_DEF = ("ALLEGED_IMMUTABLE_PREFIX = b'imm.'\n\n"
          "def from_string(u, deep_immutable=False, name=u\"<unknown name>\"):\n"
          "    \"\"\"Create URI from either unicode or byte string.\"\"\"\n")
FS_PRELUDE_END = ("        raise TypeError(\"URI must be unicode string or bytes: %r\" % (u,))\n\n"
                  "    # We allow and check ALLEGED_READONLY_PREFIX")
FS_SPLIT = ("        raise TypeError(\"URI must be unicode string or bytes: %r\" % (u,))\n\n"
            "    return _parse(u, deep_immutable, name)\n\n"
            "def _parse(u, deep_immutable, name):\n"
            "    # We allow and check ALLEGED_READONLY_PREFIX")
FS_MEMO_BY_STRING = ("        raise TypeError(\"URI must be unicode string or bytes: %r\" % (u,))\n\n"
                     "    try:\n"
                     "        return _parsed_caps[u]\n"
                     "    except KeyError:\n"
                     "        pass\n"
                     "    cap = _parse(u, deep_immutable, name)\n"
                     "    if not isinstance(cap, UnknownURI):\n"
                     "        _parsed_caps[u] = cap\n"
                     "    return cap\n\n"
                     "def _parse(u, deep_immutable, name):\n"
                     "    # We allow and check ALLEGED_READONLY_PREFIX")
FS_MEMO_BY_CONTEXT = ("        raise TypeError(\"URI must be unicode string or bytes: %r\" % (u,))\n\n"
                      "    key = (u, deep_immutable)\n"
                      "    cap = _parsed_caps.get(key)\n"
                      "    if cap is None:\n"
                      "        cap = _parse(u, deep_immutable, name)\n"
                      "        if not isinstance(cap, UnknownURI):\n"
                      "            _parsed_caps[key] = cap\n"
                      "    return cap\n\n"
                      "def _parse(u, deep_immutable, name):\n"
                      "    # We allow and check ALLEGED_READONLY_PREFIX")
FS_MEMO_DECL = FS_DEF.replace("\n\ndef from_string(", "\n\n_parsed_caps = {}  # cap string -> cap object\n\ndef from_string(")
FS_WRAPPED_GET = ("ALLEGED_IMMUTABLE_PREFIX = b'imm.'\n\n"
                  "_recent_caps = {}\n\n"
                  "def from_string(u, deep_immutable=False, name=u\"<unknown name>\"):\n"
                  "    \"\"\"Create URI from either unicode or byte string.\"\"\"\n"
                  "    cap = _recent_caps.get(u)\n"
                  "    if cap is None:\n"
                  "        cap = _from_string(u, deep_immutable, name)\n"
                  "        if not isinstance(cap, UnknownURI):\n"
                  "            _recent_caps[u] = cap\n"
                  "    return cap\n\n"
                  "def _from_string(u, deep_immutable, name):\n")
FS_HELPER_NO_CTX = ("        raise TypeError(\"URI must be unicode string or bytes: %r\" % (u,))\n\n"
                    "    return _parse(u, name=name)\n\n"
                    "def _parse(u, deep_immutable=False, name=u\"<unknown name>\"):\n"
                    "    # We allow and check ALLEGED_READONLY_PREFIX")
UN_MOVE = ("                given_ro_uri = given_rw_uri\n"
           "                given_rw_uri = None\n")
NM_KEY = ("        if deep_immutable:\n            memokey = b\"I\" + bigcap\n"
          "        else:\n            memokey = b\"M\" + bigcap\n")
UN_BOTH_IMM = ("            elif given_ro_uri.startswith(ALLEGED_IMMUTABLE_PREFIX):\n"
               "                # Strange corner case")

FLAGS_INIT = "can_be_mutable = can_be_writeable = not deep_immutable"
FLAGS_IMM_CLEAR = "can_be_mutable = can_be_writeable = False"
CBW_RO_CLEAR = "        can_be_writeable = False\n        s = s[len(ALLEGED_READONLY_PREFIX):]"
CBM_SITES = [FLAGS_INIT, FLAGS_IMM_CLEAR] + [
    "if can_be_mutable:\n                return %s.init_from_string" % k
    for k in ("ReadonlySSKFileURI", "ReadonlyMDMFFileURI", "ReadonlyDirectoryURI", "ReadonlyMDMFDirectoryURI")] + [
    "and not can_be_mutable:", "        if not can_be_mutable:\n            error"]
CBW_SITES = [FLAGS_INIT, FLAGS_IMM_CLEAR, CBW_RO_CLEAR] + [
    "if can_be_writeable:\n                return %s.init_from_string" % k
    for k in ("WriteableSSKFileURI", "WriteableMDMFFileURI", "DirectoryURI", "MDMFDirectoryURI")] + [
    "and not can_be_writeable:"]


# ---- C16.16: a second entry into the kind dispatch (helper / recursive call) after a prefix was found
FS_UNKNOWN_ELSE = "        else:\n            return UnknownURI(u)\n\n        # We fell through because a constraint was not met.\n"
FS_UNKNOWN_TAIL = "\n        # We fell through because a constraint was not met.\n"
URI_IMPORTS = "import re\nfrom typing import Type\n"
URI_IMPORTS_UNQUOTE = "import re\nfrom typing import Type\nfrom urllib.parse import unquote_to_bytes\n"
FS_IS_URI = "def is_uri(s):\n    try:\n        from_string(s, deep_immutable=False)"
NM_IMPORT_UNKNOWN = "from allmydata.unknown import UnknownNode\n"
NM_CREATE_DEF = "    def create_from_cap(self, writecap, readcap=None, deep_immutable=False, name=u\"<unknown name>\"):\n"


def _rename(mid, name, new, contexts, expect, extra=()):
    """Consistent rename of a local of uri.from_string: one edit per occurrence (each context is unique in the file)."""
    eds = [(U, c, c.replace(name, new)) for c in contexts]
    return M(mid, U, eds[0][1], eds[0][2], expect, edits=eds[1:] + list(extra))


UN_RW_TEST = ("                if not (given_rw_uri.startswith(ALLEGED_READONLY_PREFIX)\n"
              "                        or given_rw_uri.startswith(ALLEGED_IMMUTABLE_PREFIX)):")
UN_RO_TEST = ("                if (given_ro_uri.startswith(ALLEGED_READONLY_PREFIX) or\n"
              "                    given_ro_uri.startswith(ALLEGED_IMMUTABLE_PREFIX)):")
FS_PREFIX_BLOCK = ("    if s.startswith(ALLEGED_IMMUTABLE_PREFIX):\n"
                   "        can_be_mutable = can_be_writeable = False\n"
                   "        s = s[len(ALLEGED_IMMUTABLE_PREFIX):]\n"
                   "    elif s.startswith(ALLEGED_READONLY_PREFIX):\n"
                   "        can_be_writeable = False\n"
                   "        s = s[len(ALLEGED_READONLY_PREFIX):]\n")


def fs_prefix_tuple(outer="(ALLEGED_IMMUTABLE_PREFIX, ALLEGED_READONLY_PREFIX)", inner="ALLEGED_IMMUTABLE_PREFIX",
                    clear="            can_be_mutable = False\n"):
    """from_string's prefix handling with one tuple test, told apart inside."""
    return ("    if s.startswith(%s):\n"
            "        can_be_writeable = False\n"
            "        if s.startswith(%s):\n"
            "%s"
            "            s = s[len(ALLEGED_IMMUTABLE_PREFIX):]\n"
            "        else:\n"
            "            s = s[len(ALLEGED_READONLY_PREFIX):]\n") % (outer, inner, clear)


# ---- the kind dispatch of from_string as data: the if-chain of /repo and its table-driven rewrite are both generated
# from it (seeded C16-I turned the chain into a table of rows and the prefix handling into a table-driven helper)
_KINDS = [
    ("URI:CHK:", "CHKFileURI", None, None),
    ("URI:CHK-Verifier:", "CHKFileVerifierURI", None, None),
    ("URI:LIT:", "LiteralFileURI", None, None),
    ("URI:SSK:", "WriteableSSKFileURI", "W", "URI:SSK file writecap"),
    ("URI:SSK-RO:", "ReadonlySSKFileURI", "M", "URI:SSK-RO readcap to a mutable file"),
    ("URI:SSK-Verifier:", "SSKVerifierURI", None, None),
    ("URI:MDMF:", "WriteableMDMFFileURI", "W", "URI:MDMF file writecap"),
    ("URI:MDMF-RO:", "ReadonlyMDMFFileURI", "M", "URI:MDMF-RO readcap to a mutable file"),
    ("URI:MDMF-Verifier:", "MDMFVerifierURI", None, None),
    ("URI:DIR2:", "DirectoryURI", "W", "URI:DIR2 directory writecap"),
    ("URI:DIR2-RO:", "ReadonlyDirectoryURI", "M", "URI:DIR2-RO readcap to a mutable directory"),
    ("URI:DIR2-Verifier:", "DirectoryURIVerifier", None, None),
    ("URI:DIR2-CHK:", "ImmutableDirectoryURI", None, None),
    ("URI:DIR2-CHK-Verifier:", "ImmutableDirectoryURIVerifier", None, None),
    ("URI:DIR2-LIT:", "LiteralDirectoryURI", None, None),
    ("URI:DIR2-MDMF:", "MDMFDirectoryURI", "W", "URI:DIR2-MDMF directory writecap"),
    ("URI:DIR2-MDMF-RO:", "ReadonlyMDMFDirectoryURI", "M", "URI:DIR2-MDMF-RO readcap to a mutable directory"),
    ("URI:DIR2-MDMF-Verifier:", "MDMFDirectoryURIVerifier", None, None),
]
_FLAG = {"W": "can_be_writeable", "M": "can_be_mutable"}


def _fs_chain():
    out = ["    s = u\n    can_be_mutable = can_be_writeable = not deep_immutable\n"
           "    if s.startswith(ALLEGED_IMMUTABLE_PREFIX):\n        can_be_mutable = can_be_writeable = False\n"
           "        s = s[len(ALLEGED_IMMUTABLE_PREFIX):]\n    elif s.startswith(ALLEGED_READONLY_PREFIX):\n"
           "        can_be_writeable = False\n        s = s[len(ALLEGED_READONLY_PREFIX):]\n\n    error = None\n    try:\n"]
    for i, (pfx, k, gate, what) in enumerate(_KINDS):
        out.append("        %s s.startswith(b'%s'):\n" % ("elif" if i else "if", pfx))
        if gate is None:
            out.append("            return %s.init_from_string(s)\n" % k)
        else:
            out.append("            if %s:\n                return %s.init_from_string(s)\n            kind = \"%s\"\n" % (_FLAG[gate], k, what))
    out.append("        elif s.startswith(b'x-tahoe-future-test-writeable:') and not can_be_writeable:\n"
               "            # For testing how future writeable caps would behave in read-only contexts.\n"
               "            kind = \"x-tahoe-future-test-writeable: testing cap\"\n"
               "        elif s.startswith(b'x-tahoe-future-test-mutable:') and not can_be_mutable:\n"
               "            # For testing how future mutable readcaps would behave in immutable contexts.\n"
               "            kind = \"x-tahoe-future-test-mutable: testing cap\"\n"
               "        else:\n            return UnknownURI(u)\n\n"
               "        # We fell through because a constraint was not met.\n        # Prefer to report the most specific constraint.\n"
               "        if not can_be_mutable:\n            error = MustBeDeepImmutableError(kind + \" used in an immutable context\", name)\n"
               "        else:\n            error = MustBeReadonlyError(kind + \" used in a read-only context\", name)\n\n"
               "    except BadURIError as e:\n        error = e\n\n    return UnknownURI(u, error=error)\n\ndef is_uri(s):\n")
    return "".join(out)


def _fs_table(ro_row="True,           False", strip_ret="can_be_mutable and not deep_immutable, can_be_writeable and not deep_immutable",
              rows=None, allowed_w="can_be_writeable", lookup="loop", refused_tail=None, cut="len(prefix)"):
    """from_string rewritten table-driven (tables and helper placed behind it: they are looked up at call time)."""
    body = ("    (s, can_be_mutable, can_be_writeable) = _strip_alleged_prefix(u, deep_immutable)\n"
            "    allowed = {\n        None: True,\n        _WRITEABLE: %s,\n        _MUTABLE: can_be_mutable,\n    }\n\n" % allowed_w)
    if lookup == "loop":
        body += ("    for (prefix, cls, requires, kind) in _KNOWN_CAPS:\n        if s.startswith(prefix):\n            break\n"
                 "    else:\n        return UnknownURI(u)\n\n")
    else:
        body += ("    row = next((r for r in _KNOWN_CAPS if s.startswith(r[0])), None)\n    if row is None:\n"
                 "        return UnknownURI(u)\n    (prefix, cls, requires, kind) = row\n\n")
    body += ("    if allowed[requires]:\n        if cls is None:\n            # a testing cap in a context that does not constrain it\n"
             "            return UnknownURI(u)\n        try:\n            return cls.init_from_string(s)\n"
             "        except BadURIError as e:\n            return UnknownURI(u, error=e)\n\n")
    body += refused_tail or (
        "    # A constraint was not met.\n    # Prefer to report the most specific constraint.\n    if not can_be_mutable:\n"
        "        error = MustBeDeepImmutableError(kind + \" used in an immutable context\", name)\n    else:\n"
        "        error = MustBeReadonlyError(kind + \" used in a read-only context\", name)\n    return UnknownURI(u, error=error)\n")
    tbl = "\n_WRITEABLE = \"writeable\"\n_MUTABLE = \"mutable\"\n\n_KNOWN_CAPS = (\n"
    for (pfx, k, gate, what) in (rows or _KINDS):
        tbl += "    (b'%s', %s, %s, %s),\n" % (pfx, k, {"W": "_WRITEABLE", "M": "_MUTABLE", None: "None"}[gate],
                                              ("\"%s\"" % what) if what else "None")
    tbl += ("    (b'x-tahoe-future-test-writeable:', None, _WRITEABLE, \"x-tahoe-future-test-writeable: testing cap\"),\n"
            "    (b'x-tahoe-future-test-mutable:', None, _MUTABLE, \"x-tahoe-future-test-mutable: testing cap\"),\n)\n\n"
            "_ALLEGED_PREFIXES = (\n    # prefix,                  can be mutable, can be writeable\n"
            "    (ALLEGED_IMMUTABLE_PREFIX, False,          False),\n    (ALLEGED_READONLY_PREFIX,  %s),\n)\n\n" % ro_row)
    tbl += ("def _strip_alleged_prefix(s, deep_immutable):\n    for (prefix, can_be_mutable, can_be_writeable) in _ALLEGED_PREFIXES:\n"
            "        if s.startswith(prefix):\n            return (s[%s:], %s)\n"
            "    return (s, not deep_immutable, not deep_immutable)\n\n" % (cut, strip_ret))
    return body + tbl + "\ndef is_uri(s):\n"


# ---- the refactor seeded as C15-I: the str/bytes step and the alleged-prefix handling of from_string (and of the two
#      prefix predicates) moved into module-level helpers; the if-chain over the kinds is kept, but its flags are computed
#      from the tuple the helper returns
H_FS_DEF = "def from_string(u, deep_immutable=False, name=u\"<unknown name>\"):\n"
H_TO_BYTES = ("def _to_bytes_or_none(s):\n    if isinstance(s, str):\n        s = s.encode(\"utf-8\")\n"
              "    if not isinstance(s, bytes):\n        return None\n    return s\n\n")
H_SPLIT_HEAD = ("def _split_alleged_prefix(s):\n    alleged_immutable = s.startswith(ALLEGED_IMMUTABLE_PREFIX)\n"
                "    alleged_readonly = s.startswith(ALLEGED_READONLY_PREFIX)\n")
H_SPLIT_TAIL = "    return rest, alleged_immutable, alleged_readonly\n\n"
H_SPLIT_SLIP = H_SPLIT_HEAD + "    rest = s.removeprefix(ALLEGED_IMMUTABLE_PREFIX).removeprefix(ALLEGED_READONLY_PREFIX)\n" + H_SPLIT_TAIL
H_SPLIT_ONE = H_SPLIT_HEAD + ("    if alleged_immutable:\n        rest = s.removeprefix(ALLEGED_IMMUTABLE_PREFIX)\n"
                              "    else:\n        rest = s.removeprefix(ALLEGED_READONLY_PREFIX)\n") + H_SPLIT_TAIL
H_SPLIT_CHAIN = ("def _split_alleged_prefix(s):\n    if s.startswith(ALLEGED_IMMUTABLE_PREFIX):\n"
                 "        return s[len(ALLEGED_IMMUTABLE_PREFIX):], True, False\n"
                 "    elif s.startswith(ALLEGED_READONLY_PREFIX):\n        return s[len(ALLEGED_READONLY_PREFIX):], False, True\n"
                 "    return s, False, False\n\n")
H_TYPE_OLD = ("    if isinstance(u, str):\n        u = u.encode(\"utf-8\")\n    if not isinstance(u, bytes):\n"
              "        raise TypeError(\"URI must be unicode string or bytes: %r\" % (u,))\n")
H_TYPE_NEW = ("    given, u = u, _to_bytes_or_none(u)\n    if u is None:\n"
              "        raise TypeError(\"URI must be unicode string or bytes: %r\" % (given,))\n")
H_PREFIX_OLD = ("    s = u\n    can_be_mutable = can_be_writeable = not deep_immutable\n"
                "    if s.startswith(ALLEGED_IMMUTABLE_PREFIX):\n        can_be_mutable = can_be_writeable = False\n"
                "        s = s[len(ALLEGED_IMMUTABLE_PREFIX):]\n"
                "    elif s.startswith(ALLEGED_READONLY_PREFIX):\n        can_be_writeable = False\n"
                "        s = s[len(ALLEGED_READONLY_PREFIX):]\n")
H_UNPACK = "    s, alleged_immutable, alleged_readonly = _split_alleged_prefix(u)\n"
H_FLAGS = ("    can_be_mutable = not (deep_immutable or alleged_immutable)\n"
           "    can_be_writeable = can_be_mutable and not alleged_readonly\n")
H_PRED_GUARD = "    if isinstance(s, str):\n        s = s.encode(\"utf-8\")\n    if not isinstance(s, bytes):\n        return False\n"
H_LIT_OLD = "def is_literal_file_uri(s):\n" + H_PRED_GUARD + (
    "    return (s.startswith(b'URI:LIT:') or\n            s.startswith(ALLEGED_READONLY_PREFIX + b'URI:LIT:') or\n"
    "            s.startswith(ALLEGED_IMMUTABLE_PREFIX + b'URI:LIT:'))\n")
H_URI_OLD = "def has_uri_prefix(s):\n" + H_PRED_GUARD + (
    "    return (s.startswith(b\"URI:\") or\n            s.startswith(ALLEGED_READONLY_PREFIX + b'URI:') or\n"
    "            s.startswith(ALLEGED_IMMUTABLE_PREFIX + b'URI:'))\n")
H_PRED_GUARD_NEW = "    s = _to_bytes_or_none(s)\n    if s is None:\n        return False\n"
H_LIT_NEW = "def is_literal_file_uri(s):\n" + H_PRED_GUARD_NEW + "    return _split_alleged_prefix(s)[0].startswith(b'URI:LIT:')\n"
H_URI_NEW = "def has_uri_prefix(s):\n" + H_PRED_GUARD_NEW + "    return _split_alleged_prefix(s)[0].startswith(b'URI:')\n"
H_PRED_EDITS = [(U, H_LIT_OLD, H_LIT_NEW), (U, H_URI_OLD, H_URI_NEW)]


def _fs_helpers(mid, expect, split=H_SPLIT_ONE, unpack=H_UNPACK, flags=H_FLAGS, more=(), note=""):
    return M(mid, U, H_FS_DEF, H_TO_BYTES + split + H_FS_DEF, expect,
             edits=[(U, H_TYPE_OLD, H_TYPE_NEW), (U, H_PREFIX_OLD, unpack + flags)] + H_PRED_EDITS + list(more), note=note)


FS_CHAIN = _fs_chain()
_ROWS_DIR2RO_UNGATED = [(p_, k_, None if k_ == "ReadonlyDirectoryURI" else g_, None if k_ == "ReadonlyDirectoryURI" else w_)
                        for (p_, k_, g_, w_) in _KINDS]

MUTANTS = [
    # ---- C16.1 diminishing constructors
    M("ssk-readonly-gets-writekey", U, "return ReadonlySSKFileURI(self.readkey, self.fingerprint)",
      "return ReadonlySSKFileURI(self.writekey, self.fingerprint)", "C16.1"),
    M("mdmf-verifier-gets-readkey", U,
      "        return ReadonlyMDMFFileURI(self.readkey, self.fingerprint)\n\n    def get_verify_cap(self):\n        return MDMFVerifierURI(self.storage_index, self.fingerprint)",
      "        return ReadonlyMDMFFileURI(self.readkey, self.fingerprint)\n\n    def get_verify_cap(self):\n        return MDMFVerifierURI(self.readkey, self.fingerprint)", "C16.1"),
    M("dir-readonly-wraps-writecap", U, "return ReadonlyDirectoryURI(self._filenode_uri.get_readonly())",
      "return ReadonlyDirectoryURI(self._filenode_uri)", "C16.1"),
    M("mdmf-dir-readonly-returns-self", U, "return ReadonlyMDMFDirectoryURI(self._filenode_uri.get_readonly())", "return self", "C16.1"),
    M("chk-verifier-gets-key", U, "return CHKFileVerifierURI(storage_index=self.storage_index,",
      "return CHKFileVerifierURI(storage_index=self.key,", "C16.1"),
    M("ssk-ro-verifier-other-fingerprint", U,
      "        return self\n\n    def get_verify_cap(self):\n        return SSKVerifierURI(self.storage_index, self.fingerprint)",
      "        return self\n\n    def get_verify_cap(self):\n        return SSKVerifierURI(self.fingerprint[:16], self.fingerprint)", "C16.1"),
    M("ssk-readonly-is-writeable-class", U, "return ReadonlySSKFileURI(self.readkey, self.fingerprint)",
      "return WriteableSSKFileURI(self.writekey, self.fingerprint)", "C16.1"),
    M("benign-ssk-readonly-hoisted", U, "        return ReadonlySSKFileURI(self.readkey, self.fingerprint)",
      "        rk = self.readkey\n        return ReadonlySSKFileURI(rk, self.fingerprint)", None),
    M("benign-mdmf-readonly-keywords", U, "return ReadonlyMDMFFileURI(self.readkey, self.fingerprint)",
      "return ReadonlyMDMFFileURI(fingerprint=self.fingerprint, readkey=self.readkey)", None),
    # ---- C16.2 wrapper kind follows the inner kind
    M("dir2-chk-verifier-wrong-wrapper", U, "        return ImmutableDirectoryURIVerifier(vcap)", "        return DirectoryURIVerifier(vcap)", "C16.2"),
    M("mdmf-dir-readonly-wrong-wrapper", U, "return ReadonlyMDMFDirectoryURI(self._filenode_uri.get_readonly())",
      "return ReadonlyDirectoryURI(self._filenode_uri.get_readonly())", "C16.2"),
    M("benign-dir-verifier-returns-self", U,
      "    def get_readonly(self):\n        return self\n\n\n@implementer(IVerifierURI)\nclass ImmutableDirectoryURIVerifier",
      "    def get_readonly(self):\n        return self\n\n    def get_verify_cap(self):\n        return self\n\n\n@implementer(IVerifierURI)\nclass ImmutableDirectoryURIVerifier", None),
    # ---- C16.3 same storage index along the chain
    M("ssk-ro-si-salted", U, SSK_RO_HEAD, SSK_RO_HEAD.replace("ssk_storage_index_hash(self.readkey)", "ssk_storage_index_hash(self.readkey + fingerprint)"), "C16.3"),
    M("mdmf-readkey-is-writekey", U, MDMF_W_HEAD, MDMF_W_HEAD.replace("hashutil.ssk_readkey_hash(writekey)", "writekey"), "C16.3"),
    M("chk-si-from-ueb", U, "self.storage_index = hashutil.storage_index_hash(self.key)", "self.storage_index = hashutil.storage_index_hash(self.uri_extension_hash)", "C16.3"),
    M("benign-ssk-ro-si-from-param", U, SSK_RO_HEAD, SSK_RO_HEAD.replace("ssk_storage_index_hash(self.readkey)", "ssk_storage_index_hash(readkey)"), None),
    # ---- C16.4 constants table
    M("ssk-ro-not-mutable", U,
      "    def is_readonly(self):\n        return True\n\n    def is_mutable(self):\n        return True\n\n    def get_readonly(self):\n        return self\n\n    def get_verify_cap(self):\n        return SSKVerifierURI",
      "    def is_readonly(self):\n        return True\n\n    def is_mutable(self):\n        return False\n\n    def get_readonly(self):\n        return self\n\n    def get_verify_cap(self):\n        return SSKVerifierURI", "C16.4"),
    M("mdmf-writeable-claims-readonly", U,
      "    def is_readonly(self):\n        return False\n\n    def is_mutable(self):\n        return True\n\n    def get_readonly(self):\n        return ReadonlyMDMFFileURI",
      "    def is_readonly(self):\n        return True\n\n    def is_mutable(self):\n        return True\n\n    def get_readonly(self):\n        return ReadonlyMDMFFileURI", "C16.4"),
    M("mdmf-ro-dir-wraps-writeable", U, "    INNER_URI_CLASS=ReadonlyMDMFFileURI", "    INNER_URI_CLASS=WriteableMDMFFileURI", "C16.4"),
    M("wrap-readonly-as-writeable-dir", U, "    if isinstance(filecap, ReadonlySSKFileURI):\n        return ReadonlyDirectoryURI(filecap)",
      "    if isinstance(filecap, ReadonlySSKFileURI):\n        return DirectoryURI(filecap)", "C16.4"),
    M("mdmf-dir-verifier-mutable", U, MDMF_DV, MDMF_DV.replace("return False", "return True"), "C16.4"),
    M("dir-ro-not-readonly", U, "    INNER_URI_CLASS=ReadonlySSKFileURI\n\n    def __init__(self, filenode_uri=None):\n        if filenode_uri:\n            assert filenode_uri.is_readonly()\n        _DirectoryBaseURI.__init__(self, filenode_uri)\n\n    def is_readonly(self):\n        return True",
      "    INNER_URI_CLASS=ReadonlySSKFileURI\n\n    def __init__(self, filenode_uri=None):\n        if filenode_uri:\n            assert filenode_uri.is_readonly()\n        _DirectoryBaseURI.__init__(self, filenode_uri)\n\n    def is_readonly(self):\n        return False", "C16.4"),
    M("benign-dir-ro-explicit-mutable", U, "    INNER_URI_CLASS=ReadonlySSKFileURI\n",
      "    INNER_URI_CLASS=ReadonlySSKFileURI\n\n    def is_mutable(self):\n        return True\n", None),
    # ---- C16.5 from_string guards
    M("ssk-guard-dropped", U,
      "        elif s.startswith(b'URI:SSK:'):\n            if can_be_writeable:\n                return WriteableSSKFileURI.init_from_string(s)\n            kind = \"URI:SSK file writecap\"\n",
      "        elif s.startswith(b'URI:SSK:'):\n            return WriteableSSKFileURI.init_from_string(s)\n", "C16.5"),
    M("dir2-mdmf-guard-wrong-flag", U, "            if can_be_writeable:\n                return MDMFDirectoryURI.init_from_string(s)",
      "            if can_be_mutable:\n                return MDMFDirectoryURI.init_from_string(s)", "C16.5"),
    M("mdmf-ro-guard-always", U, "            if can_be_mutable:\n                return ReadonlyMDMFFileURI.init_from_string(s)",
      "            if True:\n                return ReadonlyMDMFFileURI.init_from_string(s)", "C16.5"),
    M("ro-prefix-does-not-clear", U, "    elif s.startswith(ALLEGED_READONLY_PREFIX):\n        can_be_writeable = False\n",
      "    elif s.startswith(ALLEGED_READONLY_PREFIX):\n", "C16.5"),
    M("imm-prefix-keeps-writeable", U, "        can_be_mutable = can_be_writeable = False\n", "        can_be_mutable = False\n", "C16.5"),
    M("flags-ignore-context", U, "can_be_mutable = can_be_writeable = not deep_immutable", "can_be_mutable = can_be_writeable = True", "C16.5"),
    M("benign-guard-inverted", U,
      "            if can_be_writeable:\n                return DirectoryURI.init_from_string(s)\n            kind = \"URI:DIR2 directory writecap\"\n",
      "            if not can_be_writeable:\n                kind = \"URI:DIR2 directory writecap\"\n            else:\n                return DirectoryURI.init_from_string(s)\n", None),
    M("benign-flags-split", U, "    can_be_mutable = can_be_writeable = not deep_immutable\n",
      "    can_be_mutable = not deep_immutable\n    can_be_writeable = not deep_immutable\n", None),
    # the flags are found by what they hold, not by what they are called
    _rename("benign-flag-mutable-renamed", "can_be_mutable", "can_be_mutable_sa", CBM_SITES, None),
    _rename("benign-flag-writeable-renamed", "can_be_writeable", "may_write", CBW_SITES, None),
    _rename("renamed-flag-ro-prefix-does-not-clear", "can_be_writeable", "may_write",
            [c for c in CBW_SITES if c != CBW_RO_CLEAR], "C16.5",
            extra=[(U, CBW_RO_CLEAR, "        s = s[len(ALLEGED_READONLY_PREFIX):]")]),
    _rename("renamed-flag-imm-prefix-keeps-mutable", "can_be_mutable", "flag_m",
            [c for c in CBM_SITES if c != FLAGS_IMM_CLEAR], "C16.5",
            extra=[(U, FLAGS_IMM_CLEAR, "can_be_writeable = False")]),
    _rename("renamed-flag-refusal-error-dropped", "can_be_mutable", "flag_m", CBM_SITES, "C16.10", extra=[(U,
      "        else:\n            error = MustBeReadonlyError(kind + \" used in a read-only context\", name)\n", "")]),
    # ---- C16.6 UnknownNode
    M("unknown-rw-stored-early", K, "        if deep_immutable:\n            assert self.rw_uri is None\n",
      "        self.rw_uri = given_rw_uri\n        if deep_immutable:\n", "C16.6"),
    M("unknown-imm-ctx-keeps-ro-prefix", K,
      "                    self.ro_uri = ALLEGED_IMMUTABLE_PREFIX + given_ro_uri[len(ALLEGED_READONLY_PREFIX):]",
      "                    self.ro_uri = given_ro_uri", "C16.6"),
    M("unknown-no-prefix", K, "                    self.ro_uri = ALLEGED_READONLY_PREFIX + given_ro_uri", "                    self.ro_uri = given_ro_uri", "C16.6"),
    M("unknown-imm-ctx-ro-prefix", K, "                    self.ro_uri = ALLEGED_IMMUTABLE_PREFIX + given_ro_uri\n",
      "                    self.ro_uri = ALLEGED_READONLY_PREFIX + given_ro_uri\n", "C16.6"),
    M("strip-imm-in-mutable-ctx", K, "        if not deep_immutable:\n            return ro_uri\n        return ro_uri[len(ALLEGED_IMMUTABLE_PREFIX):]",
      "        return ro_uri[len(ALLEGED_IMMUTABLE_PREFIX):]", "C16.6"),
    M("benign-strip-rewritten", K, "        if not deep_immutable:\n            return ro_uri\n        return ro_uri[len(ALLEGED_IMMUTABLE_PREFIX):]",
      "        if deep_immutable:\n            return ro_uri[len(ALLEGED_IMMUTABLE_PREFIX):]\n        return ro_uri", None),
    M("benign-unknown-prefix-tests-swapped", K,
      "                if (given_ro_uri.startswith(ALLEGED_READONLY_PREFIX) or\n                    given_ro_uri.startswith(ALLEGED_IMMUTABLE_PREFIX)):",
      "                if (given_ro_uri.startswith(ALLEGED_IMMUTABLE_PREFIX) or\n                    given_ro_uri.startswith(ALLEGED_READONLY_PREFIX)):", None),
    # ---- C16.7 deep_immutable plumbing
    M("nodemaker-from-string-loses-context", NM, "cap = uri.from_string(bigcap, deep_immutable=deep_immutable,\n                                  name=name)",
      "cap = uri.from_string(bigcap, name=name)", "C16.7"),
    M("nodemaker-cache-key-shared", NM, "            memokey = b\"I\" + bigcap", "            memokey = b\"M\" + bigcap", "C16.7"),
    M("unknown-from-string-mutable-ctx", K, "read_cap = uri.from_string(given_ro_uri, deep_immutable=deep_immutable, name=name)",
      "read_cap = uri.from_string(given_ro_uri, deep_immutable=False, name=name)", "C16.7"),
    M("nodemaker-unknown-loses-context", NM, "node = UnknownNode(writecap, readcap,\n                                   deep_immutable=deep_immutable, name=name)",
      "node = UnknownNode(writecap, readcap, name=name)", "C16.7"),
    M("dirnode-children-always-mutable-ctx", DN, "deep_immutable=not self.is_mutable(),", "deep_immutable=False,", "C16.7"),
    M("benign-cache-key-tuple", NM, "        if deep_immutable:\n            memokey = b\"I\" + bigcap\n        else:\n            memokey = b\"M\" + bigcap\n",
      "        memokey = (deep_immutable, bigcap)\n", None),
    # ---- C16.5 still decided when the parse lives in a helper
    M("helper-ssk-guard-dropped", U, FS_PRELUDE_END, FS_SPLIT, "C16.5", edits=[(U,
      "        elif s.startswith(b'URI:SSK:'):\n            if can_be_writeable:\n                return WriteableSSKFileURI.init_from_string(s)\n            kind = \"URI:SSK file writecap\"\n",
      "        elif s.startswith(b'URI:SSK:'):\n            return WriteableSSKFileURI.init_from_string(s)\n")]),
    M("helper-flags-ignore-context", U, FS_PRELUDE_END, FS_SPLIT, "C16.5", edits=[(U,
      "can_be_mutable = can_be_writeable = not deep_immutable", "can_be_mutable = can_be_writeable = True")]),
    # ---- C16.8 UnknownNode: an alleged ro./imm. cap never stays in the write slot
    M("unknown-prefixed-cap-stays-rw", K, UN_MOVE, "                given_ro_uri = given_rw_uri\n", "C16.8"),
    M("unknown-rw-cleared-only-for-imm", K, UN_MOVE,
      "                given_ro_uri = given_rw_uri\n"
      "                if given_rw_uri.startswith(ALLEGED_IMMUTABLE_PREFIX):\n"
      "                    given_rw_uri = None\n", "C16.8"),
    M("unknown-rw-falls-back-to-ro", K, "            self.rw_uri = given_rw_uri\n", "            self.rw_uri = given_rw_uri or given_ro_uri\n", "C16.8"),
    M("unknown-rw-with-imm-ro-accepted", K, UN_BOTH_IMM,
      "            elif given_ro_uri.startswith(ALLEGED_IMMUTABLE_PREFIX) and deep_immutable:\n"
      "                # Strange corner case", "C16.8"),
    M("benign-unknown-move-tuple-assign", K, UN_MOVE, "                given_ro_uri, given_rw_uri = given_rw_uri, None\n", None),
    M("benign-unknown-move-via-temp", K, UN_MOVE,
      "                cap = given_rw_uri\n                given_rw_uri = None\n                given_ro_uri = cap\n", None),
    # ---- C16.9 from_string's result depends on this call's context
    M("from-string-memo-by-string", U, FS_DEF, FS_MEMO_DECL, "C16.9", edits=[(U, FS_PRELUDE_END, FS_MEMO_BY_STRING)]),
    M("from-string-wrapped-get-by-string", U, FS_DEF, FS_WRAPPED_GET, "C16.9"),
    M("from-string-helper-loses-context", U, FS_PRELUDE_END, FS_HELPER_NO_CTX, "C16.9"),
    M("benign-from-string-body-in-helper", U, FS_PRELUDE_END, FS_SPLIT, None),
    M("benign-from-string-memo-by-context", U, FS_DEF, FS_MEMO_DECL, None, edits=[(U, FS_PRELUDE_END, FS_MEMO_BY_CONTEXT)]),
    # ---- C16.10 a refused cap is reported as refused
    M("refusal-readonly-error-dropped", U,
      "        if not can_be_mutable:\n            error = MustBeDeepImmutableError(kind + \" used in an immutable context\", name)\n"
      "        else:\n            error = MustBeReadonlyError(kind + \" used in a read-only context\", name)\n",
      "        if not can_be_mutable:\n            error = MustBeDeepImmutableError(kind + \" used in an immutable context\", name)\n", "C16.10"),
    M("refusal-immutable-error-dropped", U,
      "        if not can_be_mutable:\n            error = MustBeDeepImmutableError(kind + \" used in an immutable context\", name)\n"
      "        else:\n            error = MustBeReadonlyError(kind + \" used in a read-only context\", name)\n",
      "        if can_be_mutable:\n            error = MustBeReadonlyError(kind + \" used in a read-only context\", name)\n", "C16.10"),
    M("refused-ssk-writecap-plain-unknown", U, "            kind = \"URI:SSK file writecap\"\n", "            return UnknownURI(u)\n", "C16.10"),
    M("ssk-guard-folded-into-dispatch", U,
      "        elif s.startswith(b'URI:SSK:'):\n            if can_be_writeable:\n                return WriteableSSKFileURI.init_from_string(s)\n            kind = \"URI:SSK file writecap\"\n",
      "        elif s.startswith(b'URI:SSK:') and can_be_writeable:\n            return WriteableSSKFileURI.init_from_string(s)\n", "C16.10"),
    M("refusal-returns-none", U, "    return UnknownURI(u, error=error)\n", "    return None\n", "C16.10"),
    M("helper-refusal-error-dropped", U, FS_PRELUDE_END, FS_SPLIT, "C16.10", edits=[(U,
      "        else:\n            error = MustBeReadonlyError(kind + \" used in a read-only context\", name)\n", "")]),
    M("benign-refusal-error-ifexp", U,
      "        if not can_be_mutable:\n            error = MustBeDeepImmutableError(kind + \" used in an immutable context\", name)\n"
      "        else:\n            error = MustBeReadonlyError(kind + \" used in a read-only context\", name)\n",
      "        error = (MustBeReadonlyError(kind + \" used in a read-only context\", name) if can_be_mutable\n"
      "                 else MustBeDeepImmutableError(kind + \" used in an immutable context\", name))\n", None),
    M("benign-error-init-dropped", U, "    error = None\n    try:\n        if s.startswith(b'URI:CHK:'):", "    try:\n        if s.startswith(b'URI:CHK:'):", None),
    M("benign-refusal-returned-directly", U,
      "            error = MustBeReadonlyError(kind + \" used in a read-only context\", name)\n",
      "            return UnknownURI(u, MustBeReadonlyError(kind + \" used in a read-only context\", name))\n", None),
    M("benign-guard-flag-tested-first", U,
      "        elif s.startswith(b'x-tahoe-future-test-writeable:') and not can_be_writeable:",
      "        elif not can_be_writeable and s.startswith(b'x-tahoe-future-test-writeable:'):", None),
    # ---- C16.13 the kind tests examine the cap without the alleged prefix
    M("imm-prefix-not-stripped", U, "        can_be_mutable = can_be_writeable = False\n        s = s[len(ALLEGED_IMMUTABLE_PREFIX):]\n",
      "        can_be_mutable = can_be_writeable = False\n", "C16.13"),
    M("ro-prefix-stripped-as-imm", U, "        s = s[len(ALLEGED_READONLY_PREFIX):]\n", "        s = s[len(ALLEGED_IMMUTABLE_PREFIX):]\n", "C16.13"),
    M("prefix-stripped-into-unused-name", U, "        s = s[len(ALLEGED_READONLY_PREFIX):]\n", "        rest = s[len(ALLEGED_READONLY_PREFIX):]\n", "C16.13"),
    M("benign-imm-prefix-strip-literal", U, "        s = s[len(ALLEGED_IMMUTABLE_PREFIX):]\n", "        s = s[4:]\n", None),
    M("benign-prefix-strip-via-temp", U, "        s = s[len(ALLEGED_READONLY_PREFIX):]\n",
      "        rest = s[len(ALLEGED_READONLY_PREFIX):]\n        s = rest\n", None),
    # ---- C16.11 UnknownNode keeps a cap only after from_string found no refusal
    M("unknown-parse-error-not-recorded", K, "                self.error = read_cap.get_error()\n                if self.error:",
      "                if self.error:", "C16.11"),
    M("unknown-parse-error-test-inverted", K, "                if self.error:\n                    assert self.rw_uri is None and self.ro_uri is None",
      "                if not self.error:\n                    assert self.rw_uri is None and self.ro_uri is None", "C16.11"),
    M("unknown-parse-known-instead-of-unknown", K, "            if isinstance(read_cap, uri.UnknownURI):",
      "            if not isinstance(read_cap, uri.UnknownURI):", "C16.11"),
    M("unknown-parse-only-in-immutable-ctx", K, "        if given_ro_uri:\n            read_cap = uri.from_string(",
      "        if given_ro_uri and deep_immutable:\n            read_cap = uri.from_string(", "C16.11"),
    M("unknown-parse-error-does-not-return", K,
      "                    assert self.rw_uri is None and self.ro_uri is None\n                    return\n",
      "                    assert self.rw_uri is None and self.ro_uri is None\n", "C16.11"),
    M("benign-unknown-parse-error-ifexp", K,
      "            if isinstance(read_cap, uri.UnknownURI):\n                self.error = read_cap.get_error()\n                if self.error:\n"
      "                    assert self.rw_uri is None and self.ro_uri is None\n                    return\n",
      "            self.error = read_cap.get_error() if isinstance(read_cap, uri.UnknownURI) else None\n            if self.error:\n"
      "                assert self.rw_uri is None and self.ro_uri is None\n                return\n", None),
    M("benign-unknown-parse-error-via-local", K,
      "                self.error = read_cap.get_error()\n                if self.error:",
      "                err = read_cap.get_error()\n                self.error = err\n                if err:", None),
    # ---- C16.12 the cap of the write slot reaches ro_uri only when found prefixed
    M("unknown-unprefixed-rw-moved-only-checked-in-imm-ctx", K,
      "                if not (given_rw_uri.startswith(ALLEGED_READONLY_PREFIX)\n                        or given_rw_uri.startswith(ALLEGED_IMMUTABLE_PREFIX)):",
      "                if deep_immutable and not (given_rw_uri.startswith(ALLEGED_READONLY_PREFIX)\n                        or given_rw_uri.startswith(ALLEGED_IMMUTABLE_PREFIX)):", "C16.12"),
    M("unknown-rw-prefix-test-inverted", K,
      "                if not (given_rw_uri.startswith(ALLEGED_READONLY_PREFIX)\n                        or given_rw_uri.startswith(ALLEGED_IMMUTABLE_PREFIX)):",
      "                if (given_rw_uri.startswith(ALLEGED_READONLY_PREFIX)\n                        or given_rw_uri.startswith(ALLEGED_IMMUTABLE_PREFIX)):", "C16.12"),
    M("unknown-ro-falls-back-to-rw", K, "        given_ro_uri = given_ro_uri or None\n", "        given_ro_uri = given_ro_uri or given_rw_uri or None\n", ["C16.12", "C16.8"]),
    M("benign-unknown-rw-prefix-test-de-morgan", K,
      "                if not (given_rw_uri.startswith(ALLEGED_READONLY_PREFIX)\n                        or given_rw_uri.startswith(ALLEGED_IMMUTABLE_PREFIX)):",
      "                if (not given_rw_uri.startswith(ALLEGED_READONLY_PREFIX)\n                        and not given_rw_uri.startswith(ALLEGED_IMMUTABLE_PREFIX)):", None),
    # ---- C16.14 the node cache key keeps the whole string that is parsed
    M("cache-key-alleged-prefix-stripped", NM, NM_KEY,
      "        barecap = bigcap\n"
      "        for prefix in (uri.ALLEGED_IMMUTABLE_PREFIX, uri.ALLEGED_READONLY_PREFIX):\n"
      "            if barecap.startswith(prefix):\n"
      "                barecap = barecap[len(prefix):]\n"
      "                break\n"
      + NM_KEY.replace("+ bigcap", "+ barecap"), "C16.14"),
    M("cache-key-from-uri-marker", NM, NM_KEY, NM_KEY.replace("b\"M\" + bigcap", "b\"M\" + bigcap[bigcap.find(b\"URI:\"):]"), "C16.14"),
    M("cache-key-prefix-replaced", NM, NM_KEY,
      NM_KEY.replace("b\"M\" + bigcap", "b\"M\" + bigcap.replace(uri.ALLEGED_READONLY_PREFIX, b\"\", 1)"), "C16.14"),
    M("cache-lookup-falls-back-to-bare-cap", NM, "        except KeyError:\n            cap = uri.from_string(bigcap",
      "        except KeyError:\n            node = None\n"
      "            if bigcap.startswith(uri.ALLEGED_READONLY_PREFIX):\n"
      "                node = self._node_cache.get(memokey[:1] + bigcap[len(uri.ALLEGED_READONLY_PREFIX):])\n"
      "        if node is None:\n            cap = uri.from_string(bigcap", "C16.14"),
    M("cache-stored-under-bare-cap-too", NM, "                self._node_cache[memokey] = node  # note: WeakValueDictionary\n",
      "                self._node_cache[memokey] = node  # note: WeakValueDictionary\n"
      "                self._node_cache[memokey[:1] + bigcap.split(b\".\", 1)[-1]] = node\n", "C16.14"),
    M("cache-key-from-writecap-only", NM, NM_KEY, NM_KEY.replace("b\"M\" + bigcap", "b\"M\" + (writecap or b\"\")"), "C16.14"),
    # C16.14, key made by a function of the package: the function is followed, a return that drops part of the string is lossy
    M("cache-key-via-strip-prefix-for-ro", NM, NM_KEY,
      "        memocap = strip_prefix_for_ro(bigcap, deep_immutable)\n" + NM_KEY.replace("+ bigcap", "+ memocap"), "C16.14",
      edits=[(NM, NM_IMPORT_UNKNOWN, "from allmydata.unknown import UnknownNode, strip_prefix_for_ro\n")],
      note="seeded C16-H: b'ro.<cap>' and b'<cap>' share one entry; a hit returns the writeable node without from_string's prefix check"),
    M("cache-key-via-own-normalising-method", NM, NM_KEY, NM_KEY.replace("+ bigcap", "+ self._bare(bigcap)"), "C16.14",
      edits=[(NM, NM_CREATE_DEF,
              "    def _bare(self, cap):\n        if cap.startswith(uri.ALLEGED_READONLY_PREFIX):\n"
              "            return cap[len(uri.ALLEGED_READONLY_PREFIX):]\n        return cap\n\n" + NM_CREATE_DEF)],
      note="the same effect through a method of the node maker"),
    M("cache-key-via-nested-helper-partition", NM, NM_KEY,
      "        def keyof(tag, cap):\n            return tag + cap.rpartition(b\".\")[2]\n"
      "        memokey = keyof(b\"I\" if deep_immutable else b\"M\", bigcap)\n", "C16.14"),
    M("benign-cache-key-built-by-helper", NM, NM_KEY, "        memokey = self._memokey(deep_immutable, bigcap)\n", None,
      edits=[(NM, NM_CREATE_DEF,
              "    def _memokey(self, deep_immutable, cap):\n        tag = b\"I\" if deep_immutable else b\"M\"\n"
              "        return tag + cap\n\n" + NM_CREATE_DEF)],
      note="the key is still context tag + whole string, only built in a method"),
    M("benign-cache-key-via-identity-function", NM, NM_KEY,
      "        def same(cap):\n            if not cap:\n                return cap\n            return cap\n" + NM_KEY.replace("+ bigcap", "+ same(bigcap)"), None),
    M("benign-cache-key-ifexp-tag", NM, NM_KEY, "        memokey = (b\"I\" if deep_immutable else b\"M\") + bigcap\n", None),
    M("benign-cache-key-via-copy", NM, NM_KEY, "        capstr = bigcap\n" + NM_KEY.replace("+ bigcap", "+ capstr"), None),
    M("benign-cache-get-instead-of-try", NM,
      "        try:\n            node = self._node_cache[memokey]\n        except KeyError:\n            cap = uri.from_string(bigcap",
      "        node = self._node_cache.get(memokey)\n        if node is None:\n            cap = uri.from_string(bigcap", None),
    M("benign-cache-key-tagged-tuple-with-extra", NM, NM_KEY, "        memokey = (deep_immutable, bigcap, len(bigcap))\n", None),
    # ---- C16.15 from_string / UnknownNode are handed the given strings themselves
    M("given-cap-normalised-before-parse", NM, "        # The name doesn't matter for caching since",
      "        if bigcap.startswith(uri.ALLEGED_READONLY_PREFIX):\n"
      "            bigcap = bigcap[len(uri.ALLEGED_READONLY_PREFIX):]\n"
      "        # The name doesn't matter for caching since", ["C16.15", "C16.14"]),
    M("parse-of-stripped-cap", NM, "            cap = uri.from_string(bigcap, deep_immutable=deep_immutable,",
      "            cap = uri.from_string(bigcap.lstrip(b\"imro.\"), deep_immutable=deep_immutable,", "C16.15"),
    M("unknown-node-given-bare-caps", NM, "                node = UnknownNode(writecap, readcap,\n",
      "                node = UnknownNode(writecap and writecap.split(b\".\", 1)[-1], readcap,\n", "C16.15"),
    M("unknown-node-given-bigcap-as-writecap", NM, "                node = UnknownNode(writecap, readcap,\n",
      "                node = UnknownNode(bigcap, readcap,\n", "C16.15"),
    M("unknown-node-writecap-in-read-slot", NM, "                node = UnknownNode(writecap, readcap,\n",
      "                node = UnknownNode(None, readcap or writecap,\n", "C16.15"),
    M("benign-parse-of-inline-selection", NM, "            cap = uri.from_string(bigcap, deep_immutable=deep_immutable,",
      "            cap = uri.from_string(writecap or readcap, deep_immutable=deep_immutable,", None),
    M("benign-unknown-node-slots-by-keyword", NM, "                node = UnknownNode(writecap, readcap,\n",
      "                node = UnknownNode(given_ro_uri=readcap or None, given_rw_uri=writecap or None,\n", None),
    M("benign-bigcap-by-branches", NM, "        bigcap = writecap or readcap\n",
      "        if writecap:\n            bigcap = writecap\n        else:\n            bigcap = readcap\n", None),
    # ---- `X.startswith((P, Q))` is `X.startswith(P) or X.startswith(Q)`: true edge one of them, false edge neither
    M("benign-unknown-rw-prefix-test-tuple", K, UN_RW_TEST,
      "                if not given_rw_uri.startswith((ALLEGED_READONLY_PREFIX, ALLEGED_IMMUTABLE_PREFIX)):", None),
    M("benign-unknown-ro-prefix-test-tuple", K, UN_RO_TEST,
      "                if given_ro_uri.startswith((ALLEGED_IMMUTABLE_PREFIX, ALLEGED_READONLY_PREFIX)):", None),
    M("benign-unknown-both-prefix-tests-tuple", K, UN_RW_TEST,
      "                if not given_rw_uri.startswith((ALLEGED_READONLY_PREFIX, ALLEGED_IMMUTABLE_PREFIX)):", None,
      edits=[(K, UN_RO_TEST, "                if given_ro_uri.startswith((ALLEGED_READONLY_PREFIX, ALLEGED_IMMUTABLE_PREFIX)):")]),
    M("benign-unknown-rw-prefix-tuple-hoisted", K, UN_RW_TEST,
      "                alleged = (ALLEGED_READONLY_PREFIX, ALLEGED_IMMUTABLE_PREFIX)\n"
      "                if not given_rw_uri.startswith(alleged):", None),
    M("benign-unknown-imm-test-one-tuple", K,
      "                if given_ro_uri.startswith(ALLEGED_IMMUTABLE_PREFIX):\n                    self.ro_uri = given_ro_uri\n",
      "                if given_ro_uri.startswith((ALLEGED_IMMUTABLE_PREFIX,)):\n                    self.ro_uri = given_ro_uri\n", None),
    M("benign-strip-ro-test-tuple-with-excluded-member", K,      # 'imm.' was excluded by the `if` before
      "    elif ro_uri.startswith(ALLEGED_READONLY_PREFIX):\n        return",
      "    elif ro_uri.startswith((ALLEGED_READONLY_PREFIX, ALLEGED_IMMUTABLE_PREFIX)):\n        return", None),
    M("benign-from-string-prefix-tuple-then-told-apart", U, FS_PREFIX_BLOCK, fs_prefix_tuple(), None),
    M("unknown-rw-prefix-tuple-test-inverted", K, UN_RW_TEST,
      "                if given_rw_uri.startswith((ALLEGED_READONLY_PREFIX, ALLEGED_IMMUTABLE_PREFIX)):", "C16.12"),
    M("unknown-rw-prefix-tuple-test-only-in-imm-ctx", K, UN_RW_TEST,
      "                if deep_immutable and not given_rw_uri.startswith((ALLEGED_READONLY_PREFIX, ALLEGED_IMMUTABLE_PREFIX)):",
      "C16.12"),
    M("unknown-imm-ctx-keeps-ro-prefixed-cap-tuple", K,          # wrong member: 'ro.' is not enough in an immutable context
      "                if given_ro_uri.startswith(ALLEGED_IMMUTABLE_PREFIX):\n                    self.ro_uri = given_ro_uri\n",
      "                if given_ro_uri.startswith((ALLEGED_IMMUTABLE_PREFIX, ALLEGED_READONLY_PREFIX)):\n"
      "                    self.ro_uri = given_ro_uri\n", "C16.6"),
    M("unknown-both-slots-imm-test-tuple-wrong-member", K,
      "            elif given_ro_uri.startswith(ALLEGED_IMMUTABLE_PREFIX):\n                # Strange corner case",
      "            elif given_ro_uri.startswith((ALLEGED_READONLY_PREFIX,)):\n                # Strange corner case", "C16.8"),
    M("from-string-prefix-tuple-told-apart-by-wrong-member", U, FS_PREFIX_BLOCK,
      fs_prefix_tuple(inner="ALLEGED_READONLY_PREFIX"), ["C16.5", "C16.13"]),
    M("from-string-prefix-tuple-imm-does-not-clear", U, FS_PREFIX_BLOCK, fs_prefix_tuple(clear=""), "C16.5"),
    M("from-string-prefix-tuple-one-cut-for-both", U, FS_PREFIX_BLOCK,
      "    if s.startswith((ALLEGED_IMMUTABLE_PREFIX, ALLEGED_READONLY_PREFIX)):\n"
      "        can_be_mutable = can_be_writeable = False\n"
      "        s = s[len(ALLEGED_READONLY_PREFIX):]\n", "C16.13"),
    M("from-string-prefix-tuple-misses-imm", U, FS_PREFIX_BLOCK,
      fs_prefix_tuple(outer="(ALLEGED_READONLY_PREFIX,)"), "C16.5"),
    # ---- C16.16 a helper / recursive call after a prefix was found is handed the string the prefix was found on
    M("percent-decoded-retry-parses-cut-string", U, FS_UNKNOWN_ELSE,
      "        else:\n            if b'%' in s:\n                unquoted = unquote_to_bytes(s)\n"
      "                if unquoted != s and has_uri_prefix(unquoted):\n"
      "                    return from_string(unquoted, deep_immutable=deep_immutable,\n                                       name=name)\n"
      "            return UnknownURI(u)\n" + FS_UNKNOWN_TAIL, "C16.16",
      edits=[(U, URI_IMPORTS, URI_IMPORTS_UNQUOTE)],
      note="seeded C16-G: the retry re-parses s (prefix already cut) with only deep_immutable: b'ro.URI%3ASSK%3A..' comes back writeable"),
    M("whitespace-retry-parses-cut-string", U, FS_UNKNOWN_ELSE,
      "        else:\n            if s != s.strip():\n                return from_string(s.strip(), deep_immutable, name)\n"
      "            return UnknownURI(u)\n" + FS_UNKNOWN_TAIL, "C16.16",
      note="a different fallback with the same slip"),
    M("retry-of-cut-string-through-helper", U, FS_UNKNOWN_ELSE,
      "        else:\n            if b'%' in s:\n                return _retry_decoded(s, deep_immutable, name)\n"
      "            return UnknownURI(u)\n" + FS_UNKNOWN_TAIL, "C16.16",
      edits=[(U, URI_IMPORTS, URI_IMPORTS_UNQUOTE),
             (U, FS_IS_URI, "def _retry_decoded(cap, deep_immutable, name):\n    decoded = unquote_to_bytes(cap)\n    if decoded == cap:\n"
              "        return UnknownURI(cap)\n    return from_string(decoded, deep_immutable=deep_immutable, name=name)\n\n" + FS_IS_URI)],
      note="the cut string leaves through a helper that re-enters from_string"),
    M("benign-unknown-cap-built-by-helper", U, FS_UNKNOWN_ELSE,
      "        else:\n            return _unknown_cap(u, deep_immutable, name)\n" + FS_UNKNOWN_TAIL, None,
      edits=[(U, FS_IS_URI, "def _unknown_cap(u, deep_immutable, name):\n    return UnknownURI(u)\n\n" + FS_IS_URI)],
      note="a helper reached after the prefix was found, handed the whole given string"),
    M("benign-str-input-reparsed-recursively", U,
      "    if isinstance(u, str):\n        u = u.encode(\"utf-8\")\n    if not isinstance(u, bytes):\n        raise TypeError(\"URI must be unicode string or bytes: %r\" % (u,))\n\n    # We allow and check",
      "    if isinstance(u, str):\n        return from_string(u.encode(\"utf-8\"), deep_immutable, name)\n    if not isinstance(u, bytes):\n        raise TypeError(\"URI must be unicode string or bytes: %r\" % (u,))\n\n    # We allow and check",
      None, note="a recursive entry before any prefix was examined"),
    # ---- C16.17 and the table-driven shape of the dispatch (C16.5/.9/.10/.13/.16 decide it by scenarios)
    M("benign-from-string-table-driven", U, FS_CHAIN, _fs_table(), None,
      note="seeded C16-I with the slip repaired: rows of (prefix, class, required constraint), prefix handling in a table-driven "
           "helper that can only lower what the context allows"),
    M("benign-from-string-table-driven-next", U, FS_CHAIN, _fs_table(lookup="next"), None,
      note="the same table, the row found by next() over a generator instead of for/else"),
    M("table-ro-row-allows-writeable", U, FS_CHAIN, _fs_table(ro_row="True,           True"), "C16.17",
      note="the 'ro.' row leaves can_be_writeable to the context: ro. + writecap comes back writeable outside immutable directories"),
    M("table-ro-row-overrides-deep-immutable", U, FS_CHAIN, _fs_table(strip_ret="can_be_mutable, can_be_writeable"), "C16.17",
      note="seeded C16-I: the 'ro.' row carries can_be_mutable=True, returned as it is: ro.URI:SSK-RO: with deep_immutable=True "
           "gives a live mutable readcap"),
    M("table-row-of-mutable-readcap-ungated", U, FS_CHAIN, _fs_table(rows=_ROWS_DIR2RO_UNGATED), "C16.17",
      note="a table row that requires nothing for URI:DIR2-RO:"),
    M("table-writeable-allowed-by-mutable-flag", U, FS_CHAIN, _fs_table(allowed_w="can_be_mutable"), "C16.17",
      note="the allowed-map lets a writeable kind through on can_be_mutable: ro. + writecap comes back writeable"),
    M("chain-ro-prefix-sets-mutable-true", U,
      "    elif s.startswith(ALLEGED_READONLY_PREFIX):\n        can_be_writeable = False\n        s = s[len(ALLEGED_READONLY_PREFIX):]\n\n    error = None\n",
      "    elif s.startswith(ALLEGED_READONLY_PREFIX):\n        can_be_mutable = True\n        can_be_writeable = False\n        s = s[len(ALLEGED_READONLY_PREFIX):]\n\n    error = None\n",
      "C16.17", note="the same slip in the if-chain shape: the 'ro.' branch raises can_be_mutable"),
    M("table-refusal-without-error", U, FS_CHAIN,
      _fs_table(refused_tail="    # A constraint was not met.\n    return UnknownURI(u)\n"), "C16.10",
      note="table-driven shape: the refused kind comes back as an error-less UnknownURI"),
    M("table-one-cut-for-both-prefixes", U, FS_CHAIN, _fs_table(cut="len(ALLEGED_READONLY_PREFIX)"), "C16.13",
      note="table-driven shape: 'imm.' is cut by len('ro.'), the kind behind it is not recognised"),
    # ---- the if-chain kept, its flags computed from the tuple a prefix helper returns (C16.5/.9/.10/.13/.16 decide it by scenarios)
    _fs_helpers("benign-prefix-flags-from-helper-tuple", None,
                note="seeded C15-I with the slip repaired: _split_alleged_prefix strips at most one prefix and returns "
                     "(rest, imm?, ro?); can_be_mutable / can_be_writeable are computed from them"),
    _fs_helpers("benign-prefix-helper-if-chain-returns-flags", None, split=H_SPLIT_CHAIN,
                note="the same refactor, the helper keeping the if/elif and returning the cut string with the two flags"),
    _fs_helpers("benign-prefix-helper-chained-removeprefix", None, split=H_SPLIT_SLIP,
                note="seeded C15-I as delivered: 'imm.ro.' stacked is peeled twice - breaks the grammar (C15), but the flags "
                     "found still only lower the permission: no clause of C16 is broken"),
    _fs_helpers("helper-flags-readonly-not-applied", "C16.17",
                flags="    can_be_mutable = not (deep_immutable or alleged_immutable)\n    can_be_writeable = can_be_mutable\n",
                note="the 'ro.' flag returned by the helper is dropped: ro. + writecap comes back writeable"),
    _fs_helpers("helper-flags-context-only-with-prefix", "C16.17",
                flags="    can_be_mutable = not (deep_immutable and alleged_immutable)\n"
                      "    can_be_writeable = can_be_mutable and not alleged_readonly\n",
                note="`or` became `and`: a deep-immutable context alone no longer refuses a mutable cap"),
    _fs_helpers("helper-tuple-unpacked-in-wrong-order", "C16.17",
                unpack="    s, alleged_readonly, alleged_immutable = _split_alleged_prefix(u)\n",
                note="the helper's (rest, imm?, ro?) bound as (rest, ro?, imm?): imm. + mutable readcap is accepted"),
    _fs_helpers("helper-returns-flags-swapped", "C16.17",
                split=H_SPLIT_CHAIN.replace("True, False", "False, True", 1),
                note="the helper reports 'imm.' as 'ro.': imm.URI:SSK-RO: gives a live mutable readcap"),
    _fs_helpers("helper-cuts-imm-by-ro-length", "C16.13",
                split=H_SPLIT_CHAIN.replace("s[len(ALLEGED_IMMUTABLE_PREFIX):]", "s[len(ALLEGED_READONLY_PREFIX):]"),
                note="helper shape: 'imm.' is cut by len('ro.'), the kind behind it is not recognised and not refused"),
    _fs_helpers("helper-shape-refusal-without-error", "C16.10",
                more=[(U, "        error = e\n\n    return UnknownURI(u, error=error)\n\ndef is_uri(s):\n",
                       "        return UnknownURI(u, error=e)\n\n    return UnknownURI(u)\n\ndef is_uri(s):\n")],
                note="helper shape: the refused kind comes back as an error-less UnknownURI"),
    # ---- vanished anchor
    M("vanish-node-cache", NM, "                self._node_cache[memokey] = node  # note: WeakValueDictionary\n", "                pass\n", "ANALYSIS-ERROR"),
    M("vanish-wrap-dirnode-cap", U, "def wrap_dirnode_cap(filecap):", "def wrap_dirnode_capX(filecap):", "ANALYSIS-ERROR"),
]

# ---- the refactor seeded as C18-I done faithfully: create_from_cap split into _memokey / _create_uncached / _check_blacklist
#      (the text of the two function bodies is shared with the owner property's self-test)
try:
    from .C18 import _CFC_OLD, _CFC_SPLIT
    _CFC_CALL = "self._create_uncached(writecap, readcap, deep_immutable, name)"
    if _CFC_SPLIT.count(_CFC_CALL) == 1:
        MUTANTS += [
            M("split-create-from-cap-into-helpers", NM, _CFC_OLD, _CFC_SPLIT, "ANALYSIS-ERROR",
              note="seeded C18-I with the slip repaired: C16.7 follows the context into self._create_uncached and is silent; "
                   "C16.14/.15 (the cap strings stay whole) do not follow the parse into the helper yet: undecided, exit 2"),
            M("split-helper-not-given-context", NM, _CFC_OLD,
              _CFC_SPLIT.replace(_CFC_CALL, "self._create_uncached(writecap, readcap, False, name)"), "C16.7",
              note="the split shape: the helper that parses the cap is handed False instead of deep_immutable"),
        ]
except ImportError:
    pass
