from .runner import M

D = "src/allmydata/dirnode.py"
NM = "src/allmydata/nodemaker.py"
UN = "src/allmydata/unknown.py"
MF = "src/allmydata/mutable/filenode.py"
IF = "src/allmydata/immutable/filenode.py"
HU = "src/allmydata/util/hashutil.py"
BL = "src/allmydata/blacklist.py"

# NodeMaker.create_from_cap as it stands, and the same function split into helpers (key builder, uncached constructor,
# blacklist wrapper; dict.get instead of try/except) - the faithful form of the refactor seeded as C18-I
_CFC_OLD = (
    '    def create_from_cap(self, writecap, readcap=None, deep_immutable=False, name=u"<unknown name>"):\n'
    '        # this returns synchronously. It starts with a "cap string".\n'
    '        assert isinstance(writecap, (bytes, type(None))), type(writecap)\n'
    '        assert isinstance(readcap,  (bytes, type(None))), type(readcap)\n'
    '\n'
    '        bigcap = writecap or readcap\n'
    '        if not bigcap:\n'
    "            # maybe the writecap was hidden because we're in a readonly\n"
    "            # directory, and the future cap format doesn't have a readcap, or\n"
    '            # something.\n'
    '            return UnknownNode(None, None)  # deep_immutable and name not needed\n'
    '\n'
    "        # The name doesn't matter for caching since it's only used in the error\n"
    "        # attribute of an UnknownNode, and we don't cache those.\n"
    '        if deep_immutable:\n'
    '            memokey = b"I" + bigcap\n'
    '        else:\n'
    '            memokey = b"M" + bigcap\n'
    '        try:\n'
    '            node = self._node_cache[memokey]\n'
    '        except KeyError:\n'
    '            cap = uri.from_string(bigcap, deep_immutable=deep_immutable,\n'
    '                                  name=name)\n'
    '            node = self._create_from_single_cap(cap)\n'
    '\n'
    '            # node is None for an unknown URI, otherwise it is a type for which\n'
    '            # is_mutable() is known. We avoid cacheing mutable nodes due to\n'
    '            # ticket #1679.\n'
    '            if node is None:\n'
    "                # don't cache UnknownNode\n"
    '                node = UnknownNode(writecap, readcap,\n'
    '                                   deep_immutable=deep_immutable, name=name)\n'
    '            elif node.is_mutable():\n'
    '                self._node_cache[memokey] = node  # note: WeakValueDictionary\n'
    '\n'
    '        if self.blacklist:\n'
    '            si = node.get_storage_index()\n'
    '            # if this node is blacklisted, return the reason, otherwise return None\n'
    '            reason = self.blacklist.check_storageindex(si)\n'
    '            if reason is not None:\n'
    '                # The original node object is cached above, not the ProhibitedNode wrapper.\n'
    '                # This ensures that removing the blacklist entry will make the node\n'
    '                # accessible if create_from_cap is called again.\n'
    '                node = ProhibitedNode(node, reason)\n'
    '        return node\n'
    '\n')

_CFC_SPLIT = (
    '    @staticmethod\n'
    '    def _memokey(writecap, readcap, deep_immutable):\n'
    '        prefix = b"I" if deep_immutable else b"M"\n'
    '        return prefix + (writecap or readcap)\n'
    '\n'
    '    def _create_uncached(self, writecap, readcap, deep_immutable, name):\n'
    '        cap = uri.from_string(writecap or readcap, deep_immutable=deep_immutable,\n'
    '                              name=name)\n'
    '        node = self._create_from_single_cap(cap)\n'
    '        if node is None:\n'
    '            return UnknownNode(writecap, readcap,\n'
    '                               deep_immutable=deep_immutable, name=name)\n'
    '        return node\n'
    '\n'
    '    def _check_blacklist(self, node):\n'
    '        if not self.blacklist:\n'
    '            return node\n'
    '        si = node.get_storage_index()\n'
    '        reason = self.blacklist.check_storageindex(si)\n'
    '        if reason is None:\n'
    '            return node\n'
    '        return ProhibitedNode(node, reason)\n'
    '\n'
    '    def create_from_cap(self, writecap, readcap=None, deep_immutable=False, name=u"<unknown name>"):\n'
    '        assert isinstance(writecap, (bytes, type(None))), type(writecap)\n'
    '        assert isinstance(readcap,  (bytes, type(None))), type(readcap)\n'
    '\n'
    '        if not (writecap or readcap):\n'
    '            return UnknownNode(None, None)\n'
    '\n'
    '        memokey = self._memokey(writecap, readcap, deep_immutable)\n'
    '        node = self._node_cache.get(memokey)\n'
    '        if node is None:\n'
    '            node = self._create_uncached(writecap, readcap, deep_immutable, name)\n'
    '            if not isinstance(node, UnknownNode) and node.is_mutable():\n'
    '                self._node_cache[memokey] = node\n'
    '\n'
    '        return self._check_blacklist(node)\n'
    '\n')

_SIG_OK = "    def _memokey(writecap, readcap, deep_immutable):\n"
_CALL_OK = "        memokey = self._memokey(writecap, readcap, deep_immutable)\n"

MUTANTS = [
    # ---- C18.1 decrypt only when writeable
    M("decrypt-always", D,
      "            if writeable:\n                rw_uri = self._decrypt_rwcapdata(rwcapdata)\n",
      "            rw_uri = self._decrypt_rwcapdata(rwcapdata)\n", "C18.1"),
    M("writeable-means-mutable", D,
      "        writeable = not self.is_readonly()\n", "        writeable = self.is_mutable()\n", "C18.1"),
    M("rw-slot-falls-back-to-ro", D,
      "            rw_uri = rw_uri.rstrip(b' ') or None\n", "            rw_uri = rw_uri.rstrip(b' ') or ro_uri\n", "C18.1"),
    M("second-decrypt-caller", D,
      "    def _pack_contents(self, children):\n",
      "    def get_child_writecap(self, rwcapdata):\n        return self._decrypt_rwcapdata(rwcapdata)\n\n"
      "    def _pack_contents(self, children):\n", "C18.1"),
    # ---- C18.2 plaintext never carries write authority
    M("plaintext-rwcap", D,
      "                writecap = netstring(_encrypt_rw_uri(writekey, rw_uri))\n",
      "                writecap = netstring(rw_uri)\n", "C18.2"),
    M("ro-slot-uses-get-uri", D,
      "            ro_uri = child.get_readonly_uri()\n", "            ro_uri = child.get_uri()\n", "C18.2"),
    M("ro-slot-falls-back-to-rw", D,
      "            if ro_uri is None:\n                ro_uri = b\"\"\n",
      "            if ro_uri is None:\n                ro_uri = rw_uri\n", "C18.2"),
    M("superencrypt-with-readkey", D,
      "        return _pack_normalized_children(children, self._node.get_writekey())",
      "        return _pack_normalized_children(children, self._node.get_readkey())",
      ["C18.2", "C18.6"],
      edits=[(D, "key = hashutil.mutable_rwcap_key_hash(salt, self._node.get_writekey())",
              "key = hashutil.mutable_rwcap_key_hash(salt, self._node.get_readkey())")]),
    M("encrypt-without-key-check", D,
      "            if writekey is not None:\n                writecap = netstring(_encrypt_rw_uri(writekey, rw_uri))\n"
      "            else:\n                writecap = ZERO_LEN_NETSTR\n",
      "            writecap = ZERO_LEN_NETSTR\n            if rw_uri:\n"
      "                writecap = netstring(_encrypt_rw_uri(writekey or b\"\", rw_uri))\n", "C18.2"),
    # ---- C18.3 key of the superencryption
    M("aes-key-is-salt", D,
      "    encryptor = aes.create_encryptor(key)\n    crypttext = aes.encrypt_data(encryptor, rw_uri)\n",
      "    encryptor = aes.create_encryptor(salt)\n    crypttext = aes.encrypt_data(encryptor, rw_uri)\n", "C18.3"),
    M("key-without-writekey", D,
      "    key = hashutil.mutable_rwcap_key_hash(salt, writekey)\n",
      "    key = hashutil.mutable_rwcap_key_hash(salt, salt)\n", "C18.3"),
    M("returns-plaintext-for-debug", D,
      "    return salt + crypttext + mac\n    # The MAC",
      "    return salt + crypttext + mac + rw_uri\n    # The MAC", "C18.3"),
    # ---- C18.4 get_write_uri per class
    M("dirnode-write-uri-unguarded", D,
      "    def get_write_uri(self):\n        if self.is_readonly():\n            return None\n        return self._uri.to_string()\n",
      "    def get_write_uri(self):\n        return self._uri.to_string()\n", "C18.4"),
    M("mutable-write-uri-flipped", MF,
      "    def get_write_uri(self):\n        if self.is_readonly():\n            return None\n",
      "    def get_write_uri(self):\n        if not self.is_readonly():\n            return None\n", "C18.4"),
    M("immutable-write-uri-is-uri", IF,
      "    def get_write_uri(self):\n        return None\n",
      "    def get_write_uri(self):\n        return self.get_uri()\n", "C18.4"),
    M("unknown-rw-slot-from-ro", UN,
      "            self.rw_uri = given_rw_uri\n", "            self.rw_uri = given_rw_uri or given_ro_uri\n", "C18.4"),
    M("dirnode-readonly-means-immutable", D,
      "    def is_readonly(self):\n        return self._node.is_readonly()\n",
      "    def is_readonly(self):\n        return not self._node.is_mutable()\n", "C18.4"),
    # ---- C18.5 which cap the child is built from
    M("bigcap-prefers-readcap", NM,
      "        bigcap = writecap or readcap\n", "        bigcap = readcap or writecap\n", "C18.5"),
    M("cache-keyed-by-readcap", NM,
      "            memokey = b\"M\" + bigcap\n", "            memokey = b\"M\" + (readcap or bigcap)\n", "C18.5"),
    M("factory-swaps-slots", D,
      "        node = self._nodemaker.create_from_cap(rw_uri, ro_uri,",
      "        node = self._nodemaker.create_from_cap(ro_uri, rw_uri,", "C18.5"),
    M("diminish-with-get-uri", D,
      "        return self._create_and_validate_node(None, node.get_readonly_uri(), name=name)",
      "        return self._create_and_validate_node(None, node.get_uri(), name=name)", "C18.5"),
    M("diminish-keeps-writeable-known", D,
      "        if not node.is_unknown() and node.is_readonly():\n            return node\n",
      "        if not node.is_unknown() or node.is_readonly():\n            return node\n", "C18.5"),
    M("second-factory-in-dirnode", D,
      "    def _create_readonly_node(self, node, name):\n",
      "    def _child_from_entry(self, rwcapdata, ro_uri):\n"
      "        return self._nodemaker.create_from_cap(rwcapdata or None, ro_uri)\n\n"
      "    def _create_readonly_node(self, node, name):\n", "C18.5"),
    # ---- C18.5 through helpers (seeded C18-I): the same conditions, with the body of create_from_cap split up
    M("split-memokey-params-swapped", NM, _CFC_OLD,
      _CFC_SPLIT.replace(_SIG_OK, "    def _memokey(readcap, writecap, deep_immutable):\n"), "C18.5",
      note="C18-I: the helper declares (readcap, writecap, ..) and is called with (writecap, readcap, ..): the cache is keyed "
           "by the read cap while the node is built from the write cap"),
    M("split-memokey-body-prefers-readcap", NM, _CFC_OLD,
      _CFC_SPLIT.replace("        return prefix + (writecap or readcap)\n", "        return prefix + (readcap or writecap)\n"),
      "C18.5"),
    M("split-memokey-keywords-crossed", NM, _CFC_OLD,
      _CFC_SPLIT.replace(_CALL_OK, "        memokey = self._memokey(writecap=readcap, readcap=writecap,\n"
                                   "                                deep_immutable=deep_immutable)\n"), "C18.5"),
    M("split-uncached-built-from-swapped-caps", NM, _CFC_OLD,
      _CFC_SPLIT.replace("            node = self._create_uncached(writecap, readcap, deep_immutable, name)\n",
                         "            node = self._create_uncached(readcap, writecap, deep_immutable, name)\n"), "C18.5",
      note="the constructor helper parses 'writecap or readcap' of its own parameters, which are bound the other way round"),
    M("split-filing-helper-keyed-by-readcap", NM, _CFC_OLD,
      _CFC_SPLIT.replace("                self._node_cache[memokey] = node\n",
                         "                self._remember(readcap or writecap, deep_immutable, node)\n")
                .replace("    def _check_blacklist(self, node):\n",
                         "    def _remember(self, capstring, deep_immutable, node):\n"
                         "        self._node_cache[self._memokey(capstring, None, deep_immutable)] = node\n\n"
                         "    def _check_blacklist(self, node):\n"), "C18.5",
      note="a filing helper that is handed the wrong cap string: the key is judged where the cache is touched, in terms of "
           "create_from_cap's own arguments"),
    M("lookup-falls-back-to-readcap-key", NM,
      "            node = self._node_cache[memokey]\n",
      "            node = self._node_cache[memokey if memokey in self._node_cache else b\"M\" + (readcap or bigcap)]\n",
      "C18.5"),
    M("benign-split-into-helpers", NM, _CFC_OLD, _CFC_SPLIT, None,
      note="the C18-I refactor done faithfully"),
    M("benign-split-swapped-signature-bound-by-keyword", NM, _CFC_OLD,
      _CFC_SPLIT.replace(_SIG_OK, "    def _memokey(readcap, writecap, deep_immutable):\n")
                .replace(_CALL_OK, "        memokey = self._memokey(writecap=writecap, readcap=readcap,\n"
                                   "                                deep_immutable=deep_immutable)\n"), None,
      note="the helper's parameter order differs from create_from_cap's, but the call binds by keyword"),
    M("benign-split-filing-helper", NM, _CFC_OLD,
      _CFC_SPLIT.replace("                self._node_cache[memokey] = node\n",
                         "                self._remember(memokey, node)\n")
                .replace("    def _check_blacklist(self, node):\n",
                         "    def _remember(self, key, node):\n"
                         "        cache = self._node_cache\n        cache[key] = node\n\n"
                         "    def _check_blacklist(self, node):\n"), None),
    M("benign-cache-key-tuple", NM,
      "        if deep_immutable:\n            memokey = b\"I\" + bigcap\n        else:\n            memokey = b\"M\" + bigcap\n",
      "        memokey = (bool(deep_immutable), bigcap)\n", None),
    M("benign-cache-key-conditional-expression", NM,
      "        if deep_immutable:\n            memokey = b\"I\" + bigcap\n        else:\n            memokey = b\"M\" + bigcap\n",
      "        memokey = (b\"I\" + bigcap) if deep_immutable else (b\"M\" + bigcap)\n", None),
    M("split-helper-decorated", NM, _CFC_OLD,
      _CFC_SPLIT.replace("    @staticmethod\n    def _memokey(", "    @staticmethod\n    @functools.lru_cache(None)\n    def _memokey(")
                .replace("    def _check_blacklist(self, node):\n", "    import functools\n\n    def _check_blacklist(self, node):\n"),
      "ANALYSIS-ERROR", note="a key builder behind a decorator is not followed: fail closed"),
    # ---- C18.6 writekey only for writeable caps
    M("writekey-for-any-mutable-cap", MF,
      "        if not filecap.is_readonly() and filecap.is_mutable():\n            self._writekey = self._uri.writekey\n",
      "        if filecap.is_mutable():\n            self._writekey = getattr(self._uri, \"writekey\", None)\n", "C18.6"),
    M("writekey-not-reset", MF,
      "        self._uri = filecap\n        self._writekey = None\n", "        self._uri = filecap\n", "C18.6"),
    M("get-writekey-falls-back-to-readkey", MF,
      "    def get_writekey(self):\n        return self._writekey\n    def get_readkey(self):",
      "    def get_writekey(self):\n        return self._writekey or self._readkey\n    def get_readkey(self):", "C18.6"),
    # ---- C18.7 one key stream per child
    M("salt-from-writekey", D,
      "    salt = hashutil.mutable_rwcap_salt_hash(rw_uri)\n",
      "    salt = hashutil.mutable_rwcap_salt_hash(writekey)\n", "C18.7",
      note="seeded C18-B: the salt follows the misleading parameter name of the hashutil helper"),
    M("key-hash-with-fixed-iv", D,
      "    key = hashutil.mutable_rwcap_key_hash(salt, writekey)\n",
      "    key = hashutil.mutable_rwcap_key_hash(b\"\", writekey)\n", "C18.7",
      note="salt still emitted, but the key no longer mixes it in: one key per directory"),
    M("salt-per-directory-random-free", D,
      "    salt = hashutil.mutable_rwcap_salt_hash(rw_uri)\n",
      "    salt = hashutil.tagged_hash(hashutil.DIRNODE_CHILD_SALT_TAG, writekey, hashutil.IVLEN)\n", "C18.7"),
    M("salt-hash-forgets-update", HU,
      "def mutable_rwcap_salt_hash(writekey):\n    return tagged_hash(DIRNODE_CHILD_SALT_TAG, writekey, IVLEN)\n",
      "def mutable_rwcap_salt_hash(writekey):\n    return tagged_hasher(DIRNODE_CHILD_SALT_TAG, IVLEN).digest()\n",
      "C18.7", note="same effect one level down: the helper ignores its argument"),
    M("pair-hash-drops-first-value", HU,
      "    s.update(netstring(tag))\n    s.update(netstring(val1))\n    s.update(netstring(val2))\n",
      "    s.update(netstring(tag))\n    s.update(netstring(val2))\n", "C18.7",
      note="two levels down: the key hash no longer mixes in the salt"),
    M("pair-hash-drops-second-value", HU,
      "    s.update(netstring(tag))\n    s.update(netstring(val1))\n    s.update(netstring(val2))\n",
      "    s.update(netstring(tag))\n    s.update(netstring(val1))\n", "C18.7",
      note="the key stream no longer depends on the writekey"),
    M("salt-is-cap-prefix", HU,
      "def mutable_rwcap_salt_hash(writekey):\n    return tagged_hash(DIRNODE_CHILD_SALT_TAG, writekey, IVLEN)\n",
      "def mutable_rwcap_salt_hash(writekey):\n    return writekey[:IVLEN]\n", "C18.7",
      note="unique per child, but the clear-text salt now shows 16 bytes of the write cap"),
    # ---- C18.8 what the packers are keyed with (gap review: un-anchored callers of the packer)
    M("new-directory-packed-under-readkey", NM,
      "                                                    n.get_writekey())),",
      "                                                    n.get_readkey())),", "C18.8",
      note="initial children of every new directory are superencrypted under a key read-cap holders can derive"),
    M("new-directory-packed-under-storage-index", NM,
      "        d = self.create_mutable_file(lambda n:\n"
      "                                     MutableData(pack_children(initial_children,\n"
      "                                                    n.get_writekey())),\n",
      "        def _initial_contents(n):\n"
      "            key = n.get_storage_index()\n"
      "            return MutableData(pack_children(initial_children, key))\n"
      "        d = self.create_mutable_file(_initial_contents,\n", "C18.8",
      note="same through a helper and a local: the storage index is public"),
    M("pack-children-forgets-its-key", D,
      "    return _pack_normalized_children(children, writekey=writekey, deep_immutable=deep_immutable)",
      "    return _pack_normalized_children(children, writekey=b\"\", deep_immutable=deep_immutable)", "C18.8",
      note="pass-through broken: everybody can recompute H(salt, b'')"),
    M("packer-partial-with-readkey", NM,
      "        d = self.create_mutable_file(lambda n:\n"
      "                                     MutableData(pack_children(initial_children,\n"
      "                                                    n.get_writekey())),\n",
      "        import functools\n"
      "        pack = functools.partial(pack_children, initial_children)\n"
      "        d = self.create_mutable_file(lambda n: MutableData(pack(n.get_readkey())),\n", "C18.8",
      note="the packer is taken as a value: its key argument is out of sight"),
    # ---- C18.6 (extended) the stored writekey is the cap's writekey field
    M("writekey-is-readkey", MF,
      "            self._writekey = self._uri.writekey\n", "            self._writekey = self._uri.readkey\n", "C18.6",
      note="stored under the right gate, but the value is known to readers"),
    # ---- gates written as conditional expressions
    M("ifexp-decrypt-when-mutable", D,
      "            rw_uri = b\"\"\n            if writeable:\n                rw_uri = self._decrypt_rwcapdata(rwcapdata)\n",
      "            rw_uri = self._decrypt_rwcapdata(rwcapdata) if mutable else b\"\"\n", "C18.1"),
    M("ifexp-decrypt-wrong-branch", D,
      "            rw_uri = b\"\"\n            if writeable:\n                rw_uri = self._decrypt_rwcapdata(rwcapdata)\n",
      "            rw_uri = b\"\" if writeable else self._decrypt_rwcapdata(rwcapdata)\n", "C18.1"),
    M("ifexp-plaintext-when-no-key", D,
      "            if writekey is not None:\n                writecap = netstring(_encrypt_rw_uri(writekey, rw_uri))\n"
      "            else:\n                writecap = ZERO_LEN_NETSTR\n",
      "            writecap = netstring(rw_uri) if writekey is None else netstring(_encrypt_rw_uri(writekey, rw_uri))\n",
      "C18.2"),
    M("ifexp-rw-slot-falls-back-to-ro", D,
      "            rw_uri = rw_uri.rstrip(b' ') or None\n",
      "            rw_uri = (rw_uri.rstrip(b' ') or None) if writeable else (ro_uri or None)\n", "C18.1"),
    # ---- C18.9 what a node answers for its (clear) read-only slot
    M("prohibited-readonly-uri-is-full-cap", BL,
      "    def get_readonly_uri(self):\n        return self.wrapped_node.get_readonly_uri()\n",
      "    def get_readonly_uri(self):\n        return self.wrapped_node.get_uri()\n", "C18.9",
      note="seeded C18-D: a blacklisted writeable child is packed with its write cap in the ro_uri slot"),
    M("prohibited-readonly-uri-aliased", BL,
      "    def get_readonly_uri(self):\n        return self.wrapped_node.get_readonly_uri()\n",
      "    get_readonly_uri = get_uri\n", "C18.9",
      note="same effect without a return statement to look at: the method is an alias of get_uri"),
    M("prohibited-readonly-uri-from-cap", BL,
      "    def get_readonly_uri(self):\n        return self.wrapped_node.get_readonly_uri()\n",
      "    def get_readonly_uri(self):\n        return self.get_cap().to_string()\n", "C18.9"),
    M("dirnode-readonly-uri-undiminished", D,
      "    def get_readonly_uri(self):\n        return self._uri.get_readonly().to_string()\n",
      "    def get_readonly_uri(self):\n        return self._uri.to_string()\n", "C18.9",
      note="sibling site: a writeable subdirectory would be linked with its write cap in clear"),
    M("mutable-readonly-uri-gate-flipped", MF,
      "    def get_readonly_uri(self):\n        return self._uri.get_readonly().to_string()\n",
      "    def get_readonly_uri(self):\n        if not self.is_readonly():\n            return self._uri.to_string()\n"
      "        return self._uri.get_readonly().to_string()\n", "C18.9"),
    M("mutable-readonly-uri-ifexp-wrong-branch", MF,
      "    def get_readonly_uri(self):\n        return self._uri.get_readonly().to_string()\n",
      "    def get_readonly_uri(self):\n        u = self._uri\n"
      "        return u.get_readonly().to_string() if u.is_readonly() else u.to_string()\n", "C18.9"),
    M("dirnode-readonly-uri-through-undiminished-readcap", D,
      "    def get_readonly_uri(self):\n        return self._uri.get_readonly().to_string()\n",
      "    def get_readonly_uri(self):\n        return self.get_readcap().to_string()\n", "C18.9",
      edits=[(D, "    def get_readcap(self):\n        return self._uri.get_readonly()\n",
              "    def get_readcap(self):\n        return self._uri\n")]),
    M("unknown-readonly-uri-falls-back-to-rw", UN,
      "    def get_readonly_uri(self):\n        return self.ro_uri\n",
      "    def get_readonly_uri(self):\n        return self.ro_uri or self.rw_uri\n", "C18.9",
      note="an unknown child given only in the rw slot would be stored in clear"),
    # ---- C18.10 what an UnknownNode lets into its (clear) ro slot (= C16.11 / C16.12, adopted after seeded C18-F)
    M("unknown-refusal-falls-through", UN,
      "                                                         name, False)\n                    return  # node will be opaque\n",
      "                                                         name, False)\n", "C18.10",
      note="seeded C18-F: the early return after recording MustNotBeUnknownRWError is lost; the unprefixed cap moves to the "
           "ro slot and the later 'self.error = read_cap.get_error()' wipes the recorded refusal"),
    M("unknown-refusal-only-when-immutable", UN,
      "                if not (given_rw_uri.startswith(ALLEGED_READONLY_PREFIX)\n"
      "                        or given_rw_uri.startswith(ALLEGED_IMMUTABLE_PREFIX)):\n",
      "                if deep_immutable and not (given_rw_uri.startswith(ALLEGED_READONLY_PREFIX)\n"
      "                        or given_rw_uri.startswith(ALLEGED_IMMUTABLE_PREFIX)):\n", "C18.10",
      note="a different edit with the same effect: in a mutable directory an unprefixed lone write cap is treated as a read cap"),
    M("unknown-refusal-continues-to-strengthening", UN,
      "                                                         name, False)\n                    return  # node will be opaque\n",
      "                                                         name, False)\n"
      "                    self.ro_uri = ALLEGED_READONLY_PREFIX + given_rw_uri\n"
      "                    return  # node will be opaque\n", "C18.10",
      note="the error is kept, but the 'opaque' node publishes the write cap behind 'ro.'"),
    M("unknown-parse-refusal-only-when-immutable", UN,
      "            if isinstance(read_cap, uri.UnknownURI):\n                self.error = read_cap.get_error()\n",
      "            if deep_immutable and isinstance(read_cap, uri.UnknownURI):\n                self.error = read_cap.get_error()\n",
      "C18.10", note="sibling site (C16.11): 'ro.' + a known write cap, which from_string refuses, is kept in the clear slot"),
    M("unknown-parse-refusal-falls-through", UN,
      "                    assert self.rw_uri is None and self.ro_uri is None\n                    return\n",
      "                    assert self.rw_uri is None and self.ro_uri is None\n", "C18.10",
      note="sibling site: the return after the parse refusal is lost"),
    # ---- benign
    M("benign-unknown-prefix-tests-swapped", UN,
      "                if not (given_rw_uri.startswith(ALLEGED_READONLY_PREFIX)\n"
      "                        or given_rw_uri.startswith(ALLEGED_IMMUTABLE_PREFIX)):\n",
      "                if not (given_rw_uri.startswith(ALLEGED_IMMUTABLE_PREFIX)\n"
      "                        or given_rw_uri.startswith(ALLEGED_READONLY_PREFIX)):\n", None),
    M("benign-unknown-refusal-nested-ifs", UN,
      "                if not (given_rw_uri.startswith(ALLEGED_READONLY_PREFIX)\n"
      "                        or given_rw_uri.startswith(ALLEGED_IMMUTABLE_PREFIX)):\n",
      "                if not given_rw_uri.startswith(ALLEGED_READONLY_PREFIX) and \\\n"
      "                        not given_rw_uri.startswith(ALLEGED_IMMUTABLE_PREFIX):\n", None),
    M("benign-unknown-move-in-else", UN,
      "                    return  # node will be opaque\n\n                # OTOH, if the single cap already had a prefix",
      "                    return  # node will be opaque\n                else:\n                    given_ro_uri = given_rw_uri\n"
      "                    given_rw_uri = None\n\n                # OTOH, if the single cap already had a prefix", None,
      edits=[(UN, "                given_ro_uri = given_rw_uri\n                given_rw_uri = None\n            elif",
              "            elif")],
      note="the move to the ro slot is written as the else branch of the refusal"),
    M("benign-unknown-parse-error-local", UN,
      "                self.error = read_cap.get_error()\n                if self.error:\n",
      "                err = read_cap.get_error()\n                self.error = err\n                if err:\n", None),
    M("benign-unknown-refusal-returns-none", UN,
      "                                                         name, False)\n                    return  # node will be opaque\n",
      "                                                         name, False)\n                    return None\n", None),
    M("benign-readonly-uri-into-temp", MF,
      "    def get_readonly_uri(self):\n        return self._uri.get_readonly().to_string()\n",
      "    def get_readonly_uri(self):\n        ro = self._uri.get_readonly()\n        return ro.to_string()\n", None),
    M("benign-readonly-uri-own-cap-when-readonly", MF,
      "    def get_readonly_uri(self):\n        return self._uri.get_readonly().to_string()\n",
      "    def get_readonly_uri(self):\n        if self.is_readonly():\n            return self._uri.to_string()\n"
      "        return self._uri.get_readonly().to_string()\n", None),
    M("benign-readonly-uri-ifexp", MF,
      "    def get_readonly_uri(self):\n        return self._uri.get_readonly().to_string()\n",
      "    def get_readonly_uri(self):\n        u = self._uri\n"
      "        return u.to_string() if u.is_readonly() else u.get_readonly().to_string()\n", None),
    M("benign-readonly-uri-through-readcap", D,
      "    def get_readonly_uri(self):\n        return self._uri.get_readonly().to_string()\n",
      "    def get_readonly_uri(self):\n        return self.get_readcap().to_string()\n", None),
    M("benign-prohibited-readonly-uri-local", BL,
      "    def get_readonly_uri(self):\n        return self.wrapped_node.get_readonly_uri()\n",
      "    def get_readonly_uri(self):\n        node = self.wrapped_node\n        ro = node.get_readonly_uri()\n"
      "        return ro\n", None),
    M("benign-immutable-readonly-uri-alias", IF,
      "    def get_readonly_uri(self):\n        return self.get_uri()\n\n    def get_uri(self):\n"
      "        return self.u.to_string()\n",
      "    def get_uri(self):\n        return self.u.to_string()\n\n    get_readonly_uri = get_uri\n", None,
      note="an immutable file node is read-only by construction: its cap is its read cap"),
    M("vanish-prohibited-readonly-uri", BL,
      "    def get_readonly_uri(self):\n        return self.wrapped_node.get_readonly_uri()\n",
      "    def get_readonly_uri_(self):\n        return self.wrapped_node.get_readonly_uri()\n", "ANALYSIS-ERROR"),
    M("benign-new-directory-nested-def", NM,
      "        d = self.create_mutable_file(lambda n:\n"
      "                                     MutableData(pack_children(initial_children,\n"
      "                                                    n.get_writekey())),\n",
      "        def _initial_contents(n):\n"
      "            wk = n.get_writekey()\n"
      "            return MutableData(pack_children(initial_children, wk))\n"
      "        d = self.create_mutable_file(_initial_contents,\n", None),
    M("benign-pack-children-positional", D,
      "    return _pack_normalized_children(children, writekey=writekey, deep_immutable=deep_immutable)",
      "    return _pack_normalized_children(children, writekey, deep_immutable)", None),
    M("benign-immutable-directory-key-by-keyword", NM,
      "        packed = pack_children(children, None, deep_immutable=True)",
      "        no_key = None\n        packed = pack_children(children, writekey=no_key, deep_immutable=True)", None),
    M("benign-writekey-from-filecap", MF,
      "            self._writekey = self._uri.writekey\n",
      "            wk = filecap.writekey\n            self._writekey = wk\n", None),
    M("benign-decrypt-ifexp", D,
      "            rw_uri = b\"\"\n            if writeable:\n                rw_uri = self._decrypt_rwcapdata(rwcapdata)\n",
      "            rw_uri = self._decrypt_rwcapdata(rwcapdata) if writeable else b\"\"\n", None),
    M("benign-encrypt-ifexp", D,
      "            if writekey is not None:\n                writecap = netstring(_encrypt_rw_uri(writekey, rw_uri))\n"
      "            else:\n                writecap = ZERO_LEN_NETSTR\n",
      "            writecap = netstring(_encrypt_rw_uri(writekey, rw_uri)) if writekey is not None else ZERO_LEN_NETSTR\n",
      None),
    M("benign-key-truthiness", D,
      "            if writekey is not None:\n                writecap = netstring(_encrypt_rw_uri(writekey, rw_uri))\n",
      "            if writekey:\n                writecap = netstring(_encrypt_rw_uri(writekey, rw_uri))\n", None,
      note="differs only for an empty key, which no caller passes and which would encrypt nothing secret-keyed anyway"),
    M("benign-readonly-local", D,
      "        writeable = not self.is_readonly()\n", "        readonly = self.is_readonly()\n", None,
      edits=[(D, "            if writeable:\n                rw_uri = self._decrypt_rwcapdata(rwcapdata)\n",
              "            if not readonly:\n                rw_uri = self._decrypt_rwcapdata(rwcapdata)\n")]),
    M("benign-write-uri-positive-form", D,
      "    def get_write_uri(self):\n        if self.is_readonly():\n            return None\n        return self._uri.to_string()\n",
      "    def get_write_uri(self):\n        if not self.is_readonly():\n            return self._uri.to_string()\n        return None\n",
      None),
    M("benign-hoist-writekey", D,
      "        return _pack_normalized_children(children, self._node.get_writekey())",
      "        wk = self._node.get_writekey()\n        return _pack_normalized_children(children, writekey=wk)", None),
    M("benign-bigcap-ifexp", NM,
      "        bigcap = writecap or readcap\n", "        bigcap = writecap if writecap else readcap\n", None),
    M("benign-decrypt-into-temp", D,
      "                rw_uri = self._decrypt_rwcapdata(rwcapdata)\n",
      "                plain = self._decrypt_rwcapdata(rwcapdata)\n                rw_uri = plain\n", None),
    M("benign-key-is-none-form", D,
      "            if writekey is not None:\n                writecap = netstring(_encrypt_rw_uri(writekey, rw_uri))\n"
      "            else:\n                writecap = ZERO_LEN_NETSTR\n",
      "            if writekey is None:\n                writecap = ZERO_LEN_NETSTR\n"
      "            else:\n                sealed = _encrypt_rw_uri(writekey, rw_uri)\n                writecap = netstring(sealed)\n",
      None),
    M("benign-salt-hash-param-renamed", HU,
      "def mutable_rwcap_salt_hash(writekey):\n    return tagged_hash(DIRNODE_CHILD_SALT_TAG, writekey, IVLEN)\n",
      "def mutable_rwcap_salt_hash(rw_uri):\n    return tagged_hash(DIRNODE_CHILD_SALT_TAG, rw_uri, IVLEN)\n", None),
    M("benign-salt-hash-explicit-hasher", HU,
      "def mutable_rwcap_salt_hash(writekey):\n    return tagged_hash(DIRNODE_CHILD_SALT_TAG, writekey, IVLEN)\n",
      "def mutable_rwcap_salt_hash(writekey):\n    h = tagged_hasher(DIRNODE_CHILD_SALT_TAG, IVLEN)\n"
      "    h.update(writekey)\n    return h.digest()\n", None),
    M("benign-salt-inlined-tagged-hash", D,
      "    salt = hashutil.mutable_rwcap_salt_hash(rw_uri)\n",
      "    salt = hashutil.tagged_hash(hashutil.DIRNODE_CHILD_SALT_TAG, rw_uri, hashutil.IVLEN)\n", None),
    M("benign-encrypt-locals-renamed", D,
      "    salt = hashutil.mutable_rwcap_salt_hash(rw_uri)\n"
      "    key = hashutil.mutable_rwcap_key_hash(salt, writekey)\n"
      "    encryptor = aes.create_encryptor(key)\n"
      "    crypttext = aes.encrypt_data(encryptor, rw_uri)\n"
      "    mac = hashutil.hmac(key, salt + crypttext)\n"
      "    assert len(mac) == 32\n"
      "    return salt + crypttext + mac\n",
      "    child_salt = hashutil.mutable_rwcap_salt_hash(rw_uri)\n"
      "    child_key = hashutil.mutable_rwcap_key_hash(child_salt, writekey)\n"
      "    crypttext = aes.encrypt_data(aes.create_encryptor(child_key, iv=None), rw_uri)\n"
      "    mac = hashutil.hmac(child_key, child_salt + crypttext)\n"
      "    assert len(mac) == 32\n"
      "    return child_salt + crypttext + mac\n", None),
    # ---- C18.11 every child handed out was made for this node
    M("unpack-memo-keyed-by-contents", D,
      "        writeable = not self.is_readonly()\n        mutable = self.is_mutable()\n        children = AuxValueDict()\n",
      "        cachekey = (self.get_storage_index(), hashutil.tagged_hash(b\"unpack-memo\", data))\n"
      "        cached = _unpack_memo.get(cachekey)\n"
      "        if cached is not None:\n"
      "            return _copy_children(cached)\n"
      "        writeable = not self.is_readonly()\n        mutable = self.is_mutable()\n        children = AuxValueDict()\n",
      "C18.11",
      edits=[(D, "ZERO_LEN_NETSTR=netstring(b'')\n",
              "ZERO_LEN_NETSTR=netstring(b'')\n_unpack_memo = {}\n\n"
              "def _copy_children(children):\n    copied = AuxValueDict()\n    for name in children:\n"
              "        copied.set_with_aux(name, children[name], children.get_aux(name))\n    return copied\n\n"),
             (D, "                               facility=\"tahoe.webish\", level=log.UNUSUAL)\n\n        return children\n",
              "                               facility=\"tahoe.webish\", level=log.UNUSUAL)\n\n"
              "        _unpack_memo[cachekey] = _copy_children(children)\n        return children\n")],
      note="seeded C18-G: the memo is consulted before, and keyed without, the writeability of the unpacking node"),
    M("unpack-memo-behind-helper", D,
      "        writeable = not self.is_readonly()\n        mutable = self.is_mutable()\n        children = AuxValueDict()\n",
      "        known = _recall_unpacked(self.get_storage_index(), data)\n"
      "        if known is not None:\n"
      "            return known\n"
      "        writeable = not self.is_readonly()\n        mutable = self.is_mutable()\n        children = AuxValueDict()\n",
      "C18.11",
      edits=[(D, "ZERO_LEN_NETSTR=netstring(b'')\n",
              "ZERO_LEN_NETSTR=netstring(b'')\n_unpacked_versions = {}\n\n"
              "def _recall_unpacked(si, data):\n    hit = _unpacked_versions.get(si)\n"
              "    if hit is not None and hit[0] == data:\n        return hit[1]\n    return None\n\n"),
             (D, "                               facility=\"tahoe.webish\", level=log.UNUSUAL)\n\n        return children\n",
              "                               facility=\"tahoe.webish\", level=log.UNUSUAL)\n\n"
              "        _unpacked_versions[self.get_storage_index()] = (data, children)\n        return children\n")],
      note="same effect, the lookup hidden in a module-level helper that is not told who asks"),
    M("child-memo-on-nodemaker", D,
      "                child = self._create_and_validate_node(rw_uri, ro_uri, name)\n"
      "                if mutable or child.is_allowed_in_immutable_directory():\n",
      "                child = self._nodemaker.unpacked_children.get(entry)\n"
      "                if child is None:\n"
      "                    child = self._create_and_validate_node(rw_uri, ro_uri, name)\n"
      "                    self._nodemaker.unpacked_children[entry] = child\n"
      "                if mutable or child.is_allowed_in_immutable_directory():\n", "C18.11",
      edits=[(NM, "        self._node_cache = weakref.WeakValueDictionary() # uri -> node\n",
              "        self._node_cache = weakref.WeakValueDictionary() # uri -> node\n        self.unpacked_children = {}\n")],
      note="seeded C19-G in another spelling: the packed entry is the same for the read-only and the writeable view"),
    M("factory-memo-keyed-by-readcap", D,
      "        node = self._nodemaker.create_from_cap(rw_uri, ro_uri,\n"
      "                                               deep_immutable=not self.is_mutable(),\n"
      "                                               name=name)\n        node.raise_error()\n        return node\n",
      "        node = _validated_children.get(ro_uri)\n"
      "        if node is not None:\n            return node\n"
      "        node = self._nodemaker.create_from_cap(rw_uri, ro_uri,\n"
      "                                               deep_immutable=not self.is_mutable(),\n"
      "                                               name=name)\n        node.raise_error()\n"
      "        _validated_children[ro_uri] = node\n        return node\n", "C18.11",
      edits=[(D, "ZERO_LEN_NETSTR=netstring(b'')\n", "ZERO_LEN_NETSTR=netstring(b'')\n_validated_children = {}\n")],
      note="sibling site: the factory itself remembers nodes by read cap alone, so (None, ro) gets the node made for (rw, ro)"),
    M("readonly-copy-memo", D,
      "        return self._create_and_validate_node(None, node.get_readonly_uri(), name=name)\n",
      "        return _diminished.setdefault(name, self._create_and_validate_node(None, node.get_readonly_uri(), name=name))\n",
      "C18.11",
      edits=[(D, "ZERO_LEN_NETSTR=netstring(b'')\n", "ZERO_LEN_NETSTR=netstring(b'')\n_diminished = {}\n")]),
    M("benign-unpack-memo-keyed-by-writeability", D,
      "        writeable = not self.is_readonly()\n        mutable = self.is_mutable()\n        children = AuxValueDict()\n",
      "        writeable = not self.is_readonly()\n"
      "        cachekey = (self.get_storage_index(), writeable, hashutil.tagged_hash(b\"unpack-memo\", data))\n"
      "        cached = _unpack_memo.get(cachekey)\n"
      "        if cached is not None:\n"
      "            return _copy_children(cached)\n"
      "        mutable = self.is_mutable()\n        children = AuxValueDict()\n",
      None,
      edits=[(D, "ZERO_LEN_NETSTR=netstring(b'')\n",
              "ZERO_LEN_NETSTR=netstring(b'')\n_unpack_memo = {}\n\n"
              "def _copy_children(children):\n    copied = AuxValueDict()\n    for name in children:\n"
              "        copied.set_with_aux(name, children[name], children.get_aux(name))\n    return copied\n\n"),
             (D, "                               facility=\"tahoe.webish\", level=log.UNUSUAL)\n\n        return children\n",
              "                               facility=\"tahoe.webish\", level=log.UNUSUAL)\n\n"
              "        _unpack_memo[cachekey] = _copy_children(children)\n        return children\n")],
      note="the same memo partitioned by the writeability of the unpacking node: a read-only node is served only what a "
           "read-only node unpacked (benign for this property)"),
    M("benign-unpack-pair-hoisted", D,
      "                    children[name] = (child, metadata)\n"
      "                    children.set_with_aux(name, (child, metadata), auxilliary=entry)\n",
      "                    pair = (child, metadata)\n"
      "                    children[name] = pair\n"
      "                    children.set_with_aux(name, pair, auxilliary=entry)\n", None),
    M("benign-unpack-metadata-helper-method", D,
      "                    metadata = json.loads(metadata_s)\n                    assert isinstance(metadata, dict)\n",
      "                    metadata = self._parse_metadata(metadata_s)\n", None,
      edits=[(D, "    def _create_readonly_node(self, node, name):\n",
              "    def _parse_metadata(self, metadata_s):\n"
              "        metadata = json.loads(metadata_s)\n        assert isinstance(metadata, dict)\n        return metadata\n\n"
              "    def _create_readonly_node(self, node, name):\n")]),
    M("benign-unpack-result-copied", D,
      "                               facility=\"tahoe.webish\", level=log.UNUSUAL)\n\n        return children\n",
      "                               facility=\"tahoe.webish\", level=log.UNUSUAL)\n\n"
      "        result = AuxValueDict()\n        for k in children:\n"
      "            result.set_with_aux(k, children[k], children.get_aux(k))\n        return result\n", None),
    M("benign-factory-node-renamed", D,
      "                                               name=name)\n        node.raise_error()\n        return node\n",
      "                                               name=name)\n        made = node\n        made.raise_error()\n        return made\n",
      None),
    # ---- vanished anchor
    M("vanish-decrypt", D,
      "    def _decrypt_rwcapdata(self, encwrcap):", "    def _decrypt_rwcapdataX(self, encwrcap):", "ANALYSIS-ERROR"),
]
