from .runner import M

D = "src/allmydata/dirnode.py"
NM = "src/allmydata/nodemaker.py"
UN = "src/allmydata/unknown.py"
MF = "src/allmydata/mutable/filenode.py"
IF = "src/allmydata/immutable/filenode.py"
LIT = "src/allmydata/immutable/literal.py"
BL = "src/allmydata/blacklist.py"

ENTRY = ("            entry = b\"\".join([netstring(name.encode(\"utf-8\")),\n"
         "                             netstring(strip_prefix_for_ro(ro_uri, deep_immutable)),\n"
         "                             writecap,\n"
         "                             netstring(json.dumps(metadata).encode(\"utf-8\"))])\n")

MUTANTS = [
    # ---- C19.1 entry fields
    M("writer-swaps-ro-rw", D, ENTRY,
      "            entry = b\"\".join([netstring(name.encode(\"utf-8\")),\n"
      "                             writecap,\n"
      "                             netstring(strip_prefix_for_ro(ro_uri, deep_immutable)),\n"
      "                             netstring(json.dumps(metadata).encode(\"utf-8\"))])\n", "C19.1"),
    M("reader-swaps-ro-rw", D,
      "            (namex_utf8, ro_uri, rwcapdata, metadata_s), subpos = split_netstring(entry, 4)",
      "            (namex_utf8, rwcapdata, ro_uri, metadata_s), subpos = split_netstring(entry, 4)", "C19.1"),
    M("reader-splits-three", D,
      "            (namex_utf8, ro_uri, rwcapdata, metadata_s), subpos = split_netstring(entry, 4)",
      "            (namex_utf8, ro_uri, rwcapdata, metadata_s), subpos = split_netstring(entry, 3)", "C19.1"),
    M("writer-adds-fifth-field", D, ENTRY,
      ENTRY.replace("netstring(json.dumps(metadata).encode(\"utf-8\"))])",
                    "netstring(json.dumps(metadata).encode(\"utf-8\")),\n"
                    "                             netstring(b\"v2\")])"), "C19.1"),
    M("metadata-field-unframed", D, ENTRY,
      ENTRY.replace("netstring(json.dumps(metadata).encode(\"utf-8\"))])", "json.dumps(metadata).encode(\"utf-8\")])"),
      "C19.1"),
    M("name-codec-mismatch", D,
      "            name = normalize(namex_utf8.decode(\"utf-8\"))", "            name = normalize(namex_utf8.decode(\"latin-1\"))",
      "C19.1"),
    M("fields-joined-with-separator", D, ENTRY, ENTRY.replace("entry = b\"\".join(", "entry = b\",\".join("), "C19.1"),
    M("writer-packs-metadata-of-wrong-slot", D,
      "        (child, metadata) = children[name]\n        child.raise_error()\n",
      "        (metadata, child) = children[name]\n        child.raise_error()\n", "C19.1"),
    # ---- C19.2 outer framing
    M("entry-appended-unframed", D,
      "        entries.append(netstring(entry))\n", "        entries.append(entry)\n", "C19.2"),
    M("entries-joined-with-newline", D,
      "    return b\"\".join(entries)\n\n@implementer(IDirectoryNode", "    return b\"\\n\".join(entries)\n\n@implementer(IDirectoryNode",
      "C19.2"),
    M("position-not-advanced", D,
      "            entries, position = split_netstring(data, 1, position)",
      "            entries, _next = split_netstring(data, 1, position)", "C19.2"),
    M("outer-split-two", D,
      "            entries, position = split_netstring(data, 1, position)",
      "            entries, position = split_netstring(data, 2, position)", "C19.2"),
    M("aux-cached-framed", D,
      "                    children.set_with_aux(name, (child, metadata), auxilliary=entry)",
      "                    children.set_with_aux(name, (child, metadata), auxilliary=netstring(entry))", "C19.2"),
    M("aux-shortcut-skips-framing", D,
      "        if has_aux:\n            entry = children.get_aux(name)\n",
      "        if has_aux and children.get_aux(name):\n            entries.append(children.get_aux(name))\n            continue\n",
      "C19.2"),
    M("parses-last-element", D,
      "            entry = entries[0]\n", "            entry = entries[-1]\n", None),   # one element: same thing
    # ---- C19.3 rwcap layout
    M("salt-slice-too-long", D,
      "        salt = encwrcap[:16]\n", "        salt = encwrcap[:32]\n", "C19.3"),
    M("mac-not-cut-off", D,
      "        crypttext = encwrcap[16:-32]\n", "        crypttext = encwrcap[16:]\n", "C19.3"),
    M("writer-drops-mac", D,
      "    assert len(mac) == 32\n    return salt + crypttext + mac\n", "    return salt + crypttext\n", "C19.3"),
    M("writer-mac-first", D,
      "    return salt + crypttext + mac\n    # The MAC", "    return mac + salt + crypttext\n    # The MAC", "C19.3"),
    M("writer-key-args-swapped", D,
      "    key = hashutil.mutable_rwcap_key_hash(salt, writekey)\n", "    key = hashutil.mutable_rwcap_key_hash(writekey, salt)\n",
      "C19.3"),
    M("reader-key-from-wrong-slice", D,
      "        key = hashutil.mutable_rwcap_key_hash(salt, self._node.get_writekey())",
      "        key = hashutil.mutable_rwcap_key_hash(crypttext, self._node.get_writekey())", "C19.3"),
    M("reader-mixes-cryptor-kinds", D,
      "        encryptor = aes.create_decryptor(key)\n", "        encryptor = aes.create_encryptor(key)\n", "C19.3"),
    M("reader-returns-ciphertext", D,
      "        plaintext = aes.decrypt_data(encryptor, crypttext)\n        return plaintext\n",
      "        plaintext = aes.decrypt_data(encryptor, crypttext)\n        return crypttext\n", "C19.3"),
    # ---- C19.4 names normalised
    M("adder-stores-raw-name", D,
      "            name = normalize(namex)\n            precondition(IFilesystemNode.providedBy(child), child)\n",
      "            name = namex\n            precondition(IFilesystemNode.providedBy(child), child)\n", "C19.4"),
    M("pack-children-raw-name", D,
      "        children[normalize(namex)] = (node, metadata)\n", "        children[namex] = (node, metadata)\n", "C19.4"),
    M("unpack-raw-name", D,
      "            name = normalize(namex_utf8.decode(\"utf-8\"))", "            name = namex_utf8.decode(\"utf-8\")", "C19.4"),
    M("deleter-raw-name", D,
      "class Deleter:\n    def __init__(self, node, namex, must_exist=True, must_be_directory=False, must_be_file=False):\n"
      "        self.node = node\n        self.name = normalize(namex)\n",
      "class Deleter:\n    def __init__(self, node, namex, must_exist=True, must_be_directory=False, must_be_file=False):\n"
      "        self.node = node\n        self.name = namex\n", "C19.4"),
    M("metadata-setter-raw-name", D,
      "        self.node = node\n        self.name = normalize(namex)\n        self.metadata = metadata\n",
      "        self.node = node\n        self.name = namex\n        self.metadata = metadata\n", "C19.4"),
    M("adder-bulk-update", D,
      "        new_contents = self.node._pack_contents(children)\n        return new_contents\n\ndef _encrypt_rw_uri",
      "        children.update({})\n        new_contents = self.node._pack_contents(children)\n        return new_contents\n\n"
      "def _encrypt_rw_uri", "C19.4"),
    # ---- C19.5 immutable refusal
    M("refusal-dropped", D,
      "        if deep_immutable and not child.is_allowed_in_immutable_directory():\n"
      "            raise MustBeDeepImmutableError(\n"
      "                \"child %r is not allowed in an immutable directory\" % (name,),\n"
      "                name)\n", "", "C19.5"),
    M("refusal-after-aux-shortcut", D,
      "        if deep_immutable and not child.is_allowed_in_immutable_directory():\n"
      "            raise MustBeDeepImmutableError(\n"
      "                \"child %r is not allowed in an immutable directory\" % (name,),\n"
      "                name)\n"
      "        if has_aux:\n            entry = children.get_aux(name)\n        if not entry:\n",
      "        if has_aux:\n            entry = children.get_aux(name)\n        if not entry:\n"
      "            if deep_immutable and not child.is_allowed_in_immutable_directory():\n"
      "                raise MustBeDeepImmutableError(\n"
      "                    \"child %r is not allowed in an immutable directory\" % (name,),\n"
      "                    name)\n", "C19.5"),
    M("refusal-polarity", D,
      "        if deep_immutable and not child.is_allowed_in_immutable_directory():",
      "        if deep_immutable and child.is_allowed_in_immutable_directory():", "C19.5"),
    M("immutable-dir-not-deep", NM,
      "        packed = pack_children(children, None, deep_immutable=True)", "        packed = pack_children(children, None)",
      "C19.5"),
    M("pack-children-drops-flag", D,
      "    return _pack_normalized_children(children, writekey=writekey, deep_immutable=deep_immutable)",
      "    return _pack_normalized_children(children, writekey=writekey)", "C19.5"),
    M("reader-accepts-rwcap-in-immutable", D,
      "            if not mutable and len(rwcapdata) > 0:\n"
      "                raise ValueError(\"the rwcapdata field of a dirnode in an immutable directory was not empty\")\n",
      "", "C19.5"),
    M("reader-lists-mutable-child-of-immutable", D,
      "                if mutable or child.is_allowed_in_immutable_directory():\n                    metadata = json.loads(metadata_s)",
      "                if True:\n                    metadata = json.loads(metadata_s)", "C19.5"),
    M("children-not-created-deep-immutable", D,
      "                                               deep_immutable=not self.is_mutable(),\n", "", "C19.5"),
    # ---- C19.6 unknown-cap prefixes
    M("strip-wrong-prefix-length", UN,
      "        return ro_uri[len(ALLEGED_IMMUTABLE_PREFIX):]\n    elif",
      "        return ro_uri[len(ALLEGED_READONLY_PREFIX):]\n    elif", "C19.6"),
    M("strip-imm-in-mutable-dir", UN,
      "        if not deep_immutable:\n            return ro_uri\n        return ro_uri[len(ALLEGED_IMMUTABLE_PREFIX):]",
      "        return ro_uri[len(ALLEGED_IMMUTABLE_PREFIX):]", "C19.6"),
    M("convert-ro-to-imm-wrong-length", UN,
      "                    self.ro_uri = ALLEGED_IMMUTABLE_PREFIX + given_ro_uri[len(ALLEGED_READONLY_PREFIX):]",
      "                    self.ro_uri = ALLEGED_IMMUTABLE_PREFIX + given_ro_uri[len(ALLEGED_IMMUTABLE_PREFIX):]", "C19.6"),
    M("double-ro-prefix", UN,
      "                if (given_ro_uri.startswith(ALLEGED_READONLY_PREFIX) or\n"
      "                    given_ro_uri.startswith(ALLEGED_IMMUTABLE_PREFIX)):\n"
      "                    self.ro_uri = given_ro_uri\n                else:\n"
      "                    self.ro_uri = ALLEGED_READONLY_PREFIX + given_ro_uri\n",
      "                if given_ro_uri.startswith(ALLEGED_IMMUTABLE_PREFIX):\n"
      "                    self.ro_uri = given_ro_uri\n                else:\n"
      "                    self.ro_uri = ALLEGED_READONLY_PREFIX + given_ro_uri\n", "C19.6"),
    # ---- C19.7 is_allowed_in_immutable_directory() == deep-immutable, per node class
    M("dirnode-allowed-if-readonly", D,                      # seeded C19-B
      "        return not self._node.is_mutable()\n", "        return self.is_readonly()\n", "C19.7"),
    M("dirnode-allowed-if-immutable-or-readonly", D,
      "        return not self._node.is_mutable()\n",
      "        return not self._node.is_mutable() or self._node.is_readonly()\n", "C19.7"),
    M("dirnode-allowed-early-return-for-readonly", D,
      "        return not self._node.is_mutable()\n",
      "        if self._node.is_readonly():\n            return True\n        return not self._node.is_mutable()\n", "C19.7"),
    M("mutable-filenode-allowed-if-readonly", MF,
      "        return not self._uri.is_mutable()\n", "        return self._uri.is_readonly()\n", "C19.7"),
    M("mutable-filenode-always-allowed", MF,
      "        return not self._uri.is_mutable()\n", "        return True\n", "C19.7"),
    M("unknown-allowed-with-write-cap", UN,
      "        return not self.error and not self.rw_uri\n", "        return not self.error\n", "C19.7"),
    M("unknown-allowed-with-error", UN,
      "        return not self.error and not self.rw_uri\n", "        return not self.rw_uri\n", "C19.7"),
    M("unknown-never-allowed", UN,
      "        return not self.error and not self.rw_uri\n", "        return False\n", "C19.7"),
    M("chk-filenode-not-allowed", IF,
      "    def is_allowed_in_immutable_directory(self):\n        return True\n",
      "    def is_allowed_in_immutable_directory(self):\n        return False\n", "C19.7"),
    M("literal-not-allowed", LIT,
      "    def is_allowed_in_immutable_directory(self):\n        return True\n",
      "    def is_allowed_in_immutable_directory(self):\n        return self.is_mutable()\n", "C19.7"),
    M("prohibited-node-always-allowed", BL,
      "        return self.wrapped_node.is_allowed_in_immutable_directory()\n", "        return True\n", "C19.7"),
    M("prohibited-node-allowed-if-readonly", BL,
      "        return self.wrapped_node.is_allowed_in_immutable_directory()\n",
      "        return self.wrapped_node.is_readonly()\n", "C19.7"),
    M("benign-dirnode-allowed-via-own-is-mutable", D,
      "        return not self._node.is_mutable()\n", "        return not self.is_mutable()\n", None),
    M("benign-dirnode-allowed-hoisted", D,
      "        return not self._node.is_mutable()\n",
      "        mutable = self._node.is_mutable()\n        if mutable:\n            return False\n        return True\n", None),
    M("benign-dirnode-allowed-delegates", D,
      "        return not self._node.is_mutable()\n", "        return self._node.is_allowed_in_immutable_directory()\n", None),
    M("benign-dirnode-allowed-redundant-readonly", D,    # immutable implies read-only
      "        return not self._node.is_mutable()\n",
      "        return self._node.is_readonly() and not self._node.is_mutable()\n", None),
    M("benign-unknown-allowed-early-return", UN,
      "        return not self.error and not self.rw_uri\n",
      "        if self.error is not None:\n            return False\n        return not self.rw_uri\n", None),
    M("benign-unknown-allowed-de-morgan", UN,
      "        return not self.error and not self.rw_uri\n", "        return not (self.error or self.get_write_uri())\n", None),
    M("benign-mutable-filenode-never-allowed", MF,       # an IMutableFileNode is always mutable
      "        return not self._uri.is_mutable()\n", "        return False\n", None),
    M("benign-prohibited-node-allowed-via-is-mutable", BL,
      "        return self.wrapped_node.is_allowed_in_immutable_directory()\n",
      "        return not self.wrapped_node.is_mutable()\n", None),
    # ---- C19.8 is_mutable() of the node classes
    M("dirnode-mutable-means-writeable", D,
      "    def is_mutable(self):\n        return self._node.is_mutable()\n",
      "    def is_mutable(self):\n        return not self._node.is_readonly()\n", "C19.8"),
    M("dirnode-mutable-and-allowed-both-by-readonly", D,
      "    def is_mutable(self):\n        return self._node.is_mutable()\n",
      "    def is_mutable(self):\n        return not self.is_readonly()\n", "C19.8",
      edits=[(D, "        return not self._node.is_mutable()\n", "        return not self.is_mutable()\n")]),
    M("dirnode-mutable-inverted", D,
      "    def is_mutable(self):\n        return self._node.is_mutable()\n",
      "    def is_mutable(self):\n        return not self._node.is_mutable()\n", "C19.8",
      edits=[(D, "    def is_allowed_in_immutable_directory(self):\n        return not self._node.is_mutable()\n",
              "    def is_allowed_in_immutable_directory(self):\n        return not self.is_mutable()\n")]),
    M("chk-filenode-claims-mutable", IF,
      "    def is_mutable(self):\n        return False\n\n    def is_readonly(self):",
      "    def is_mutable(self):\n        return True\n\n    def is_readonly(self):", "C19.8",
      edits=[(IF, "    def is_allowed_in_immutable_directory(self):\n        return True\n",
              "    def is_allowed_in_immutable_directory(self):\n        return False\n")]),
    M("mutable-filenode-mutable-means-writeable", MF,
      "    def is_mutable(self):\n        return self._uri.is_mutable()\n",
      "    def is_mutable(self):\n        return not self._uri.is_readonly()\n", "C19.8",
      edits=[(MF, "        return not self._uri.is_mutable()\n", "        return not self.is_mutable()\n")]),
    M("benign-dirnode-mutable-hoisted", D,
      "    def is_mutable(self):\n        return self._node.is_mutable()\n",
      "    def is_mutable(self):\n        m = self._node.is_mutable()\n        return bool(m)\n", None),
    M("benign-mutable-filenode-always-mutable", MF,
      "    def is_mutable(self):\n        return self._uri.is_mutable()\n",
      "    def is_mutable(self):\n        return True\n", None,
      edits=[(MF, "        return not self._uri.is_mutable()\n", "        return False\n")]),
    # ---- benign
    M("benign-ivlen-symbolic", D,
      "        salt = encwrcap[:16]\n        crypttext = encwrcap[16:-32]\n",
      "        salt = encwrcap[:hashutil.IVLEN]\n        crypttext = encwrcap[hashutil.IVLEN:-32]\n", None),
    M("benign-fields-as-locals", D, ENTRY,
      "            name_field = netstring(name.encode(\"utf-8\"))\n"
      "            ro_field = netstring(strip_prefix_for_ro(ro_uri, deep_immutable))\n"
      "            md_field = netstring(json.dumps(metadata).encode(\"utf-8\"))\n"
      "            entry = b\"\".join([name_field, ro_field, writecap, md_field])\n", None),
    M("benign-reader-renames-fields", D,
      "            (namex_utf8, ro_uri, rwcapdata, metadata_s), subpos = split_netstring(entry, 4)\n"
      "            if not mutable and len(rwcapdata) > 0:",
      "            (namex_utf8, ro_uri, rwcapdata, metadata_s), _ = split_netstring(entry, 4)\n"
      "            if len(rwcapdata) != 0 and not mutable:", None),
    M("benign-refusal-nested-if", D,
      "        if deep_immutable and not child.is_allowed_in_immutable_directory():\n            raise MustBeDeepImmutableError(",
      "        if deep_immutable:\n          if not child.is_allowed_in_immutable_directory():\n            raise MustBeDeepImmutableError(",
      None),
    M("benign-adder-inline-normalize", D,
      "            children[name] = (child, metadata)\n        new_contents = self.node._pack_contents(children)\n"
      "        return new_contents\n\ndef _encrypt_rw_uri",
      "            children[normalize(namex)] = (child, metadata)\n        new_contents = self.node._pack_contents(children)\n"
      "        return new_contents\n\ndef _encrypt_rw_uri", None),
    M("benign-reader-uses-encrypt-pair", D,
      "        encryptor = aes.create_decryptor(key)\n        plaintext = aes.decrypt_data(encryptor, crypttext)\n",
      "        encryptor = aes.create_encryptor(key)\n        plaintext = aes.encrypt_data(encryptor, crypttext)\n", None),
    # ---- vanished anchor
    M("vanish-unpack", D,
      "    def _unpack_contents(self, data):", "    def _unpack_contentsX(self, data):", "ANALYSIS-ERROR"),
    M("vanish-dirnode-allowed", D,
      "    def is_allowed_in_immutable_directory(self):\n        return not self._node.is_mutable()\n",
      "    def is_allowed_in_immutable_directoryX(self):\n        return not self._node.is_mutable()\n", "ANALYSIS-ERROR"),
]
