from .runner import M

D = "src/allmydata/dirnode.py"
NM = "src/allmydata/nodemaker.py"
UN = "src/allmydata/unknown.py"
MF = "src/allmydata/mutable/filenode.py"
IF = "src/allmydata/immutable/filenode.py"
LIT = "src/allmydata/immutable/literal.py"
BL = "src/allmydata/blacklist.py"
U = "src/allmydata/uri.py"
EU = "src/allmydata/util/encodingutil.py"
NORM = "def normalize(namex):\n    return unicodedata.normalize('NFC', namex)\n"

ENTRY = ("            entry = b\"\".join([netstring(name.encode(\"utf-8\")),\n"
         "                             netstring(strip_prefix_for_ro(ro_uri, deep_immutable)),\n"
         "                             writecap,\n"
         "                             netstring(json.dumps(metadata).encode(\"utf-8\"))])\n")

UN_RW_TEST = ("                if not (given_rw_uri.startswith(ALLEGED_READONLY_PREFIX)\n"
              "                        or given_rw_uri.startswith(ALLEGED_IMMUTABLE_PREFIX)):")
UN_RO_TEST = ("                if (given_ro_uri.startswith(ALLEGED_READONLY_PREFIX) or\n"
              "                    given_ro_uri.startswith(ALLEGED_IMMUTABLE_PREFIX)):")
FS_PREFIX_BLOCK = ("    if s.startswith(ALLEGED_IMMUTABLE_PREFIX):\n"
                   "        can_be_mutable = can_be_writeable = False\n"
                   "        s = s[len(ALLEGED_IMMUTABLE_PREFIX):]\n"
                   "    elif s.startswith(ALLEGED_READONLY_PREFIX):\n"
                   "        can_be_writeable = False\n"
                   "        s = s[len(ALLEGED_READONLY_PREFIX):]\n")


def fs_prefix_tuple(outer="(ALLEGED_IMMUTABLE_PREFIX, ALLEGED_READONLY_PREFIX)", inner="ALLEGED_IMMUTABLE_PREFIX"):
    """from_string's prefix handling with one tuple test, told apart inside."""
    return ("    if s.startswith(%s):\n"
            "        can_be_writeable = False\n"
            "        if s.startswith(%s):\n"
            "            can_be_mutable = False\n"
            "            s = s[len(ALLEGED_IMMUTABLE_PREFIX):]\n"
            "        else:\n"
            "            s = s[len(ALLEGED_READONLY_PREFIX):]\n") % (outer, inner)


MUTANTS = [
    # ---- C19.1 entry fields
    M("writer-swaps-ro-rw", D, ENTRY,
      "            entry = b\"\".join([netstring(name.encode(\"utf-8\")),\n"
      "                             writecap,\n"
      "                             netstring(strip_prefix_for_ro(ro_uri, deep_immutable)),\n"
      "                             netstring(json.dumps(metadata).encode(\"utf-8\"))])\n", "C19.1"),
    M("reader-swaps-ro-rw", D,
      "            (namex_utf8, ro_uri, rwcapdata, metadata_s), subpos = split_netstring(entry, 4)",
      "            (namex_utf8, rwcapdata, ro_uri, metadata_s), subpos = split_netstring(entry, 4)", "C19.1"),
    M("reader-splits-three", D,
      "            (namex_utf8, ro_uri, rwcapdata, metadata_s), subpos = split_netstring(entry, 4)",
      "            (namex_utf8, ro_uri, rwcapdata, metadata_s), subpos = split_netstring(entry, 3)", "C19.1"),
    M("writer-adds-fifth-field", D, ENTRY,
      ENTRY.replace("netstring(json.dumps(metadata).encode(\"utf-8\"))])",
                    "netstring(json.dumps(metadata).encode(\"utf-8\")),\n"
                    "                             netstring(b\"v2\")])"), "C19.1"),
    M("metadata-field-unframed", D, ENTRY,
      ENTRY.replace("netstring(json.dumps(metadata).encode(\"utf-8\"))])", "json.dumps(metadata).encode(\"utf-8\")])"),
      "C19.1"),
    M("name-codec-mismatch", D,
      "            name = normalize(namex_utf8.decode(\"utf-8\"))", "            name = normalize(namex_utf8.decode(\"latin-1\"))",
      "C19.1"),
    M("fields-joined-with-separator", D, ENTRY, ENTRY.replace("entry = b\"\".join(", "entry = b\",\".join("), "C19.1"),
    M("writer-packs-metadata-of-wrong-slot", D,
      "        (child, metadata) = children[name]\n        child.raise_error()\n",
      "        (metadata, child) = children[name]\n        child.raise_error()\n", "C19.1"),
    # ---- C19.2 outer framing
    M("entry-appended-unframed", D,
      "        entries.append(netstring(entry))\n", "        entries.append(entry)\n", "C19.2"),
    M("entries-joined-with-newline", D,
      "    return b\"\".join(entries)\n\n@implementer(IDirectoryNode", "    return b\"\\n\".join(entries)\n\n@implementer(IDirectoryNode",
      "C19.2"),
    M("position-not-advanced", D,
      "            entries, position = split_netstring(data, 1, position)",
      "            entries, _next = split_netstring(data, 1, position)", "C19.2"),
    M("outer-split-two", D,
      "            entries, position = split_netstring(data, 1, position)",
      "            entries, position = split_netstring(data, 2, position)", "C19.2"),
    M("aux-cached-framed", D,
      "                    children.set_with_aux(name, (child, metadata), auxilliary=entry)",
      "                    children.set_with_aux(name, (child, metadata), auxilliary=netstring(entry))", "C19.2"),
    M("aux-shortcut-skips-framing", D,
      "        if has_aux:\n            entry = children.get_aux(name)\n",
      "        if has_aux and children.get_aux(name):\n            entries.append(children.get_aux(name))\n            continue\n",
      "C19.2"),
    M("parses-last-element", D,
      "            entry = entries[0]\n", "            entry = entries[-1]\n", None),   # one element: same thing
    # ---- C19.3 rwcap layout
    M("salt-slice-too-long", D,
      "        salt = encwrcap[:16]\n", "        salt = encwrcap[:32]\n", "C19.3"),
    M("mac-not-cut-off", D,
      "        crypttext = encwrcap[16:-32]\n", "        crypttext = encwrcap[16:]\n", "C19.3"),
    M("writer-drops-mac", D,
      "    assert len(mac) == 32\n    return salt + crypttext + mac\n", "    return salt + crypttext\n", "C19.3"),
    M("writer-mac-first", D,
      "    return salt + crypttext + mac\n    # The MAC", "    return mac + salt + crypttext\n    # The MAC", "C19.3"),
    M("writer-key-args-swapped", D,
      "    key = hashutil.mutable_rwcap_key_hash(salt, writekey)\n", "    key = hashutil.mutable_rwcap_key_hash(writekey, salt)\n",
      "C19.3"),
    M("reader-key-from-wrong-slice", D,
      "        key = hashutil.mutable_rwcap_key_hash(salt, self._node.get_writekey())",
      "        key = hashutil.mutable_rwcap_key_hash(crypttext, self._node.get_writekey())", "C19.3"),
    M("reader-mixes-cryptor-kinds", D,
      "        encryptor = aes.create_decryptor(key)\n", "        encryptor = aes.create_encryptor(key)\n", "C19.3"),
    M("reader-returns-ciphertext", D,
      "        plaintext = aes.decrypt_data(encryptor, crypttext)\n        return plaintext\n",
      "        plaintext = aes.decrypt_data(encryptor, crypttext)\n        return crypttext\n", "C19.3"),
    # ---- C19.4 names normalised
    M("adder-stores-raw-name", D,
      "            name = normalize(namex)\n            precondition(IFilesystemNode.providedBy(child), child)\n",
      "            name = namex\n            precondition(IFilesystemNode.providedBy(child), child)\n", "C19.4"),
    M("pack-children-raw-name", D,
      "        children[normalize(namex)] = (node, metadata)\n", "        children[namex] = (node, metadata)\n", "C19.4"),
    M("unpack-raw-name", D,
      "            name = normalize(namex_utf8.decode(\"utf-8\"))", "            name = namex_utf8.decode(\"utf-8\")", "C19.4"),
    M("deleter-raw-name", D,
      "class Deleter:\n    def __init__(self, node, namex, must_exist=True, must_be_directory=False, must_be_file=False):\n"
      "        self.node = node\n        self.name = normalize(namex)\n",
      "class Deleter:\n    def __init__(self, node, namex, must_exist=True, must_be_directory=False, must_be_file=False):\n"
      "        self.node = node\n        self.name = namex\n", "C19.4"),
    # MetadataSetter's only construction site (set_metadata_for) hands in normalize(namex): dropping the second
    # normalisation in the constructor alone changes nothing; dropping both is the breakage
    M("metadata-setter-raw-name", D,
      "        self.node = node\n        self.name = normalize(namex)\n        self.metadata = metadata\n",
      "        self.node = node\n        self.name = namex\n        self.metadata = metadata\n", "C19.4",
      edits=[(D, "        name = normalize(namex)\n        if self.is_readonly():\n            return defer.fail(NotWriteableError())\n"
                 "        assert isinstance(metadata, dict)\n",
              "        name = namex\n        if self.is_readonly():\n            return defer.fail(NotWriteableError())\n"
              "        assert isinstance(metadata, dict)\n")]),
    M("benign-metadata-setter-trusts-normalising-caller", D,
      "        self.node = node\n        self.name = normalize(namex)\n        self.metadata = metadata\n",
      "        self.node = node\n        self.name = namex\n        self.metadata = metadata\n", None),
    # the normalisation moved to the caller, but only on one path / only at one of two construction sites
    M("deleter-normalised-by-caller-on-one-path-only", D,
      "        self.name = normalize(namex)\n        self.must_exist = must_exist\n",
      "        self.name = namex\n        self.must_exist = must_exist\n", "C19.4",
      edits=[(D, "        deleter = Deleter(self, namex, must_exist=must_exist,",
              "        if must_exist:\n            namex = normalize(namex)\n"
              "        deleter = Deleter(self, namex, must_exist=must_exist,")]),
    M("deleter-normalised-by-one-of-two-callers", D,
      "        self.name = normalize(namex)\n        self.must_exist = must_exist\n",
      "        self.name = namex\n        self.must_exist = must_exist\n", "C19.4",
      edits=[(D, "        deleter = Deleter(self, namex, must_exist=must_exist,",
              "        if must_be_file:\n            deleter = Deleter(self, namex, must_exist=must_exist, must_be_file=True)\n"
              "        deleter = Deleter(self, normalize(namex), must_exist=must_exist,")]),
    M("deleter-class-handed-around-as-a-value", D,
      "        self.name = normalize(namex)\n        self.must_exist = must_exist\n",
      "        self.name = namex\n        self.must_exist = must_exist\n", "C19.4",
      edits=[(D, "        deleter = Deleter(self, namex, must_exist=must_exist,",
              "        mk = Deleter\n        deleter = mk(self, namex, must_exist=must_exist,")]),
    M("deleter-caller-normalises-another-name", D,
      "        self.name = normalize(namex)\n        self.must_exist = must_exist\n",
      "        self.name = namex\n        self.must_exist = must_exist\n", "C19.4",
      edits=[(D, "        deleter = Deleter(self, namex, must_exist=must_exist,",
              "        name = normalize(namex)\n        deleter = Deleter(self, namex, must_exist=must_exist,")]),
    M("adder-bulk-update", D,
      "        new_contents = self.node._pack_contents(children)\n        return new_contents\n\ndef _encrypt_rw_uri",
      "        children.update({})\n        new_contents = self.node._pack_contents(children)\n        return new_contents\n\n"
      "def _encrypt_rw_uri", "C19.4"),
    # ---- C19.5 immutable refusal
    M("refusal-dropped", D,
      "        if deep_immutable and not child.is_allowed_in_immutable_directory():\n"
      "            raise MustBeDeepImmutableError(\n"
      "                \"child %r is not allowed in an immutable directory\" % (name,),\n"
      "                name)\n", "", "C19.5"),
    M("refusal-after-aux-shortcut", D,
      "        if deep_immutable and not child.is_allowed_in_immutable_directory():\n"
      "            raise MustBeDeepImmutableError(\n"
      "                \"child %r is not allowed in an immutable directory\" % (name,),\n"
      "                name)\n"
      "        if has_aux:\n            entry = children.get_aux(name)\n        if not entry:\n",
      "        if has_aux:\n            entry = children.get_aux(name)\n        if not entry:\n"
      "            if deep_immutable and not child.is_allowed_in_immutable_directory():\n"
      "                raise MustBeDeepImmutableError(\n"
      "                    \"child %r is not allowed in an immutable directory\" % (name,),\n"
      "                    name)\n", "C19.5"),
    M("refusal-polarity", D,
      "        if deep_immutable and not child.is_allowed_in_immutable_directory():",
      "        if deep_immutable and child.is_allowed_in_immutable_directory():", "C19.5"),
    M("immutable-dir-not-deep", NM,
      "        packed = pack_children(children, None, deep_immutable=True)", "        packed = pack_children(children, None)",
      "C19.5"),
    M("pack-children-drops-flag", D,
      "    return _pack_normalized_children(children, writekey=writekey, deep_immutable=deep_immutable)",
      "    return _pack_normalized_children(children, writekey=writekey)", "C19.5"),
    M("reader-accepts-rwcap-in-immutable", D,
      "            if not mutable and len(rwcapdata) > 0:\n"
      "                raise ValueError(\"the rwcapdata field of a dirnode in an immutable directory was not empty\")\n",
      "", "C19.5"),
    M("reader-lists-mutable-child-of-immutable", D,
      "                if mutable or child.is_allowed_in_immutable_directory():\n                    metadata = json.loads(metadata_s)",
      "                if True:\n                    metadata = json.loads(metadata_s)", "C19.5"),
    M("children-not-created-deep-immutable", D,
      "                                               deep_immutable=not self.is_mutable(),\n", "", "C19.5"),
    # ---- C19.6 unknown-cap prefixes
    M("strip-wrong-prefix-length", UN,
      "        return ro_uri[len(ALLEGED_IMMUTABLE_PREFIX):]\n    elif",
      "        return ro_uri[len(ALLEGED_READONLY_PREFIX):]\n    elif", "C19.6"),
    M("strip-imm-in-mutable-dir", UN,
      "        if not deep_immutable:\n            return ro_uri\n        return ro_uri[len(ALLEGED_IMMUTABLE_PREFIX):]",
      "        return ro_uri[len(ALLEGED_IMMUTABLE_PREFIX):]", "C19.6"),
    M("convert-ro-to-imm-wrong-length", UN,
      "                    self.ro_uri = ALLEGED_IMMUTABLE_PREFIX + given_ro_uri[len(ALLEGED_READONLY_PREFIX):]",
      "                    self.ro_uri = ALLEGED_IMMUTABLE_PREFIX + given_ro_uri[len(ALLEGED_IMMUTABLE_PREFIX):]", "C19.6"),
    M("double-ro-prefix", UN,
      "                if (given_ro_uri.startswith(ALLEGED_READONLY_PREFIX) or\n"
      "                    given_ro_uri.startswith(ALLEGED_IMMUTABLE_PREFIX)):\n"
      "                    self.ro_uri = given_ro_uri\n                else:\n"
      "                    self.ro_uri = ALLEGED_READONLY_PREFIX + given_ro_uri\n",
      "                if given_ro_uri.startswith(ALLEGED_IMMUTABLE_PREFIX):\n"
      "                    self.ro_uri = given_ro_uri\n                else:\n"
      "                    self.ro_uri = ALLEGED_READONLY_PREFIX + given_ro_uri\n", "C19.6"),
    # ---- C19.7 is_allowed_in_immutable_directory() == deep-immutable, per node class
    M("dirnode-allowed-if-readonly", D,                      # seeded C19-B
      "        return not self._node.is_mutable()\n", "        return self.is_readonly()\n", "C19.7"),
    M("dirnode-allowed-if-immutable-or-readonly", D,
      "        return not self._node.is_mutable()\n",
      "        return not self._node.is_mutable() or self._node.is_readonly()\n", "C19.7"),
    M("dirnode-allowed-early-return-for-readonly", D,
      "        return not self._node.is_mutable()\n",
      "        if self._node.is_readonly():\n            return True\n        return not self._node.is_mutable()\n", "C19.7"),
    M("mutable-filenode-allowed-if-readonly", MF,
      "        return not self._uri.is_mutable()\n", "        return self._uri.is_readonly()\n", "C19.7"),
    M("mutable-filenode-always-allowed", MF,
      "        return not self._uri.is_mutable()\n", "        return True\n", "C19.7"),
    M("unknown-allowed-with-write-cap", UN,
      "        return not self.error and not self.rw_uri\n", "        return not self.error\n", "C19.7"),
    M("unknown-allowed-with-error", UN,
      "        return not self.error and not self.rw_uri\n", "        return not self.rw_uri\n", "C19.7"),
    M("unknown-never-allowed", UN,
      "        return not self.error and not self.rw_uri\n", "        return False\n", "C19.7"),
    M("chk-filenode-not-allowed", IF,
      "    def is_allowed_in_immutable_directory(self):\n        return True\n",
      "    def is_allowed_in_immutable_directory(self):\n        return False\n", "C19.7"),
    M("literal-not-allowed", LIT,
      "    def is_allowed_in_immutable_directory(self):\n        return True\n",
      "    def is_allowed_in_immutable_directory(self):\n        return self.is_mutable()\n", "C19.7"),
    M("prohibited-node-always-allowed", BL,
      "        return self.wrapped_node.is_allowed_in_immutable_directory()\n", "        return True\n", "C19.7"),
    M("prohibited-node-allowed-if-readonly", BL,
      "        return self.wrapped_node.is_allowed_in_immutable_directory()\n",
      "        return self.wrapped_node.is_readonly()\n", "C19.7"),
    M("benign-dirnode-allowed-via-own-is-mutable", D,
      "        return not self._node.is_mutable()\n", "        return not self.is_mutable()\n", None),
    M("benign-dirnode-allowed-hoisted", D,
      "        return not self._node.is_mutable()\n",
      "        mutable = self._node.is_mutable()\n        if mutable:\n            return False\n        return True\n", None),
    M("benign-dirnode-allowed-delegates", D,
      "        return not self._node.is_mutable()\n", "        return self._node.is_allowed_in_immutable_directory()\n", None),
    M("benign-dirnode-allowed-redundant-readonly", D,    # immutable implies read-only
      "        return not self._node.is_mutable()\n",
      "        return self._node.is_readonly() and not self._node.is_mutable()\n", None),
    M("benign-unknown-allowed-early-return", UN,
      "        return not self.error and not self.rw_uri\n",
      "        if self.error is not None:\n            return False\n        return not self.rw_uri\n", None),
    M("benign-unknown-allowed-de-morgan", UN,
      "        return not self.error and not self.rw_uri\n", "        return not (self.error or self.get_write_uri())\n", None),
    M("benign-mutable-filenode-never-allowed", MF,       # an IMutableFileNode is always mutable
      "        return not self._uri.is_mutable()\n", "        return False\n", None),
    M("benign-prohibited-node-allowed-via-is-mutable", BL,
      "        return self.wrapped_node.is_allowed_in_immutable_directory()\n",
      "        return not self.wrapped_node.is_mutable()\n", None),
    # ---- C19.8 is_mutable() of the node classes
    M("dirnode-mutable-means-writeable", D,
      "    def is_mutable(self):\n        return self._node.is_mutable()\n",
      "    def is_mutable(self):\n        return not self._node.is_readonly()\n", "C19.8"),
    M("dirnode-mutable-and-allowed-both-by-readonly", D,
      "    def is_mutable(self):\n        return self._node.is_mutable()\n",
      "    def is_mutable(self):\n        return not self.is_readonly()\n", "C19.8",
      edits=[(D, "        return not self._node.is_mutable()\n", "        return not self.is_mutable()\n")]),
    M("dirnode-mutable-inverted", D,
      "    def is_mutable(self):\n        return self._node.is_mutable()\n",
      "    def is_mutable(self):\n        return not self._node.is_mutable()\n", "C19.8",
      edits=[(D, "    def is_allowed_in_immutable_directory(self):\n        return not self._node.is_mutable()\n",
              "    def is_allowed_in_immutable_directory(self):\n        return not self.is_mutable()\n")]),
    M("chk-filenode-claims-mutable", IF,
      "    def is_mutable(self):\n        return False\n\n    def is_readonly(self):",
      "    def is_mutable(self):\n        return True\n\n    def is_readonly(self):", "C19.8",
      edits=[(IF, "    def is_allowed_in_immutable_directory(self):\n        return True\n",
              "    def is_allowed_in_immutable_directory(self):\n        return False\n")]),
    M("mutable-filenode-mutable-means-writeable", MF,
      "    def is_mutable(self):\n        return self._uri.is_mutable()\n",
      "    def is_mutable(self):\n        return not self._uri.is_readonly()\n", "C19.8",
      edits=[(MF, "        return not self._uri.is_mutable()\n", "        return not self.is_mutable()\n")]),
    M("benign-dirnode-mutable-hoisted", D,
      "    def is_mutable(self):\n        return self._node.is_mutable()\n",
      "    def is_mutable(self):\n        m = self._node.is_mutable()\n        return bool(m)\n", None),
    M("benign-mutable-filenode-always-mutable", MF,
      "    def is_mutable(self):\n        return self._uri.is_mutable()\n",
      "    def is_mutable(self):\n        return True\n", None,
      edits=[(MF, "        return not self._uri.is_mutable()\n", "        return False\n")]),
    # ---- benign
    M("benign-ivlen-symbolic", D,
      "        salt = encwrcap[:16]\n        crypttext = encwrcap[16:-32]\n",
      "        salt = encwrcap[:hashutil.IVLEN]\n        crypttext = encwrcap[hashutil.IVLEN:-32]\n", None),
    M("benign-fields-as-locals", D, ENTRY,
      "            name_field = netstring(name.encode(\"utf-8\"))\n"
      "            ro_field = netstring(strip_prefix_for_ro(ro_uri, deep_immutable))\n"
      "            md_field = netstring(json.dumps(metadata).encode(\"utf-8\"))\n"
      "            entry = b\"\".join([name_field, ro_field, writecap, md_field])\n", None),
    M("benign-reader-renames-fields", D,
      "            (namex_utf8, ro_uri, rwcapdata, metadata_s), subpos = split_netstring(entry, 4)\n"
      "            if not mutable and len(rwcapdata) > 0:",
      "            (namex_utf8, ro_uri, rwcapdata, metadata_s), _ = split_netstring(entry, 4)\n"
      "            if len(rwcapdata) != 0 and not mutable:", None),
    M("benign-refusal-nested-if", D,
      "        if deep_immutable and not child.is_allowed_in_immutable_directory():\n            raise MustBeDeepImmutableError(",
      "        if deep_immutable:\n          if not child.is_allowed_in_immutable_directory():\n            raise MustBeDeepImmutableError(",
      None),
    M("benign-adder-inline-normalize", D,
      "            children[name] = (child, metadata)\n        new_contents = self.node._pack_contents(children)\n"
      "        return new_contents\n\ndef _encrypt_rw_uri",
      "            children[normalize(namex)] = (child, metadata)\n        new_contents = self.node._pack_contents(children)\n"
      "        return new_contents\n\ndef _encrypt_rw_uri", None),
    M("benign-reader-uses-encrypt-pair", D,
      "        encryptor = aes.create_decryptor(key)\n        plaintext = aes.decrypt_data(encryptor, crypttext)\n",
      "        encryptor = aes.create_encryptor(key)\n        plaintext = aes.encrypt_data(encryptor, crypttext)\n", None),
    # ---- C19.2 scan start (sweep survivor)
    M("reader-starts-at-offset-one", D,
      "        position = 0\n        while position < len(data):", "        position = 1\n        while position < len(data):",
      "C19.2"),
    M("benign-reader-start-symbolic", D,
      "        position = 0\n        while position < len(data):",
      "        start = 0\n        position = start\n        while position < len(data):", None),
    # ---- C19.5 what is uploaded (sweep survivor)
    M("immutable-dir-uploads-convergence-secret", NM,
      "        uploadable = Data(packed, convergence)", "        uploadable = Data(convergence, packed)", "C19.5"),
    M("benign-immutable-dir-upload-keywords", NM,
      "        uploadable = Data(packed, convergence)", "        uploadable = Data(convergence=convergence, data=packed)", None),
    # ---- C19.9 writer: caps reach their slots (sweep survivors)
    M("writer-ro-default-test-inverted", D,
      "            if ro_uri is None:\n                ro_uri = b\"\"\n", "            if ro_uri is not None:\n                ro_uri = b\"\"\n",
      "C19.9"),
    M("writer-rw-default-test-inverted", D,
      "            if rw_uri is None:\n                rw_uri = b\"\"\n", "            if not (rw_uri is None):\n                rw_uri = b\"\"\n",
      "C19.9"),
    M("writer-rw-default-unconditional", D,
      "            if rw_uri is None:\n                rw_uri = b\"\"\n", "            rw_uri = b\"\"\n", "C19.9"),
    M("writer-plain-rw-slot-with-writekey", D,
      "            if writekey is not None:\n                writecap = netstring(_encrypt_rw_uri(writekey, rw_uri))",
      "            if writekey is None:\n                writecap = netstring(_encrypt_rw_uri(writekey, rw_uri))", "C19.9"),
    M("writer-plain-rw-slot-always", D,
      "            if writekey is not None:\n                writecap = netstring(_encrypt_rw_uri(writekey, rw_uri))\n"
      "            else:\n                writecap = ZERO_LEN_NETSTR\n",
      "            if writekey is not None:\n                writecap = netstring(_encrypt_rw_uri(writekey, rw_uri))\n"
      "            writecap = ZERO_LEN_NETSTR\n", "C19.9"),
    M("writer-encrypt-args-swapped", D,
      "netstring(_encrypt_rw_uri(writekey, rw_uri))", "netstring(_encrypt_rw_uri(rw_uri, writekey))", "C19.9"),
    M("writer-encrypts-ro-cap", D,
      "            if writekey is not None:\n                writecap = netstring(_encrypt_rw_uri(writekey, rw_uri))",
      "            if writekey is not None:\n                writecap = netstring(_encrypt_rw_uri(writekey, ro_uri))", "C19.9"),
    M("writer-skips-raise-error", D,
      "        (child, metadata) = children[name]\n        child.raise_error()\n",
      "        (child, metadata) = children[name]\n", "C19.9"),
    M("writer-and-adder-both-skip-raise-error", D,
      "        child.raise_error()\n        if deep_immutable and not child.is_allowed_in_immutable_directory():",
      "        if not has_aux:\n            child.raise_error()\n"
      "        if deep_immutable and not child.is_allowed_in_immutable_directory():", "C19.9",
      edits=[(D, "            # error again in _pack_normalized_children.\n            child.raise_error()\n",
              "            # error again in _pack_normalized_children.\n")]),
    M("benign-writer-raise-error-only-for-fresh-dicts", D,    # AuxValueDict children were checked by the factory / Adder
      "        child.raise_error()\n        if deep_immutable and not child.is_allowed_in_immutable_directory():",
      "        if not has_aux:\n            child.raise_error()\n"
      "        if deep_immutable and not child.is_allowed_in_immutable_directory():", None),
    M("writer-refuses-in-mutable-directories", D,
      "        if deep_immutable and not child.is_allowed_in_immutable_directory():",
      "        if deep_immutable or not child.is_allowed_in_immutable_directory():", "C19.9"),
    M("benign-writer-defaults-by-or", D,
      "            rw_uri = child.get_write_uri()\n            if rw_uri is None:\n                rw_uri = b\"\"\n",
      "            rw_uri = child.get_write_uri() or b\"\"\n", None),
    M("benign-writer-default-if-falsy", D,
      "            if ro_uri is None:\n                ro_uri = b\"\"\n", "            if not ro_uri:\n                ro_uri = b\"\"\n", None),
    M("benign-writer-default-hoisted-test", D,
      "            if ro_uri is None:\n                ro_uri = b\"\"\n",
      "            missing = ro_uri is None\n            if missing:\n                ro_uri = b\"\"\n", None),
    M("benign-writer-writekey-branches-swapped", D,
      "            if writekey is not None:\n                writecap = netstring(_encrypt_rw_uri(writekey, rw_uri))\n"
      "            else:\n                writecap = ZERO_LEN_NETSTR\n",
      "            if writekey is None:\n                writecap = ZERO_LEN_NETSTR\n"
      "            else:\n                writecap = netstring(_encrypt_rw_uri(writekey, rw_uri))\n", None),
    M("benign-writer-encrypt-keywords", D,
      "netstring(_encrypt_rw_uri(writekey, rw_uri))", "netstring(_encrypt_rw_uri(rw_uri=rw_uri, writekey=writekey))", None),
    M("benign-writer-raise-error-first", D,
      "        entry = None\n        (child, metadata) = children[name]\n        child.raise_error()\n",
      "        (child, metadata) = children[name]\n        child.raise_error()\n        entry = None\n", None),
    # ---- C19.10 reader: every entry reaches the result with its caps (sweep survivors)
    M("reader-empty-test-inverted", D,
      "        if data == b\"\":\n            return AuxValueDict()\n", "        if data != b\"\":\n            return AuxValueDict()\n",
      "C19.10"),
    M("reader-returns-none-for-empty", D,
      "        if data == b\"\":\n            return AuxValueDict()\n", "        if data == b\"\":\n            return None\n",
      "C19.10"),
    M("reader-decrypts-only-when-readonly", D,
      "            if writeable:\n                rw_uri = self._decrypt_rwcapdata(rwcapdata)",
      "            if not writeable:\n                rw_uri = self._decrypt_rwcapdata(rwcapdata)", "C19.10"),
    M("reader-decrypts-only-when-immutable", D,
      "            if writeable:\n                rw_uri = self._decrypt_rwcapdata(rwcapdata)",
      "            if not mutable:\n                rw_uri = self._decrypt_rwcapdata(rwcapdata)", "C19.10"),
    M("reader-rw-slot-always-empty", D,
      "            rw_uri = rw_uri.rstrip(b' ') or None\n", "            rw_uri = rw_uri.rstrip(b' ') and None\n", "C19.10"),
    M("reader-ro-slot-always-empty", D,
      "            ro_uri = ro_uri.rstrip(b' ') or None\n", "            ro_uri = ro_uri.rstrip(b' ') and None\n", "C19.10"),
    M("reader-lists-only-allowed-children-of-mutable-dirs", D,
      "                if mutable or child.is_allowed_in_immutable_directory():\n                    metadata = json.loads(metadata_s)",
      "                if mutable and child.is_allowed_in_immutable_directory():\n                    metadata = json.loads(metadata_s)",
      "C19.10"),
    M("reader-skips-children-of-mutable-dirs", D,
      "                if mutable or child.is_allowed_in_immutable_directory():\n                    metadata = json.loads(metadata_s)",
      "                if mutable:\n                    continue\n"
      "                if child.is_allowed_in_immutable_directory():\n                    metadata = json.loads(metadata_s)",
      "C19.10"),
    M("benign-reader-no-early-return", D,
      "        if data == b\"\":\n            return AuxValueDict()\n", "", None),
    M("benign-reader-empty-test-by-len", D,
      "        if data == b\"\":\n            return AuxValueDict()\n", "        if len(data) == 0:\n            return AuxValueDict()\n", None),
    M("benign-reader-empty-test-falsy", D,
      "        if data == b\"\":\n            return AuxValueDict()\n", "        if not data:\n            return {}\n", None),
    M("benign-reader-writeable-inline", D,
      "            if writeable:\n                rw_uri = self._decrypt_rwcapdata(rwcapdata)",
      "            if not self.is_readonly():\n                rw_uri = self._decrypt_rwcapdata(rwcapdata)", None),
    M("benign-reader-readonly-branch-first", D,
      "            rw_uri = b\"\"\n            if writeable:\n                rw_uri = self._decrypt_rwcapdata(rwcapdata)\n",
      "            if self.is_readonly():\n                rw_uri = b\"\"\n            else:\n"
      "                rw_uri = self._decrypt_rwcapdata(rwcapdata)\n", None),
    M("benign-reader-slot-strip-then-none", D,
      "            rw_uri = rw_uri.rstrip(b' ') or None\n",
      "            rw_uri = rw_uri.rstrip(b' ')\n            if not rw_uri:\n                rw_uri = None\n", None),
    M("reader-refuses-rw-fields-of-mutable-directories", D,
      "            if not mutable and len(rwcapdata) > 0:", "            if not mutable or len(rwcapdata) > 0:", "C19.10"),
    M("reader-refuses-empty-rw-fields", D,
      "            if not mutable and len(rwcapdata) > 0:", "            if not mutable and len(rwcapdata) >= 0:", "C19.10"),
    M("factory-returns-nothing", D,
      "        node.raise_error()\n        return node\n", "        node.raise_error()\n", "C19.10"),
    M("benign-factory-renamed-local", D,
      "                                               name=name)\n        node.raise_error()\n        return node\n",
      "                                               name=name)\n        made = node\n        made.raise_error()\n        return made\n",
      None),
    M("benign-reader-refusal-nested", D,
      "            if not mutable and len(rwcapdata) > 0:\n                raise ValueError(",
      "            if not mutable:\n              if rwcapdata:\n                raise ValueError(", None),
    M("benign-reader-returns-hoisted", D,
      "        if data == b\"\":\n            return AuxValueDict()\n",
      "        if data == b\"\":\n            nothing = AuxValueDict()\n            return nothing\n", None,
      edits=[(D, "\n        return children\n\n    def _pack_contents", "\n        result = children\n        return result\n\n    def _pack_contents")]),
    # ---- C19.11 UnknownNode.__init__ over all input combinations (sweep survivors)
    M("unknown-rw-cap-discarded", UN,
      "        given_rw_uri = given_rw_uri or None\n", "        given_rw_uri = given_rw_uri and None\n", "C19.11"),
    M("unknown-ro-cap-discarded", UN,
      "        given_ro_uri = given_ro_uri or None\n", "        given_ro_uri = given_ro_uri and None\n", "C19.11"),
    M("unknown-rw-test-negated", UN,
      "        if given_rw_uri:\n            if deep_immutable:\n", "        if not given_rw_uri:\n            if deep_immutable:\n", "C19.11"),
    M("unknown-write-cap-accepted-in-immutable", UN,
      "        if given_rw_uri:\n            if deep_immutable:\n", "        if given_rw_uri:\n            if not deep_immutable:\n", "C19.11"),
    M("unknown-immutable-rw-slot-test-widened", UN,
      "                if given_rw_uri.startswith(ALLEGED_IMMUTABLE_PREFIX) and not given_ro_uri:",
      "                if given_rw_uri.startswith(ALLEGED_IMMUTABLE_PREFIX) or not given_ro_uri:", "C19.11"),
    M("unknown-single-cap-not-moved-to-ro", UN,
      "                given_ro_uri = given_rw_uri\n                given_rw_uri = None\n",
      "                given_rw_uri = None\n", "C19.11"),
    M("unknown-single-ro-cap-kept-as-rw", UN,
      "                given_ro_uri = given_rw_uri\n                given_rw_uri = None\n",
      "                given_ro_uri = given_rw_uri\n", "C19.11"),
    M("unknown-prefixed-single-cap-refused", UN,
      "                if not (given_rw_uri.startswith(ALLEGED_READONLY_PREFIX)\n"
      "                        or given_rw_uri.startswith(ALLEGED_IMMUTABLE_PREFIX)):",
      "                if not (given_rw_uri.startswith(ALLEGED_READONLY_PREFIX)\n"
      "                        and given_rw_uri.startswith(ALLEGED_IMMUTABLE_PREFIX)):", "C19.11"),
    M("unknown-rw-and-ro-refused", UN,
      "            elif given_ro_uri.startswith(ALLEGED_IMMUTABLE_PREFIX):\n                # Strange corner case",
      "            elif not given_ro_uri.startswith(ALLEGED_IMMUTABLE_PREFIX):\n                # Strange corner case", "C19.11"),
    M("unknown-opaque-without-error", UN,
      "                self.error = MustBeDeepImmutableError(\"cannot accept a child entry that specifies \"",
      "                _unused = MustBeDeepImmutableError(\"cannot accept a child entry that specifies \"", "C19.11"),
    M("unknown-constraint-error-ignored", UN,
      "            if isinstance(read_cap, uri.UnknownURI):\n", "            if not isinstance(read_cap, uri.UnknownURI):\n", "C19.11"),
    M("unknown-constraint-error-not-recorded", UN,
      "                self.error = read_cap.get_error()\n                if self.error:\n",
      "                err = read_cap.get_error()\n                if err:\n", "C19.11"),
    M("unknown-cap-parsed-without-deep-immutable", UN,
      "uri.from_string(given_ro_uri, deep_immutable=deep_immutable, name=name)", "uri.from_string(given_ro_uri, name=name)",
      "C19.11"),
    M("unknown-valid-cap-returns-opaque", UN,
      "                if self.error:\n                    assert self.rw_uri is None and self.ro_uri is None\n",
      "                if not self.error:\n                    assert self.rw_uri is None and self.ro_uri is None\n", "C19.11"),
    M("unknown-rw-uri-set-in-immutable", UN,
      "        if deep_immutable:\n            assert self.rw_uri is None\n", "        if not deep_immutable:\n            assert self.rw_uri is None\n",
      "C19.11"),
    M("unknown-rw-uri-not-stored", UN,
      "            # not immutable, so a writecap is allowed\n            self.rw_uri = given_rw_uri\n",
      "            # not immutable, so a writecap is allowed\n", "C19.11"),
    M("unknown-ro-uri-not-stored-in-mutable", UN,
      "            # strengthen the constraint on ro_uri to ALLEGED_READONLY_PREFIX\n            if given_ro_uri:\n",
      "            # strengthen the constraint on ro_uri to ALLEGED_READONLY_PREFIX\n            if not given_ro_uri:\n", "C19.11"),
    M("unknown-error-attribute-never-initialised", UN,
      "        self.error = None\n        self.rw_uri = self.ro_uri = None\n", "        self.rw_uri = self.ro_uri = None\n", "C19.11"),
    M("benign-unknown-prefix-test-de-morgan", UN,
      "                if not (given_rw_uri.startswith(ALLEGED_READONLY_PREFIX)\n"
      "                        or given_rw_uri.startswith(ALLEGED_IMMUTABLE_PREFIX)):",
      "                if (not given_rw_uri.startswith(ALLEGED_READONLY_PREFIX)\n"
      "                        and not given_rw_uri.startswith(ALLEGED_IMMUTABLE_PREFIX)):", None),
    M("benign-unknown-ro-test-is-not-none", UN,
      "        if given_ro_uri:\n            read_cap = uri.from_string(", "        if given_ro_uri is not None:\n            read_cap = uri.from_string(",
      None),
    M("benign-unknown-error-via-local", UN,
      "                self.error = read_cap.get_error()\n                if self.error:\n"
      "                    assert self.rw_uri is None and self.ro_uri is None\n                    return\n",
      "                err = read_cap.get_error()\n                if err is not None:\n"
      "                    self.error = err\n                    return\n", None),
    M("benign-unknown-deep-error-order", UN,
      "                elif not given_ro_uri:\n                    self.error = MustNotBeUnknownRWError(\"cannot attach unknown rw cap as immutable child\",\n"
      "                                                         name, True)\n",
      "                elif given_ro_uri is None:\n                    self.error = MustNotBeUnknownRWError(\"cannot attach unknown rw cap as immutable child\",\n"
      "                                                         name, deep_immutable)\n", None),
    M("benign-unknown-asserts-dropped", UN,
      "        assert given_rw_uri is None or isinstance(given_rw_uri, bytes)\n"
      "        assert given_ro_uri is None or isinstance(given_ro_uri, bytes)\n", "", None),
    M("vanish-unknown-init", UN,
      "    def __init__(self, given_rw_uri, given_ro_uri, deep_immutable=False,",
      "    def __init__(self, given_rw_uri, given_ro_uri, immutable=False,", "ANALYSIS-ERROR"),
    # ---- C19.3 whatever the locals are called and however the result reaches the return
    M("benign-decrypt-rwcap-inlined", D, '        salt = encwrcap[:16]\n        crypttext = encwrcap[16:-32]\n        key = hashutil.mutable_rwcap_key_hash(salt, self._node.get_writekey())\n        encryptor = aes.create_decryptor(key)\n        plaintext = aes.decrypt_data(encryptor, crypttext)\n        return plaintext\n', '        key = hashutil.mutable_rwcap_key_hash(encwrcap[:16], self._node.get_writekey())\n        return aes.decrypt_data(aes.create_decryptor(key), encwrcap[16:-32])\n', None),
    M("benign-decrypt-rwcap-locals-renamed", D, '        salt = encwrcap[:16]\n        crypttext = encwrcap[16:-32]\n        key = hashutil.mutable_rwcap_key_hash(salt, self._node.get_writekey())\n        encryptor = aes.create_decryptor(key)\n        plaintext = aes.decrypt_data(encryptor, crypttext)\n        return plaintext\n', '        iv = encwrcap[:16]\n        ct = encwrcap[16:-32]\n        k = hashutil.mutable_rwcap_key_hash(iv, self._node.get_writekey())\n        cipher = aes.create_decryptor(k)\n        pt = aes.decrypt_data(cipher, ct)\n        return pt\n', None),
    M("benign-decrypt-rwcap-result-via-second-local", D, '        salt = encwrcap[:16]\n        crypttext = encwrcap[16:-32]\n        key = hashutil.mutable_rwcap_key_hash(salt, self._node.get_writekey())\n        encryptor = aes.create_decryptor(key)\n        plaintext = aes.decrypt_data(encryptor, crypttext)\n        return plaintext\n', '        salt = encwrcap[:16]\n        crypttext = encwrcap[16:-32]\n        key = hashutil.mutable_rwcap_key_hash(salt, self._node.get_writekey())\n        encryptor = aes.create_decryptor(key)\n        plaintext = aes.decrypt_data(encryptor, crypttext)\n        rw_uri = plaintext\n        return rw_uri\n', None),
    # ---- C19.12 uri.from_string accepts every kind its context permits
    M("mdmf-dir-readcap-guarded-by-writeable-flag", U,
      "        elif s.startswith(b'URI:DIR2-MDMF-RO:'):\n            if can_be_mutable:\n",
      "        elif s.startswith(b'URI:DIR2-MDMF-RO:'):\n            if can_be_writeable:\n", "C19.12"),
    M("ro-prefix-clears-both-flags", U,
      "    elif s.startswith(ALLEGED_READONLY_PREFIX):\n        can_be_writeable = False\n",
      "    elif s.startswith(ALLEGED_READONLY_PREFIX):\n        can_be_mutable = can_be_writeable = False\n", "C19.12"),
    M("ssk-readcap-refused-when-deep-flag-only", U,
      "        elif s.startswith(b'URI:SSK-RO:'):\n            if can_be_mutable:\n",
      "        elif s.startswith(b'URI:SSK-RO:'):\n            if can_be_mutable and can_be_writeable:\n", "C19.12"),
    M("literal-directory-branch-dropped", U,
      "        elif s.startswith(b'URI:DIR2-LIT:'):\n            return LiteralDirectoryURI.init_from_string(s)\n", "", "C19.12"),
    M("imm-prefix-left-on-the-string", U,
      "        can_be_mutable = can_be_writeable = False\n        s = s[len(ALLEGED_IMMUTABLE_PREFIX):]\n",
      "        can_be_mutable = can_be_writeable = False\n", "C19.12"),
    M("chk-dir-parsed-by-the-wrong-class", U,
      "            return ImmutableDirectoryURI.init_from_string(s)\n", "            return LiteralDirectoryURI.init_from_string(s)\n",
      "C19.12"),
    M("mutable-kinds-ignore-deep-immutable", U,
      "    can_be_mutable = can_be_writeable = not deep_immutable\n",
      "    can_be_writeable = not deep_immutable\n    can_be_mutable = True\n", "C19.12"),
    M("benign-from-string-flags-in-two-statements", U,
      "    can_be_mutable = can_be_writeable = not deep_immutable\n",
      "    can_be_mutable = not deep_immutable\n    can_be_writeable = can_be_mutable\n", None),
    M("benign-from-string-branch-inverted", U,
      "            if can_be_mutable:\n                return ReadonlyMDMFDirectoryURI.init_from_string(s)\n"
      "            kind = \"URI:DIR2-MDMF-RO readcap to a mutable directory\"\n",
      "            if not can_be_mutable:\n                kind = \"URI:DIR2-MDMF-RO readcap to a mutable directory\"\n"
      "            else:\n                return ReadonlyMDMFDirectoryURI.init_from_string(s)\n", None),
    M("benign-from-string-context-in-a-helper", U,
      "    s = u\n    can_be_mutable = can_be_writeable = not deep_immutable\n"
      "    if s.startswith(ALLEGED_IMMUTABLE_PREFIX):\n        can_be_mutable = can_be_writeable = False\n"
      "        s = s[len(ALLEGED_IMMUTABLE_PREFIX):]\n"
      "    elif s.startswith(ALLEGED_READONLY_PREFIX):\n        can_be_writeable = False\n"
      "        s = s[len(ALLEGED_READONLY_PREFIX):]\n",
      "    (s, can_be_mutable, can_be_writeable) = _alleged_context(u, deep_immutable)\n", None,
      edits=[(U, "def from_string(u, deep_immutable=False, name=u\"<unknown name>\"):\n",
              "def _alleged_context(s, deep_immutable):\n"
              "    if s.startswith(ALLEGED_IMMUTABLE_PREFIX):\n"
              "        return (s[len(ALLEGED_IMMUTABLE_PREFIX):], False, False)\n"
              "    if s.startswith(ALLEGED_READONLY_PREFIX):\n"
              "        return (s[len(ALLEGED_READONLY_PREFIX):], not deep_immutable, False)\n"
              "    return (s, not deep_immutable, not deep_immutable)\n\n"
              "def from_string(u, deep_immutable=False, name=u\"<unknown name>\"):\n")]),
    M("benign-from-string-readonly-kinds-share-a-test", U,
      "        elif s.startswith(b'URI:DIR2-MDMF-RO:'):\n            if can_be_mutable:\n",
      "        elif s.startswith(b'URI:DIR2-MDMF-RO:'):\n            if can_be_mutable is not False:\n", None),
    M("vanish-from-string-context-param", U,
      "def from_string(u, deep_immutable=False, name=u\"<unknown name>\"):\n",
      "def from_string(u, immutable=False, name=u\"<unknown name>\"):\n    deep_immutable = immutable\n", "ANALYSIS-ERROR"),
    # ---- C19.13 the key under which a new directory's initial children are packed
    M("initial-contents-resolved-before-keys", MF,
      "        self._pubkey, self._privkey = keypair\n        self._writekey, self._encprivkey, self._fingerprint = await defer_to_thread(\n",
      "        self._pubkey, self._privkey = keypair\n        initial_contents = self._get_initial_contents(contents)\n"
      "        self._writekey, self._encprivkey, self._fingerprint = await defer_to_thread(\n", "C19.13",
      edits=[(MF, "        self._storage_index = self._uri.storage_index\n        initial_contents = self._get_initial_contents(contents)\n",
              "        self._storage_index = self._uri.storage_index\n"),
             (MF, "        self._privkey = None # filled in if we're mutable\n",
              "        self._privkey = None # filled in if we're mutable\n        self._writekey = None\n"
              "        self._readkey = None\n        self._encprivkey = None\n")]),
    M("initial-contents-called-before-keys-when-callable", MF,
      "        self._pubkey, self._privkey = keypair\n        self._writekey, self._encprivkey, self._fingerprint = await defer_to_thread(\n",
      "        self._pubkey, self._privkey = keypair\n        self._writekey = None\n"
      "        if callable(contents):\n            contents = contents(self)\n"
      "        self._writekey, self._encprivkey, self._fingerprint = await defer_to_thread(\n", "C19.13"),
    M("initial-children-packed-without-key", NM,
      "                                                    n.get_writekey())),\n",
      "                                                    None)),\n", "C19.13"),
    M("initial-children-packed-eagerly", NM,
      "        d = self.create_mutable_file(lambda n:\n"
      "                                     MutableData(pack_children(initial_children,\n"
      "                                                    n.get_writekey())),\n",
      "        packed = pack_children(initial_children, None)\n"
      "        d = self.create_mutable_file(MutableData(packed),\n", "C19.13"),
    M("initial-children-packed-deep-immutable", NM,
      "                                                    n.get_writekey())),\n",
      "                                                    n.get_writekey(), deep_immutable=True)),\n", "C19.13"),
    M("create-mutable-file-drops-contents", NM,
      "        d.addCallback(n.create_with_keys, contents, version=version)\n",
      "        d.addCallback(n.create_with_keys, None, version=version)\n", "C19.13"),
    M("pack-children-drops-writekey", D,
      "    return _pack_normalized_children(children, writekey=writekey, deep_immutable=deep_immutable)\n",
      "    return _pack_normalized_children(children, writekey=None, deep_immutable=deep_immutable)\n", "C19.13"),
    M("directory-written-with-another-key", D,
      "        return _pack_normalized_children(children, self._node.get_writekey())\n",
      "        return _pack_normalized_children(children, self._node.get_readkey())\n", "C19.13"),
    M("callable-result-not-uploaded", MF,
      "        initial_contents = self._get_initial_contents(contents)\n        return await self._upload(initial_contents, None)\n",
      "        self._get_initial_contents(contents)\n        return await self._upload(MutableData(b\"\"), None)\n", "C19.13"),
    M("benign-initial-contents-inlined-into-upload", MF,
      "        initial_contents = self._get_initial_contents(contents)\n        return await self._upload(initial_contents, None)\n",
      "        return await self._upload(self._get_initial_contents(contents), None)\n", None),
    M("benign-initial-children-packed-in-a-nested-def", NM,
      "        d = self.create_mutable_file(lambda n:\n"
      "                                     MutableData(pack_children(initial_children,\n"
      "                                                    n.get_writekey())),\n",
      "        def _initial_contents(new_node):\n"
      "            key = new_node.get_writekey()\n"
      "            return MutableData(pack_children(initial_children, key))\n"
      "        d = self.create_mutable_file(_initial_contents,\n", None),
    M("benign-create-with-keys-called-in-a-lambda", NM,
      "        d.addCallback(n.create_with_keys, contents, version=version)\n",
      "        d.addCallback(lambda kp: n.create_with_keys(kp, contents, version=version))\n", None),
    M("benign-pack-contents-key-in-a-local", D,
      "        return _pack_normalized_children(children, self._node.get_writekey())\n",
      "        wk = self._node.get_writekey()\n        return _pack_normalized_children(children, wk)\n", None),
    M("benign-keys-preset-in-constructor", MF,
      "        self._privkey = None # filled in if we're mutable\n",
      "        self._privkey = None # filled in if we're mutable\n        self._writekey = None\n"
      "        self._readkey = None\n        self._encprivkey = None\n", None),
    M("vanish-get-initial-contents-no-call", MF,
      "        return contents(self)\n", "        return contents\n", "ANALYSIS-ERROR"),
    # ---- `X.startswith((P, Q))` is `X.startswith(P) or X.startswith(Q)` (C19.6 / C19.11 / C19.12)
    M("benign-unknown-rw-prefix-test-tuple", UN, UN_RW_TEST,
      "                if not given_rw_uri.startswith((ALLEGED_READONLY_PREFIX, ALLEGED_IMMUTABLE_PREFIX)):", None),
    M("benign-unknown-ro-prefix-test-tuple", UN, UN_RO_TEST,
      "                if given_ro_uri.startswith((ALLEGED_IMMUTABLE_PREFIX, ALLEGED_READONLY_PREFIX)):", None),
    M("benign-unknown-both-prefix-tests-tuple", UN, UN_RW_TEST,
      "                if not given_rw_uri.startswith((ALLEGED_READONLY_PREFIX, ALLEGED_IMMUTABLE_PREFIX)):", None,
      edits=[(UN, UN_RO_TEST, "                if given_ro_uri.startswith((ALLEGED_READONLY_PREFIX, ALLEGED_IMMUTABLE_PREFIX)):")]),
    M("benign-unknown-prefix-tuple-hoisted", UN, UN_RW_TEST,
      "                alleged = (ALLEGED_READONLY_PREFIX, ALLEGED_IMMUTABLE_PREFIX)\n"
      "                if not given_rw_uri.startswith(alleged):", None),
    M("benign-strip-imm-test-one-tuple", UN,
      "    if ro_uri.startswith(ALLEGED_IMMUTABLE_PREFIX):\n        if not deep_immutable:",
      "    if ro_uri.startswith((ALLEGED_IMMUTABLE_PREFIX,)):\n        if not deep_immutable:", None),
    M("benign-strip-ro-test-tuple-with-excluded-member", UN,      # 'imm.' was excluded by the `if` before
      "    elif ro_uri.startswith(ALLEGED_READONLY_PREFIX):\n        return",
      "    elif ro_uri.startswith((ALLEGED_READONLY_PREFIX, ALLEGED_IMMUTABLE_PREFIX)):\n        return", None),
    M("benign-from-string-prefix-tuple-then-told-apart", U, FS_PREFIX_BLOCK, fs_prefix_tuple(), None),
    M("unknown-prefixed-single-cap-refused-tuple", UN, UN_RW_TEST,       # wrong member: 'imm.' forgotten
      "                if not given_rw_uri.startswith((ALLEGED_READONLY_PREFIX,)):", "C19.11"),
    M("unknown-rw-prefix-tuple-test-inverted", UN, UN_RW_TEST,
      "                if given_rw_uri.startswith((ALLEGED_READONLY_PREFIX, ALLEGED_IMMUTABLE_PREFIX)):", "C19.11"),
    M("double-ro-prefix-tuple", UN, UN_RO_TEST,                          # wrong member: 'ro.' forgotten -> 'ro.ro.'
      "                if given_ro_uri.startswith((ALLEGED_IMMUTABLE_PREFIX,)):", "C19.6"),
    M("strip-imm-test-tuple-widened", UN,                                # an 'ro.' cap loses len('imm.') bytes
      "    if ro_uri.startswith(ALLEGED_IMMUTABLE_PREFIX):\n        if not deep_immutable:",
      "    if ro_uri.startswith((ALLEGED_IMMUTABLE_PREFIX, ALLEGED_READONLY_PREFIX)):\n        if not deep_immutable:", "C19.6"),
    M("unknown-both-slots-imm-test-tuple-wrong-member", UN,
      "            elif given_ro_uri.startswith(ALLEGED_IMMUTABLE_PREFIX):\n                # Strange corner case",
      "            elif given_ro_uri.startswith((ALLEGED_READONLY_PREFIX,)):\n                # Strange corner case", "C19.11"),
    M("from-string-prefix-tuple-told-apart-by-wrong-member", U, FS_PREFIX_BLOCK,
      fs_prefix_tuple(inner="ALLEGED_READONLY_PREFIX"), "C19.12"),
    M("from-string-prefix-tuple-misses-imm", U, FS_PREFIX_BLOCK, fs_prefix_tuple(outer="(ALLEGED_READONLY_PREFIX,)"), "C19.12"),
    M("from-string-prefix-tuple-one-cut-for-both", U, FS_PREFIX_BLOCK,
      "    if s.startswith((ALLEGED_IMMUTABLE_PREFIX, ALLEGED_READONLY_PREFIX)):\n"
      "        can_be_mutable = can_be_writeable = False\n"
      "        s = s[len(ALLEGED_READONLY_PREFIX):]\n", "C19.12"),
    # ---- C19.14 what normalize() answers
    M("normalize-skips-names-without-combining-marks", EU, NORM,
      "def normalize(namex):\n    if not any(unicodedata.combining(c) for c in namex):\n        return namex\n"
      "    return unicodedata.normalize('NFC', namex)\n", "C19.14",
      note="seeded C19-H: NFC also rewrites singletons (U+212B), Hangul jamo, composition exclusions"),
    M("normalize-skips-latin1-names", EU, NORM,
      "def normalize(namex):\n    if max(namex, default='') < '\\u0100':\n        return namex\n"
      "    return unicodedata.normalize('NFC', namex)\n", "C19.14",
      note="same effect, other shortcut: code points below U+0100 are not all NFC-inert in combination (and U+00C5 vs "
           "U+212B shows the test is on the wrong side)"),
    M("normalize-skips-when-nfd-normalised", EU, NORM,
      "def normalize(namex):\n    if unicodedata.is_normalized('NFD', namex):\n        return namex\n"
      "    return unicodedata.normalize('NFC', namex)\n", "C19.14"),
    M("normalize-ifexp-short-names", EU, NORM,
      "def normalize(namex):\n    return namex if len(namex) < 2 else unicodedata.normalize('NFC', namex)\n", "C19.14"),
    M("normalize-to-nfkc", EU, NORM,
      "def normalize(namex):\n    return unicodedata.normalize('NFKC', namex)\n", "C19.14"),
    M("normalize-result-dropped", EU, NORM,
      "def normalize(namex):\n    name = namex\n    if not namex.isascii():\n        unicodedata.normalize('NFC', namex)\n"
      "    return name\n", "C19.14"),
    M("dirnode-own-normalize", D,
      "from allmydata.util.encodingutil import quote_output, normalize\n",
      "from allmydata.util.encodingutil import quote_output\n\ndef normalize(namex):\n"
      "    return namex.strip() if namex.isprintable() else namex\n\n", "C19.14",
      note="sibling site: the directory code binds the name to something else"),
    M("benign-normalize-ascii-fast-path", EU, NORM,
      "def normalize(namex):\n    if namex.isascii():\n        return namex\n"
      "    return unicodedata.normalize('NFC', namex)\n", None,
      note="ASCII strings are NFC-inert: a fast path that is behaviour-preserving"),
    M("benign-normalize-quick-check", EU, NORM,
      "def normalize(namex):\n    form = 'NFC'\n    if unicodedata.is_normalized(form, namex):\n        return namex\n"
      "    name = unicodedata.normalize(form, namex)\n    return name\n", None),
    M("benign-normalize-one-exit", EU, NORM,
      "def normalize(namex):\n    name = namex\n    if not namex.isascii():\n"
      "        name = unicodedata.normalize('NFC', namex)\n    return name\n", None),
    M("benign-normalize-ifexp-ascii", EU, NORM,
      "def normalize(name_x):\n    return name_x if name_x.isascii() else unicodedata.normalize('NFC', name_x)\n", None),
    M("benign-normalize-ascii-by-encode", EU, NORM,
      "def normalize(namex):\n    try:\n        namex.encode('ascii')\n    except UnicodeEncodeError:\n"
      "        return unicodedata.normalize('NFC', namex)\n    return namex\n", None),
    M("benign-dirnode-normalize-wrapper", D,
      "from allmydata.util.encodingutil import quote_output, normalize\n",
      "from allmydata.util import encodingutil\nfrom allmydata.util.encodingutil import quote_output\n\n"
      "def normalize(namex):\n    return encodingutil.normalize(namex)\n\n", None),
    M("vanish-normalize", EU, NORM,
      "def normalize_name(namex):\n    return unicodedata.normalize('NFC', namex)\n", "ANALYSIS-ERROR"),
    # ---- vanished anchor
    M("vanish-unpack", D,
      "    def _unpack_contents(self, data):", "    def _unpack_contentsX(self, data):", "ANALYSIS-ERROR"),
    M("vanish-dirnode-allowed", D,
      "    def is_allowed_in_immutable_directory(self):\n        return not self._node.is_mutable()\n",
      "    def is_allowed_in_immutable_directoryX(self):\n        return not self._node.is_mutable()\n", "ANALYSIS-ERROR"),
]


# ---- C19.15 / C19.16: the node factory and wrap_dirnode_cap over every cap class
NM_IMPORT = "from allmydata import uri\n\n\n@implementer(INodeMaker)\n"
NM_CHAIN = ("    def _create_from_single_cap(self, cap):\n"
            "        if isinstance(cap, uri.LiteralFileURI):\n"
            "            return self._create_lit(cap)\n"
            "        if isinstance(cap, uri.CHKFileURI):\n"
            "            return self._create_immutable(cap)\n"
            "        if isinstance(cap, uri.CHKFileVerifierURI):\n"
            "            return self._create_immutable_verifier(cap)\n"
            "        if isinstance(cap, (uri.ReadonlySSKFileURI, uri.WriteableSSKFileURI,\n"
            "                            uri.WriteableMDMFFileURI, uri.ReadonlyMDMFFileURI)):\n"
            "            return self._create_mutable(cap)\n"
            "        if isinstance(cap, (uri.DirectoryURI,\n"
            "                            uri.ReadonlyDirectoryURI,\n"
            "                            uri.ImmutableDirectoryURI,\n"
            "                            uri.LiteralDirectoryURI,\n"
            "                            uri.MDMFDirectoryURI,\n"
            "                            uri.ReadonlyMDMFDirectoryURI)):\n"
            "            filenode = self._create_from_single_cap(cap.get_filenode_cap())\n"
            "            return self._create_dirnode(filenode)\n"
            "        return None\n")
NM_DIRNODE = ("    def _create_dirnode(self, filenode):\n"
              "        return DirectoryNode(filenode, self, self.uploader)\n")
NM_DIRNODE_FROM_CAP = (NM_DIRNODE +
                       "    def _create_dirnode_from_cap(self, cap):\n"
                       "        filenode = self._create_from_single_cap(cap.get_filenode_cap())\n"
                       "        return self._create_dirnode(filenode)\n")
NM_LOOP = ("    def _create_from_single_cap(self, cap):\n"
           "        for (factory_name, cap_classes) in _NODE_FACTORIES:\n"
           "            if isinstance(cap, cap_classes):\n"
           "                return getattr(self, factory_name)(cap)\n"
           "        return None\n")


def nm_table(last_dir_class):
    return ("from allmydata import uri\n\n\n"
            "_NODE_FACTORIES = [\n"
            "    (\"_create_lit\", (uri.LiteralFileURI,)),\n"
            "    (\"_create_immutable\", (uri.CHKFileURI,)),\n"
            "    (\"_create_immutable_verifier\", (uri.CHKFileVerifierURI,)),\n"
            "    (\"_create_mutable\", (uri.WriteableSSKFileURI,\n"
            "                         uri.ReadonlySSKFileURI,\n"
            "                         uri.WriteableMDMFFileURI,\n"
            "                         uri.ReadonlyMDMFFileURI)),\n"
            "    (\"_create_dirnode_from_cap\", (uri.DirectoryURI,\n"
            "                                  uri.ReadonlyDirectoryURI,\n"
            "                                  uri.ImmutableDirectoryURI,\n"
            "                                  uri.LiteralDirectoryURI,\n"
            "                                  uri.MDMFDirectoryURI,\n"
            "                                  uri.%s)),\n"
            "]\n\n\n@implementer(INodeMaker)\n") % last_dir_class


NM_DICT = ("from allmydata import uri\n\n\n"
           "_FILE_NODE_FACTORIES = {\n"
           "    uri.LiteralFileURI: \"_create_lit\",\n"
           "    uri.CHKFileURI: \"_create_immutable\",\n"
           "    uri.CHKFileVerifierURI: \"_create_immutable_verifier\",\n"
           "    uri.WriteableSSKFileURI: \"_create_mutable\",\n"
           "    uri.ReadonlySSKFileURI: \"_create_mutable\",\n"
           "    uri.WriteableMDMFFileURI: \"_create_mutable\",\n"
           "    uri.ReadonlyMDMFFileURI: \"_create_mutable\",\n"
           "}\n"
           "_DIRECTORY_CAPS = (uri.DirectoryURI, uri.ReadonlyDirectoryURI, uri.ImmutableDirectoryURI,\n"
           "                   uri.LiteralDirectoryURI, uri.MDMFDirectoryURI, uri.%s)\n"
           "\n\n@implementer(INodeMaker)\n")
NM_DICT_DISPATCH = ("    def _create_from_single_cap(self, cap):\n"
                    "        factory_name = _FILE_NODE_FACTORIES.get(type(cap))\n"
                    "        if factory_name is not None:\n"
                    "            return getattr(self, factory_name)(cap)\n"
                    "        if not isinstance(cap, _DIRECTORY_CAPS):\n"
                    "            return None\n"
                    "        inner = cap.get_filenode_cap()\n"
                    "        return self._create_dirnode(self._create_from_single_cap(inner))\n")
WRAP = ("def wrap_dirnode_cap(filecap):\n"
        "    if isinstance(filecap, WriteableSSKFileURI):\n"
        "        return DirectoryURI(filecap)\n"
        "    if isinstance(filecap, ReadonlySSKFileURI):\n"
        "        return ReadonlyDirectoryURI(filecap)\n"
        "    if isinstance(filecap, CHKFileURI):\n"
        "        return ImmutableDirectoryURI(filecap)\n"
        "    if isinstance(filecap, LiteralFileURI):\n"
        "        return LiteralDirectoryURI(filecap)\n"
        "    if isinstance(filecap, WriteableMDMFFileURI):\n"
        "        return MDMFDirectoryURI(filecap)\n"
        "    if isinstance(filecap, ReadonlyMDMFFileURI):\n"
        "        return ReadonlyMDMFDirectoryURI(filecap)\n"
        "    raise AssertionError(\"cannot interpret as a directory cap: %s\" % filecap.__class__)\n")


def wrap_table(ro_mdmf="ReadonlyMDMFDirectoryURI"):
    return ("_DIRECTORY_CAP_FOR = [\n"
            "    (WriteableSSKFileURI, DirectoryURI),\n"
            "    (ReadonlySSKFileURI, ReadonlyDirectoryURI),\n"
            "    (CHKFileURI, ImmutableDirectoryURI),\n"
            "    (LiteralFileURI, LiteralDirectoryURI),\n"
            "    (WriteableMDMFFileURI, MDMFDirectoryURI),\n"
            "    (ReadonlyMDMFFileURI, %s),\n"
            "]\n\n\n"
            "def wrap_dirnode_cap(filecap):\n"
            "    for (filecap_class, dircap_class) in _DIRECTORY_CAP_FOR:\n"
            "        if isinstance(filecap, filecap_class):\n"
            "            return dircap_class(filecap)\n"
            "    raise AssertionError(\"cannot interpret as a directory cap: %%s\" %% filecap.__class__)\n") % ro_mdmf


MUTANTS += [
    # -- C19.15
    M("factory-table-ro-mdmf-dir-row-names-the-file-class", NM, NM_IMPORT, nm_table("ReadonlyMDMFFileURI"), "C19.15",
      edits=[(NM, NM_DIRNODE, NM_DIRNODE_FROM_CAP), (NM, NM_CHAIN, NM_LOOP)],
      note="seeded C19-I: isinstance chain -> (factory name, cap classes) table; the directory row lists "
           "ReadonlyMDMFFileURI, so URI:DIR2-MDMF-RO: falls through to None"),
    M("benign-factory-table", NM, NM_IMPORT, nm_table("ReadonlyMDMFDirectoryURI"), None,
      edits=[(NM, NM_DIRNODE, NM_DIRNODE_FROM_CAP), (NM, NM_CHAIN, NM_LOOP)],
      note="the same refactor done faithfully"),
    M("factory-dict-dir-caps-miss-ro-mdmf", NM, NM_IMPORT, NM_DICT % "ReadonlyMDMFFileURI", "C19.15",
      edits=[(NM, NM_CHAIN, NM_DICT_DISPATCH)]),
    M("benign-factory-dict-by-type", NM, NM_IMPORT, NM_DICT % "ReadonlyMDMFDirectoryURI", None,
      edits=[(NM, NM_CHAIN, NM_DICT_DISPATCH)],
      note="file caps dispatched through a dict keyed by type(cap), directory caps by one isinstance"),
    M("factory-chain-drops-literal-directory", NM,
      "                            uri.LiteralDirectoryURI,\n                            uri.MDMFDirectoryURI,\n",
      "                            uri.MDMFDirectoryURI,\n", "C19.15"),
    M("factory-ssk-readcap-made-immutable-node", NM,
      "        if isinstance(cap, uri.CHKFileURI):\n            return self._create_immutable(cap)\n"
      "        if isinstance(cap, uri.CHKFileVerifierURI):",
      "        if isinstance(cap, (uri.CHKFileURI, uri.ReadonlySSKFileURI)):\n            return self._create_immutable(cap)\n"
      "        if isinstance(cap, uri.CHKFileVerifierURI):", "C19.15",
      note="an SSK readcap child comes back as an immutable file node: is_mutable() False, allowed in immutable dirs"),
    M("factory-chk-made-mutable-node", NM,
      "        if isinstance(cap, (uri.ReadonlySSKFileURI, uri.WriteableSSKFileURI,\n",
      "        if isinstance(cap, (uri.ReadonlySSKFileURI, uri.WriteableSSKFileURI, uri.LiteralFileURI,\n", "C19.15",
      edits=[(NM, "        if isinstance(cap, uri.LiteralFileURI):\n            return self._create_lit(cap)\n", "")]),
    M("factory-dirnode-around-the-directory-cap", NM,
      "            filenode = self._create_from_single_cap(cap.get_filenode_cap())\n"
      "            return self._create_dirnode(filenode)\n",
      "            return self._create_dirnode(self._create_mutable(cap.get_filenode_cap()))\n", "C19.15",
      note="every directory gets a mutable file node, also DIR2-CHK / DIR2-LIT"),
    M("benign-factory-chain-hoisted-and-reordered", NM, NM_CHAIN,
      "    def _create_from_single_cap(self, cap):\n"
      "        dir_caps = (uri.DirectoryURI, uri.ReadonlyDirectoryURI, uri.ImmutableDirectoryURI,\n"
      "                    uri.LiteralDirectoryURI, uri.MDMFDirectoryURI, uri.ReadonlyMDMFDirectoryURI)\n"
      "        if isinstance(cap, dir_caps):\n"
      "            inner_cap = cap.get_filenode_cap()\n"
      "            return DirectoryNode(self._create_from_single_cap(inner_cap), self, self.uploader)\n"
      "        node = None\n"
      "        if isinstance(cap, uri.CHKFileURI):\n"
      "            node = self._create_immutable(cap)\n"
      "        elif isinstance(cap, uri.LiteralFileURI):\n"
      "            node = self._create_lit(cap)\n"
      "        elif isinstance(cap, uri.CHKFileVerifierURI):\n"
      "            node = self._create_immutable_verifier(cap)\n"
      "        elif cap.__class__ in (uri.ReadonlySSKFileURI, uri.WriteableSSKFileURI,\n"
      "                               uri.WriteableMDMFFileURI, uri.ReadonlyMDMFFileURI):\n"
      "            node = self._create_mutable(cap)\n"
      "        return node\n", None),
    M("vanish-factory-call", NM,
      "            node = self._create_from_single_cap(cap)\n", "            node = self._create_from_single_cap(bigcap)\n",
      "ANALYSIS-ERROR", note="create_from_cap no longer hands the parsed cap to a factory method"),
    # -- C19.16
    M("wrap-ro-mdmf-file-cap-as-writeable-dir", U,
      "        return ReadonlyMDMFDirectoryURI(filecap)\n    raise AssertionError(",
      "        return MDMFDirectoryURI(filecap)\n    raise AssertionError(", "C19.16"),
    M("wrap-table-ro-mdmf-row-slip", U, WRAP, wrap_table("MDMFDirectoryURI"), "C19.16",
      note="sibling of C19-I: chain -> table, one row names the wrong directory class"),
    M("wrap-drops-literal-directory", U,
      "    if isinstance(filecap, LiteralFileURI):\n        return LiteralDirectoryURI(filecap)\n", "", "C19.16"),
    M("benign-wrap-table", U, WRAP, wrap_table(), None),
    M("vanish-wrap", U, "def wrap_dirnode_cap(filecap):", "def wrap_dirnode_capX(filecap):", "ANALYSIS-ERROR",
      edits=[(D, "from allmydata.uri import wrap_dirnode_cap\n", "from allmydata.uri import wrap_dirnode_capX as wrap_dirnode_cap\n")]),
]

# behaviour-preserving refactors from the C20 self-test that used to trip C19.4 (cross-property robustness run): the
# child name is normalised by the caller of the modifier's constructor; a new modifier class built the same way
try:
    from . import C20 as _c20
    _want = ("benign-deleter-normalised-by-caller", "benign-deleter-normalised-local-in-caller",
             "benign-rename-op-correct-modifier")
    _have = {m.id for m in MUTANTS}
    for _m in _c20.MUTANTS:
        if _m.id in _want and _m.expect is None and ("c20-" + _m.id) not in _have:
            MUTANTS.append(M("c20-" + _m.id, _m.path, _m.old, _m.new, None, within=_m.within, edits=list(_m.edits),
                             note="benign variant of C20"))
    # the same new rename operation, its new name not normalised by the operation: Renamer stores a raw name
    _rc, _ro = _c20._renamer_class(), _c20._rename_op()
    _bad = _ro.replace("new_child_name = normalize(new_child_namex)", "new_child_name = new_child_namex")
    if _bad != _ro:
        MUTANTS.append(M("rename-op-new-name-not-normalised", _c20.F, _c20.ENC_ANCHOR, _rc + _c20.ENC_ANCHOR, "C19.4",
                         edits=[(_c20.F, _c20.MOVE_ANCHOR, _bad + _c20.MOVE_ANCHOR)]))
except Exception:                                   # the other property's self-test is not there / changed shape
    pass


# the table-driven shape of uri.from_string from the C15 / C16 self-tests (for/else with break, next(generator, None)):
# C19.12 / C19.15 interpret it; the benign ones stay silent, a lost / pasted / shadowing row is a C19.12 breakage
def _borrow(modname, benign, breaking):
    try:
        import importlib
        other = importlib.import_module("." + modname, __package__)
        have = {m.id for m in MUTANTS}
        for m in other.MUTANTS:
            mid = "%s-%s" % (modname.lower(), m.id)
            if mid in have:
                continue
            if m.id in benign and m.expect is None:
                MUTANTS.append(M(mid, m.path, m.old, m.new, None, within=m.within, edits=list(m.edits),
                                 note="benign variant of " + modname))
            elif m.id in breaking and m.expect is not None and m.expect != "ANALYSIS-ERROR":
                MUTANTS.append(M(mid, m.path, m.old, m.new, "C19.12", within=m.within, edits=list(m.edits),
                                 note="breaking variant of " + modname))
    except Exception:                               # the other property's self-test is not there / changed shape
        pass


_borrow("C15", ("benign-from-string-table-driven", "benign-from-string-table-driven-next"),
        ("table-row-dropped", "table-row-class-pasted", "table-row-prefix-shadows"))
_borrow("C16", ("benign-from-string-table-driven", "benign-from-string-table-driven-next"),
        ("table-ro-row-overrides-deep-immutable",))
