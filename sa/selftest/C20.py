from .runner import M

F = "src/allmydata/dirnode.py"

ADDER_BODY_OLD = """            metadata = None
            if name in children:
                if not self.overwrite:
                    raise ExistingChildError("child %s already exists" % quote_output(name, encoding='utf-8'))

                if self.overwrite == ONLY_FILES and IDirectoryNode.providedBy(children[name][0]):
                    raise ExistingChildError("child %s already exists as a directory" % quote_output(name, encoding='utf-8'))
                metadata = children[name][1].copy()

            metadata = update_metadata(metadata, new_metadata, now)
"""

# same behaviour: membership tested the other way round, locals renamed, entry unpacked once, nested ifs
ADDER_BODY_BENIGN = """            if name not in children:
                old_md = None
            else:
                existing, existing_md = children[name]
                if self.overwrite is False:
                    raise ExistingChildError("child %s already exists" % quote_output(name, encoding='utf-8'))
                if self.overwrite == ONLY_FILES:
                    if IDirectoryNode.providedBy(existing):
                        raise ExistingChildError("child %s already exists as a directory" % quote_output(name, encoding='utf-8'))
                old_md = existing_md.copy()

            metadata = update_metadata(old_md, new_metadata, now)
"""

SHORTCUT = """        if new_parent.get_write_uri() == from_uri and new_child_name == current_child_name:
            # needed for correctness, otherwise we would delete the child
            return defer.succeed("redundant rename/relink")
"""

MUTANTS = [
    # ---- C20.1 Adder.modify
    M("adder-no-overwrite-check-dropped", F,
      "                if not self.overwrite:\n                    raise ExistingChildError(\"child %s already exists\" % quote_output(name, encoding='utf-8'))\n",
      "", "C20.1"),
    M("adder-no-overwrite-only-first-time", F,
      "                if not self.overwrite:\n", "                if self.overwrite is False and first_time:\n", "C20.1"),
    M("adder-onlyfiles-dropped", F,
      "                if self.overwrite == ONLY_FILES and IDirectoryNode.providedBy(children[name][0]):\n                    raise ExistingChildError(\"child %s already exists as a directory\" % quote_output(name, encoding='utf-8'))\n",
      "", "C20.1"),
    M("adder-onlyfiles-wrong-interface", F,
      "                if self.overwrite == ONLY_FILES and IDirectoryNode.providedBy(children[name][0]):",
      "                if self.overwrite == ONLY_FILES and IFileNode.providedBy(children[name][0]):", "C20.1"),
    M("adder-onlyfiles-checks-new-child", F,
      "                if self.overwrite == ONLY_FILES and IDirectoryNode.providedBy(children[name][0]):",
      "                if self.overwrite == ONLY_FILES and IDirectoryNode.providedBy(child):", "C20.1"),
    M("adder-old-metadata-dropped", F,
      "                metadata = children[name][1].copy()\n\n            metadata = update_metadata(metadata, new_metadata, now)",
      "\n            metadata = update_metadata(metadata, new_metadata, now)", "C20.1"),
    M("adder-stores-caller-metadata", F,
      "            children[name] = (child, metadata)\n        new_contents = self.node._pack_contents(children)\n        return new_contents\n\ndef _encrypt_rw_uri",
      "            children[name] = (child, new_metadata or {})\n        new_contents = self.node._pack_contents(children)\n        return new_contents\n\ndef _encrypt_rw_uri",
      "C20.1"),
    M("adder-overwrite-coerced-to-bool", F,
      "        self.overwrite = overwrite\n", "        self.overwrite = bool(overwrite)\n", "C20.1"),
    # ---- C20.2 update_metadata
    M("linkcrtime-reset-from-ctime", F,
      "    if 'linkcrtime' not in sysmd:", "    if old_ctime is not None or 'linkcrtime' not in sysmd:", "C20.2"),
    M("linkcrtime-guard-dropped", F,
      "    if 'linkcrtime' not in sysmd:", "    if new_metadata is not None:", "C20.2"),
    M("linkmotime-only-with-new-metadata", F,
      "    sysmd['linkmotime'] = now\n", "    if new_metadata is not None:\n        sysmd['linkmotime'] = now\n", "C20.2"),
    M("linkmotime-setdefault", F,
      "    sysmd['linkmotime'] = now\n", "    sysmd.setdefault('linkmotime', now)\n", "C20.2"),
    M("tahoe-not-carried-over", F,
      "        if 'tahoe' in metadata:\n            newmd['tahoe'] = metadata['tahoe']\n", "", "C20.2"),
    M("tahoe-caller-supplied-kept", F,
      "        if 'tahoe' in newmd:\n            del newmd['tahoe']\n", "", "C20.2"),
    M("sysmd-not-attached", F,
      "    metadata['tahoe'] = sysmd\n", "", "C20.2"),
    # ---- C20.3 move_child_to
    M("move-delete-addboth", F,
      "        d.addCallback(lambda child: self.delete(current_child_name))",
      "        d.addBoth(lambda child: self.delete(current_child_name))", "C20.3"),
    M("move-delete-first", F,
      "        d.addCallback(_got_child)\n        d.addCallback(lambda child: self.delete(current_child_name))\n",
      "        d.addCallback(lambda cm: self.delete(current_child_name).addCallback(lambda ign: cm))\n        d.addCallback(_got_child)\n",
      "C20.3"),
    M("move-set-node-not-returned", F,
      "            return new_parent.set_node(new_child_name, child, metadata,\n                                       overwrite=overwrite)",
      "            new_parent.set_node(new_child_name, child, metadata,\n                                overwrite=overwrite)", "C20.3"),
    M("move-errback-swallows", F,
      "        d.addCallback(_got_child)\n        d.addCallback(lambda child: self.delete(current_child_name))\n",
      "        d.addCallback(_got_child)\n        d.addErrback(lambda f: f.trap(ExistingChildError))\n        d.addCallback(lambda child: self.delete(current_child_name))\n",
      "C20.3"),
    M("move-shortcut-removed", F, SHORTCUT, "", "C20.3"),
    M("move-shortcut-or", F,
      "from_uri and new_child_name == current_child_name:", "from_uri or new_child_name == current_child_name:", "C20.3"),
    M("move-shortcut-names-only", F,
      "        if new_parent.get_write_uri() == from_uri and new_child_name == current_child_name:",
      "        if new_child_name == current_child_name:", "C20.3"),
    M("move-delete-new-name", F,
      "        d.addCallback(lambda child: self.delete(current_child_name))",
      "        d.addCallback(lambda child: self.delete(new_child_name))", "C20.3"),
    M("move-overwrite-not-forwarded", F,
      "            return new_parent.set_node(new_child_name, child, metadata,\n                                       overwrite=overwrite)",
      "            return new_parent.set_node(new_child_name, child, metadata)", ["C20.3", "C20.6"]),
    # ---- C20.4 Deleter
    M("deleter-type-gate-copy-paste", F,
      "        if self.must_be_file and IDirectoryNode.providedBy(self.old_child):",
      "        if self.must_be_file and IFileNode.providedBy(self.old_child):", "C20.4"),
    M("deleter-dir-gate-dropped", F,
      "        if self.must_be_directory and IFileNode.providedBy(self.old_child):\n            raise ChildOfWrongTypeError(\"delete required a directory, not a file\")\n",
      "", "C20.4"),
    M("deleter-wrong-key", F,
      "        del children[self.name]\n", "        children.pop(self.name.lower(), None)\n", "C20.4"),
    M("deleter-clears-map", F,
      "        del children[self.name]\n", "        del children[self.name]\n        children.pop(normalize(self.name.strip()), None)\n", "C20.4"),
    M("deleter-returns-old-contents", F,
      "        del children[self.name]\n        new_contents = self.node._pack_contents(children)\n        return new_contents\n",
      "        del children[self.name]\n        new_contents = self.node._pack_contents(children)\n        return old_contents\n",
      "C20.4"),
    # ---- C20.5 MetadataSetter
    M("mdsetter-existence-check-dropped", F,
      "        name = self.name\n        if name not in children:\n            raise NoSuchChildError(name)\n",
      "        name = self.name\n", "C20.5"),
    M("mdsetter-fresh-metadata", F,
      "        metadata = update_metadata(children[name][1].copy(), self.metadata, now)",
      "        metadata = update_metadata(None, self.metadata, now)", "C20.5"),
    M("mdsetter-skips-update-metadata", F,
      "        metadata = update_metadata(children[name][1].copy(), self.metadata, now)",
      "        metadata = dict(children[name][1], **(self.metadata or {}))", "C20.5"),
    # ---- C20.6 overwrite forwarding
    M("set-nodes-overwrite-dropped", F,
      "\n        a = Adder(self, entries, overwrite=overwrite,", "\n        a = Adder(self, entries,", "C20.6"),
    M("set-uri-overwrite-dropped", F,
      "        d = self.set_node(namex, child_node, metadata, overwrite)",
      "        d = self.set_node(namex, child_node, metadata)", "C20.6"),
    M("add-file-overwrite-dropped", F,
      "                              self.set_node(name, node, metadata, overwrite))",
      "                              self.set_node(name, node, metadata))", "C20.6"),
    M("mkdir-overwrite-constant", F,
      "            a = Adder(self, entries, overwrite=overwrite,", "            a = Adder(self, entries, overwrite=True,", "C20.6"),
    # ---- benign
    M("benign-adder-restructured", F, ADDER_BODY_OLD, ADDER_BODY_BENIGN, None),
    M("benign-adder-is-false", F, "                if not self.overwrite:\n", "                if self.overwrite is False:\n", None),
    M("benign-adder-hoist-existing", F,
      "                if self.overwrite == ONLY_FILES and IDirectoryNode.providedBy(children[name][0]):",
      "                existing = children[name][0]\n                if IDirectoryNode.providedBy(existing) and self.overwrite is ONLY_FILES:",
      None),
    M("benign-linkcrtime-not-in-form", F,
      "    if 'linkcrtime' not in sysmd:", "    if not ('linkcrtime' in sysmd):", None),
    M("benign-tahoe-pop", F,
      "        if 'tahoe' in newmd:\n            del newmd['tahoe']\n", "        newmd.pop('tahoe', None)\n", None),
    M("benign-newmd-dict-copy", F,
      "        newmd = new_metadata.copy()\n", "        replacement = dict(new_metadata)\n        newmd = replacement\n", None),
    M("benign-move-named-callback", F,
      "        d.addCallback(lambda child: self.delete(current_child_name))",
      "        def _unlink_old(ignored):\n            return self.delete(current_child_name)\n        d.addCallback(_unlink_old)", None),
    M("benign-move-shortcut-reordered", F,
      "        if new_parent.get_write_uri() == from_uri and new_child_name == current_child_name:",
      "        same_name = (current_child_name == new_child_name)\n        if same_name and from_uri == new_parent.get_write_uri():",
      None),
    M("benign-deleter-pop", F, "        del children[self.name]\n", "        children.pop(self.name)\n", None),
    M("benign-deleter-local-old", F,
      "        if self.must_be_file and IDirectoryNode.providedBy(self.old_child):",
      "        if self.must_be_file and IDirectoryNode.providedBy(children[self.name][0]):", None),
    M("benign-set-uri-keyword", F,
      "        d = self.set_node(namex, child_node, metadata, overwrite)",
      "        d = self.set_node(namex, child_node, metadata=metadata, overwrite=overwrite)", None),
    M("benign-mdsetter-hoist", F,
      "        metadata = update_metadata(children[name][1].copy(), self.metadata, now)",
      "        old_child, old_metadata = children[name]\n        metadata = update_metadata(old_metadata.copy(), self.metadata, now)",
      None),
    # ---- vanished anchor
    M("vanish-move-child-to", F, "    def move_child_to(self, current_child_namex, new_parent,",
      "    def relink_child(self, current_child_namex, new_parent,", "ANALYSIS-ERROR"),
    M("vanish-update-metadata", F, "def update_metadata(metadata, new_metadata, now):",
      "def refresh_metadata(metadata, new_metadata, now):", "ANALYSIS-ERROR"),
]
