from .runner import M

F = "src/allmydata/dirnode.py"

ADDER_BODY_OLD = """            metadata = None
            if name in children:
                if not self.overwrite:
                    raise ExistingChildError("child %s already exists" % quote_output(name, encoding='utf-8'))

                if self.overwrite == ONLY_FILES and IDirectoryNode.providedBy(children[name][0]):
                    raise ExistingChildError("child %s already exists as a directory" % quote_output(name, encoding='utf-8'))
                metadata = children[name][1].copy()

            metadata = update_metadata(metadata, new_metadata, now)
"""

# same behaviour: membership tested the other way round, locals renamed, entry unpacked once, nested ifs
ADDER_BODY_BENIGN = """            if name not in children:
                old_md = None
            else:
                existing, existing_md = children[name]
                if self.overwrite is False:
                    raise ExistingChildError("child %s already exists" % quote_output(name, encoding='utf-8'))
                if self.overwrite == ONLY_FILES:
                    if IDirectoryNode.providedBy(existing):
                        raise ExistingChildError("child %s already exists as a directory" % quote_output(name, encoding='utf-8'))
                old_md = existing_md.copy()

            metadata = update_metadata(old_md, new_metadata, now)
"""

SHORTCUT = """        if new_parent.get_write_uri() == from_uri and new_child_name == current_child_name:
            # needed for correctness, otherwise we would delete the child
            return defer.succeed("redundant rename/relink")
"""

# ---- C20.10: a further modifier class / function that the operations write through
ENC_ANCHOR = "def _encrypt_rw_uri(writekey, rw_uri):\n"
MOVE_ANCHOR = "    def move_child_to(self, current_child_namex, new_parent,\n"


def _renamer_class(init_overwrite=True, no_overwrite_check=True, only_files_check="existing", stored_md="metadata"):
    out = "class Renamer:\n"
    if init_overwrite:
        out += ("    def __init__(self, node, old_name, new_name, overwrite=True, create_readonly_node=None):\n"
                "        precondition(overwrite in (True, False, ONLY_FILES), overwrite)\n"
                "        self.overwrite = overwrite\n")
    else:
        out += "    def __init__(self, node, old_name, new_name, create_readonly_node=None):\n"
    out += ("        self.node = node\n"
            "        self.old_name = old_name\n"
            "        self.new_name = new_name\n"
            "        self.create_readonly_node = create_readonly_node\n"
            "        self.old_child = None\n"
            "\n"
            "    def modify(self, old_contents, servermap, first_time):\n"
            "        children = self.node._unpack_contents(old_contents)\n"
            "        if self.old_name not in children:\n"
            "            raise NoSuchChildError(self.old_name)\n"
            "        (child, moved_metadata) = children[self.old_name]\n"
            "        self.old_child = child\n"
            "        now = time.time()\n"
            "        metadata = None\n"
            "        if self.new_name in children:\n")
    if init_overwrite and no_overwrite_check:
        out += ("            if not self.overwrite:\n"
                "                raise ExistingChildError(\"child %s already exists\" % quote_output(self.new_name, encoding='utf-8'))\n")
    if init_overwrite and only_files_check:
        out += ("            if self.overwrite == ONLY_FILES and IDirectoryNode.providedBy(%s):\n"
                "                raise ExistingChildError(\"child %%s already exists as a directory\" %% quote_output(self.new_name, encoding='utf-8'))\n"
                % ("children[self.new_name][0]" if only_files_check == "existing" else "child"))
    out += ("            metadata = children[self.new_name][1].copy()\n"
            "        metadata = update_metadata(metadata, moved_metadata, now)\n"
            "        if self.create_readonly_node and metadata.get('no-write', False):\n"
            "            child = self.create_readonly_node(child, self.new_name)\n"
            "        children[self.new_name] = (child, %s)\n"
            "        del children[self.old_name]\n" % stored_md +
            "        new_contents = self.node._pack_contents(children)\n"
            "        return new_contents\n"
            "\n\n")
    return out


# the seeded fast path of move_child_to: a rename inside one directory done by one read-modify-write
RENAME_FASTPATH = SHORTCUT + """
        if new_parent.get_write_uri() == from_uri:
            renamer = Renamer(self, current_child_name, new_child_name,
                              overwrite=overwrite,
                              create_readonly_node=self._create_readonly_node)
            d = self._node.modify(renamer.modify)
            d.addCallback(lambda res: renamer.old_child)
            return d
"""


def _rename_op(ctor_overwrite=True):
    return ("    def rename_child(self, current_child_namex, new_child_namex, overwrite=True):\n"
            "        if self.is_readonly():\n"
            "            return defer.fail(NotWriteableError())\n"
            "        current_child_name = normalize(current_child_namex)\n"
            "        new_child_name = normalize(new_child_namex)\n"
            "        if new_child_name == current_child_name:\n"
            "            return defer.succeed(\"redundant rename/relink\")\n"
            "        renamer = Renamer(self, current_child_name, new_child_name,%s\n"
            "                          create_readonly_node=self._create_readonly_node)\n"
            "        d = self._node.modify(renamer.modify)\n"
            "        d.addCallback(lambda res: renamer.old_child)\n"
            "        return d\n\n" % (" overwrite=overwrite," if ctor_overwrite else ""))


def _rename_op_closure(no_overwrite_check=True):
    return ("    def rename_child(self, current_child_namex, new_child_namex, overwrite=True):\n"
            "        if self.is_readonly():\n"
            "            return defer.fail(NotWriteableError())\n"
            "        current_child_name = normalize(current_child_namex)\n"
            "        new_child_name = normalize(new_child_namex)\n"
            "        if new_child_name == current_child_name:\n"
            "            return defer.succeed(\"redundant rename/relink\")\n"
            "        def _rename(old_contents, servermap, first_time):\n"
            "            children = self._unpack_contents(old_contents)\n"
            "            if current_child_name not in children:\n"
            "                raise NoSuchChildError(current_child_name)\n"
            "            (child, moved_metadata) = children[current_child_name]\n"
            "            old_md = None\n"
            "            if new_child_name in children:\n"
            + ("                if overwrite is False:\n"
               "                    raise ExistingChildError(\"child already exists\")\n" if no_overwrite_check else "") +
            "                if overwrite == ONLY_FILES and IDirectoryNode.providedBy(children[new_child_name][0]):\n"
            "                    raise ExistingChildError(\"child already exists as a directory\")\n"
            "                old_md = children[new_child_name][1].copy()\n"
            "            children[new_child_name] = (child, update_metadata(old_md, moved_metadata, time.time()))\n"
            "            del children[current_child_name]\n"
            "            return self._pack_contents(children)\n"
            "        return self._node.modify(_rename)\n\n")


# ---- C20.3: move_child_to re-written with inlineCallbacks (`x = yield d` is the sequencing form of addCallback)
MOVE_BODY_OLD = """        if self.is_readonly() or new_parent.is_readonly():
            return defer.fail(NotWriteableError())

        current_child_name = normalize(current_child_namex)
        if new_child_namex is None:
            new_child_name = current_child_name
        else:
            new_child_name = normalize(new_child_namex)

        from_uri = self.get_write_uri()
        if new_parent.get_write_uri() == from_uri and new_child_name == current_child_name:
            # needed for correctness, otherwise we would delete the child
            return defer.succeed("redundant rename/relink")

        d = self.get_child_and_metadata(current_child_name)
        def _got_child(child_and_metadata):
            (child, metadata) = child_and_metadata
            return new_parent.set_node(new_child_name, child, metadata,
                                       overwrite=overwrite)
        d.addCallback(_got_child)
        d.addCallback(lambda child: self.delete(current_child_name))
        return d
"""


def _inline_move(guard="normalize(new_child_namex) == normalize(current_child_namex)",
                 prologue=None, steps=None, new="new_child_namex", cur="current_child_namex"):
    """(decorator edit, body edit) turning move_child_to into an inlineCallbacks generator."""
    if prologue is None:
        prologue = ("        if new_child_namex is None:\n"
                    "            new_child_namex = current_child_namex\n")
    if steps is None:
        steps = ("        (child, metadata) = yield self.get_child_and_metadata(%(cur)s)\n"
                 "        yield new_parent.set_node(%(new)s, child, metadata,\n"
                 "                                  overwrite=overwrite)\n"
                 "        old_child = yield self.delete(%(cur)s)\n"
                 "        return old_child\n")
    steps = steps % {"new": new, "cur": cur}
    body = ("        if self.is_readonly() or new_parent.is_readonly():\n"
            "            raise NotWriteableError()\n\n" + prologue + "\n"
            "        if (new_parent.get_write_uri() == self.get_write_uri()" +
            ("\n            and " + guard if guard else "") + "):\n"
            "            # needed for correctness, otherwise we would delete the child\n"
            "            return \"redundant rename/relink\"\n\n" + steps)
    return dict(old=MOVE_BODY_OLD, new=body, edits=[(F, MOVE_ANCHOR, "    @defer.inlineCallbacks\n" + MOVE_ANCHOR)])


def IM(mid, expect, **kw):
    e = _inline_move(**kw)
    return M(mid, F, e["old"], e["new"], expect, edits=e["edits"])


_NORM_PROLOGUE = ("        current_child_name = normalize(current_child_namex)\n"
                  "        if new_child_namex is None:\n"
                  "            new_child_name = current_child_name\n"
                  "        else:\n"
                  "            new_child_name = normalize(new_child_namex)\n")


MUTANTS = [
    # ---- C20.10 every modifier that can bind a name honours the overwrite mode (modifiers are discovered, not listed)
    # the seeded change: same-directory fast path through a new modifier without the ONLY_FILES / directory check
    M("renamer-fastpath-no-onlyfiles-check", F, ENC_ANCHOR, _renamer_class(only_files_check=None) + ENC_ANCHOR, "C20.10",
      edits=[(F, SHORTCUT, RENAME_FASTPATH)]),
    # a new in-place rename operation whose modifier tests the moved child instead of the existing one
    M("rename-op-onlyfiles-tests-moved-child", F, ENC_ANCHOR, _renamer_class(only_files_check="moved") + ENC_ANCHOR, "C20.10",
      edits=[(F, MOVE_ANCHOR, _rename_op() + MOVE_ANCHOR)]),
    M("rename-op-no-overwrite-false-check", F, ENC_ANCHOR, _renamer_class(no_overwrite_check=False) + ENC_ANCHOR, "C20.10",
      edits=[(F, MOVE_ANCHOR, _rename_op() + MOVE_ANCHOR)]),
    # the operation has an overwrite mode, its modifier does not know it
    M("rename-op-modifier-without-overwrite", F, ENC_ANCHOR, _renamer_class(init_overwrite=False) + ENC_ANCHOR, "C20.10",
      edits=[(F, MOVE_ANCHOR, _rename_op(ctor_overwrite=False) + MOVE_ANCHOR)]),
    # the modifier knows the mode but the operation does not hand it over
    M("rename-op-overwrite-not-forwarded", F, ENC_ANCHOR, _renamer_class() + ENC_ANCHOR, "C20.10",
      edits=[(F, MOVE_ANCHOR, _rename_op(ctor_overwrite=False) + MOVE_ANCHOR)]),
    # a nested function as modifier, reading the mode from the closure, without the overwrite=False refusal
    M("rename-op-closure-modifier-no-false-check", F, MOVE_ANCHOR, _rename_op_closure(no_overwrite_check=False) + MOVE_ANCHOR,
      "C20.10"),
    # the renamed link keeps the old link's metadata object: its timestamps are not maintained
    M("rename-op-stores-moved-metadata", F, ENC_ANCHOR, _renamer_class(stored_md="moved_metadata") + ENC_ANCHOR, "C20.10",
      edits=[(F, MOVE_ANCHOR, _rename_op() + MOVE_ANCHOR)]),
    # benign: a new operation with a new modifier class / nested function that has both gates
    M("benign-rename-op-correct-modifier", F, ENC_ANCHOR, _renamer_class() + ENC_ANCHOR, None,
      edits=[(F, MOVE_ANCHOR, _rename_op() + MOVE_ANCHOR)]),
    M("benign-rename-op-correct-closure-modifier", F, MOVE_ANCHOR, _rename_op_closure() + MOVE_ANCHOR, None),
    # ---- C20.1 Adder.modify
    M("adder-no-overwrite-check-dropped", F,
      "                if not self.overwrite:\n                    raise ExistingChildError(\"child %s already exists\" % quote_output(name, encoding='utf-8'))\n",
      "", "C20.1"),
    M("adder-no-overwrite-only-first-time", F,
      "                if not self.overwrite:\n", "                if self.overwrite is False and first_time:\n", "C20.1"),
    M("adder-onlyfiles-dropped", F,
      "                if self.overwrite == ONLY_FILES and IDirectoryNode.providedBy(children[name][0]):\n                    raise ExistingChildError(\"child %s already exists as a directory\" % quote_output(name, encoding='utf-8'))\n",
      "", "C20.1"),
    M("adder-onlyfiles-wrong-interface", F,
      "                if self.overwrite == ONLY_FILES and IDirectoryNode.providedBy(children[name][0]):",
      "                if self.overwrite == ONLY_FILES and IFileNode.providedBy(children[name][0]):", "C20.1"),
    M("adder-onlyfiles-checks-new-child", F,
      "                if self.overwrite == ONLY_FILES and IDirectoryNode.providedBy(children[name][0]):",
      "                if self.overwrite == ONLY_FILES and IDirectoryNode.providedBy(child):", "C20.1"),
    M("adder-old-metadata-dropped", F,
      "                metadata = children[name][1].copy()\n\n            metadata = update_metadata(metadata, new_metadata, now)",
      "\n            metadata = update_metadata(metadata, new_metadata, now)", "C20.1"),
    M("adder-stores-caller-metadata", F,
      "            children[name] = (child, metadata)\n        new_contents = self.node._pack_contents(children)\n        return new_contents\n\ndef _encrypt_rw_uri",
      "            children[name] = (child, new_metadata or {})\n        new_contents = self.node._pack_contents(children)\n        return new_contents\n\ndef _encrypt_rw_uri",
      "C20.1"),
    M("adder-overwrite-coerced-to-bool", F,
      "        self.overwrite = overwrite\n", "        self.overwrite = bool(overwrite)\n", "C20.1"),
    # ---- C20.2 update_metadata
    M("linkcrtime-reset-from-ctime", F,
      "    if 'linkcrtime' not in sysmd:", "    if old_ctime is not None or 'linkcrtime' not in sysmd:", "C20.2"),
    M("linkcrtime-guard-dropped", F,
      "    if 'linkcrtime' not in sysmd:", "    if new_metadata is not None:", "C20.2"),
    M("linkmotime-only-with-new-metadata", F,
      "    sysmd['linkmotime'] = now\n", "    if new_metadata is not None:\n        sysmd['linkmotime'] = now\n", "C20.2"),
    M("linkmotime-setdefault", F,
      "    sysmd['linkmotime'] = now\n", "    sysmd.setdefault('linkmotime', now)\n", "C20.2"),
    M("tahoe-not-carried-over", F,
      "        if 'tahoe' in metadata:\n            newmd['tahoe'] = metadata['tahoe']\n", "", "C20.2"),
    M("tahoe-caller-supplied-kept", F,
      "        if 'tahoe' in newmd:\n            del newmd['tahoe']\n", "", "C20.2"),
    M("sysmd-not-attached", F,
      "    metadata['tahoe'] = sysmd\n", "", "C20.2"),
    # ---- C20.3 move_child_to
    M("move-delete-addboth", F,
      "        d.addCallback(lambda child: self.delete(current_child_name))",
      "        d.addBoth(lambda child: self.delete(current_child_name))", "C20.3"),
    M("move-delete-first", F,
      "        d.addCallback(_got_child)\n        d.addCallback(lambda child: self.delete(current_child_name))\n",
      "        d.addCallback(lambda cm: self.delete(current_child_name).addCallback(lambda ign: cm))\n        d.addCallback(_got_child)\n",
      "C20.3"),
    M("move-set-node-not-returned", F,
      "            return new_parent.set_node(new_child_name, child, metadata,\n                                       overwrite=overwrite)",
      "            new_parent.set_node(new_child_name, child, metadata,\n                                overwrite=overwrite)", "C20.3"),
    M("move-errback-swallows", F,
      "        d.addCallback(_got_child)\n        d.addCallback(lambda child: self.delete(current_child_name))\n",
      "        d.addCallback(_got_child)\n        d.addErrback(lambda f: f.trap(ExistingChildError))\n        d.addCallback(lambda child: self.delete(current_child_name))\n",
      "C20.3"),
    M("move-shortcut-removed", F, SHORTCUT, "", "C20.3"),
    M("move-shortcut-or", F,
      "from_uri and new_child_name == current_child_name:", "from_uri or new_child_name == current_child_name:", "C20.3"),
    M("move-shortcut-names-only", F,
      "        if new_parent.get_write_uri() == from_uri and new_child_name == current_child_name:",
      "        if new_child_name == current_child_name:", "C20.3"),
    M("move-delete-new-name", F,
      "        d.addCallback(lambda child: self.delete(current_child_name))",
      "        d.addCallback(lambda child: self.delete(new_child_name))", "C20.3"),
    M("move-overwrite-not-forwarded", F,
      "            return new_parent.set_node(new_child_name, child, metadata,\n                                       overwrite=overwrite)",
      "            return new_parent.set_node(new_child_name, child, metadata)", ["C20.3", "C20.6"]),
    # ---- C20.4 Deleter
    M("deleter-type-gate-copy-paste", F,
      "        if self.must_be_file and IDirectoryNode.providedBy(self.old_child):",
      "        if self.must_be_file and IFileNode.providedBy(self.old_child):", "C20.4"),
    M("deleter-dir-gate-dropped", F,
      "        if self.must_be_directory and IFileNode.providedBy(self.old_child):\n            raise ChildOfWrongTypeError(\"delete required a directory, not a file\")\n",
      "", "C20.4"),
    M("deleter-wrong-key", F,
      "        del children[self.name]\n", "        children.pop(self.name.lower(), None)\n", "C20.4"),
    M("deleter-clears-map", F,
      "        del children[self.name]\n", "        del children[self.name]\n        children.pop(normalize(self.name.strip()), None)\n", "C20.4"),
    M("deleter-returns-old-contents", F,
      "        del children[self.name]\n        new_contents = self.node._pack_contents(children)\n        return new_contents\n",
      "        del children[self.name]\n        new_contents = self.node._pack_contents(children)\n        return old_contents\n",
      "C20.4"),
    # ---- C20.5 MetadataSetter
    M("mdsetter-existence-check-dropped", F,
      "        name = self.name\n        if name not in children:\n            raise NoSuchChildError(name)\n",
      "        name = self.name\n", "C20.5"),
    M("mdsetter-fresh-metadata", F,
      "        metadata = update_metadata(children[name][1].copy(), self.metadata, now)",
      "        metadata = update_metadata(None, self.metadata, now)", "C20.5"),
    M("mdsetter-skips-update-metadata", F,
      "        metadata = update_metadata(children[name][1].copy(), self.metadata, now)",
      "        metadata = dict(children[name][1], **(self.metadata or {}))", "C20.5"),
    # ---- C20.6 overwrite forwarding
    M("set-nodes-overwrite-dropped", F,
      "\n        a = Adder(self, entries, overwrite=overwrite,", "\n        a = Adder(self, entries,", "C20.6"),
    M("set-uri-overwrite-dropped", F,
      "        d = self.set_node(namex, child_node, metadata, overwrite)",
      "        d = self.set_node(namex, child_node, metadata)", "C20.6"),
    M("add-file-overwrite-dropped", F,
      "                              self.set_node(name, node, metadata, overwrite))",
      "                              self.set_node(name, node, metadata))", "C20.6"),
    M("mkdir-overwrite-constant", F,
      "            a = Adder(self, entries, overwrite=overwrite,", "            a = Adder(self, entries, overwrite=True,", "C20.6"),
    # ---- benign
    M("benign-adder-restructured", F, ADDER_BODY_OLD, ADDER_BODY_BENIGN, None),
    M("benign-adder-is-false", F, "                if not self.overwrite:\n", "                if self.overwrite is False:\n", None),
    M("benign-adder-hoist-existing", F,
      "                if self.overwrite == ONLY_FILES and IDirectoryNode.providedBy(children[name][0]):",
      "                existing = children[name][0]\n                if IDirectoryNode.providedBy(existing) and self.overwrite is ONLY_FILES:",
      None),
    M("benign-linkcrtime-not-in-form", F,
      "    if 'linkcrtime' not in sysmd:", "    if not ('linkcrtime' in sysmd):", None),
    M("benign-tahoe-pop", F,
      "        if 'tahoe' in newmd:\n            del newmd['tahoe']\n", "        newmd.pop('tahoe', None)\n", None),
    M("benign-newmd-dict-copy", F,
      "        newmd = new_metadata.copy()\n", "        replacement = dict(new_metadata)\n        newmd = replacement\n", None),
    M("benign-move-named-callback", F,
      "        d.addCallback(lambda child: self.delete(current_child_name))",
      "        def _unlink_old(ignored):\n            return self.delete(current_child_name)\n        d.addCallback(_unlink_old)", None),
    M("benign-move-shortcut-reordered", F,
      "        if new_parent.get_write_uri() == from_uri and new_child_name == current_child_name:",
      "        same_name = (current_child_name == new_child_name)\n        if same_name and from_uri == new_parent.get_write_uri():",
      None),
    M("benign-deleter-pop", F, "        del children[self.name]\n", "        children.pop(self.name)\n", None),
    M("benign-deleter-local-old", F,
      "        if self.must_be_file and IDirectoryNode.providedBy(self.old_child):",
      "        if self.must_be_file and IDirectoryNode.providedBy(children[self.name][0]):", None),
    M("benign-set-uri-keyword", F,
      "        d = self.set_node(namex, child_node, metadata, overwrite)",
      "        d = self.set_node(namex, child_node, metadata=metadata, overwrite=overwrite)", None),
    M("benign-mdsetter-hoist", F,
      "        metadata = update_metadata(children[name][1].copy(), self.metadata, now)",
      "        old_child, old_metadata = children[name]\n        metadata = update_metadata(old_metadata.copy(), self.metadata, now)",
      None),
    # ---- gap review: survivors of the mutation sweep (breaking) and refactors of the same code (benign)
    # C20.1
    M("adder-entries-default-inverted", F, "        if entries is None:\n            entries = {}",
      "        if entries is not None:\n            entries = {}", "C20.1"),
    M("adder-onlyfiles-or", F,
      "                if self.overwrite == ONLY_FILES and IDirectoryNode.providedBy(children[name][0]):",
      "                if self.overwrite == ONLY_FILES or IDirectoryNode.providedBy(children[name][0]):", "C20.1"),
    M("adder-refuses-fresh-name", F,
      "            metadata = None\n            if name in children:\n                if not self.overwrite:",
      "            metadata = None\n            if not self.overwrite:\n                raise ExistingChildError(name)\n"
      "            if name in children:\n                if not self.overwrite:", "C20.1"),
    M("adder-metadata-reset-dropped", F, "            metadata = None\n            if name in children:",
      "            if name in children:", "C20.1"),
    M("adder-metadata-reset-hoisted", F,
      "        now = time.time()\n        for (namex, (child, new_metadata)) in list(self.entries.items()):",
      "        now = time.time()\n        metadata = None\n        for (namex, (child, new_metadata)) in list(self.entries.items()):",
      "C20.1", edits=[(F, "            metadata = None\n            if name in children:", "            if name in children:")]),
    M("adder-readonly-always", F,
      "            if self.create_readonly_node and metadata.get('no-write', False):",
      "            if self.create_readonly_node or metadata.get('no-write', False):", "C20.1"),
    M("adder-readonly-default-swapped", F,
      "            if self.create_readonly_node and metadata.get('no-write', False):",
      "            if self.create_readonly_node and metadata.get(False, 'no-write'):", "C20.1"),
    M("benign-adder-entries-not", F, "        if entries is None:\n            entries = {}",
      "        if not entries:\n            entries = {}", None),
    M("benign-adder-entries-ifexp", F, "        if entries is None:\n            entries = {}",
      "        entries = {} if entries is None else entries", None),
    M("benign-adder-nowrite-hoisted", F,
      "            if self.create_readonly_node and metadata.get('no-write', False):",
      "            no_write = metadata.get('no-write')\n            if no_write and self.create_readonly_node:", None),
    # C20.2
    M("md-default-inverted", F, "    if metadata is None:\n        metadata = {}",
      "    if metadata is not None:\n        metadata = {}", "C20.2"),
    M("caller-metadata-ignored", F, "    if new_metadata is not None:", "    if new_metadata is None:", "C20.2"),
    M("linkcrtime-none-for-fresh-entry", F, "        if old_ctime is not None:", "        if old_ctime is None:", "C20.2"),
    M("linkcrtime-fresh-store-dropped", F, "        else:\n            sysmd['linkcrtime'] = now\n", "", "C20.2"),
    M("benign-linkcrtime-ifexp", F,
      "        if old_ctime is not None:\n            sysmd['linkcrtime'] = old_ctime\n        else:\n            sysmd['linkcrtime'] = now\n",
      "        if old_ctime is None:\n            sysmd['linkcrtime'] = now\n        else:\n            sysmd['linkcrtime'] = old_ctime\n", None),
    M("benign-md-default-not", F, "    if metadata is None:\n        metadata = {}", "    if not metadata:\n        metadata = {}", None),
    M("benign-md-default-or", F, "    if metadata is None:\n        metadata = {}", "    metadata = metadata or {}", None),
    M("benign-old-ctime-not-is-none", F, "        if old_ctime is not None:", "        if not (old_ctime is None):", None),
    M("benign-new-metadata-early-skip", F, "    if new_metadata is not None:", "    if not (new_metadata is None):", None),
    # C20.3
    M("move-newname-default-inverted", F, "        if new_child_namex is None:", "        if new_child_namex is not None:", "C20.3"),
    M("move-newname-ignored", F, "            new_child_name = normalize(new_child_namex)",
      "            new_child_name = normalize(current_child_namex)", "C20.3"),
    M("benign-move-newname-ifexp", F,
      "        if new_child_namex is None:\n            new_child_name = current_child_name\n        else:\n"
      "            new_child_name = normalize(new_child_namex)\n",
      "        new_child_name = current_child_name if new_child_namex is None else normalize(new_child_namex)\n", None),
    # C20.3 in the inlineCallbacks shape (seeded C20-I: the refactor kept the guard but compares the raw names)
    IM("imove-seeded-raw-guard", "C20.3", guard="new_child_namex == current_child_namex"),
    IM("imove-guard-one-side-raw", "C20.3", guard="normalize(new_child_namex) == current_child_namex"),
    IM("benign-imove-faithful", None),
    IM("benign-imove-normalised-locals", None, prologue=_NORM_PROLOGUE, guard="new_child_name == current_child_name",
       new="new_child_name", cur="current_child_name"),
    IM("benign-imove-guard-on-locals-raw-args", None,
       prologue="        if new_child_namex is None:\n            new_child_namex = current_child_namex\n"
                "        old_name = normalize(current_child_namex)\n        new_name = normalize(new_child_namex)\n",
       guard="new_name == old_name"),
    IM("imove-delete-before-set", "C20.3",
       steps="        (child, metadata) = yield self.get_child_and_metadata(%(cur)s)\n"
             "        old_child = yield self.delete(%(cur)s)\n"
             "        yield new_parent.set_node(%(new)s, child, metadata,\n"
             "                                  overwrite=overwrite)\n"
             "        return old_child\n"),
    IM("imove-set-node-not-waited-for", "C20.3",
       steps="        (child, metadata) = yield self.get_child_and_metadata(%(cur)s)\n"
             "        new_parent.set_node(%(new)s, child, metadata,\n"
             "                            overwrite=overwrite)\n"
             "        old_child = yield self.delete(%(cur)s)\n"
             "        return old_child\n"),
    IM("imove-set-node-failure-swallowed", "C20.3",
       steps="        (child, metadata) = yield self.get_child_and_metadata(%(cur)s)\n"
             "        try:\n"
             "            yield new_parent.set_node(%(new)s, child, metadata,\n"
             "                                      overwrite=overwrite)\n"
             "        except ExistingChildError:\n"
             "            pass\n"
             "        old_child = yield self.delete(%(cur)s)\n"
             "        return old_child\n"),
    IM("imove-delete-in-finally", "C20.3",
       steps="        (child, metadata) = yield self.get_child_and_metadata(%(cur)s)\n"
             "        try:\n"
             "            yield new_parent.set_node(%(new)s, child, metadata,\n"
             "                                      overwrite=overwrite)\n"
             "        finally:\n"
             "            old_child = yield self.delete(%(cur)s)\n"
             "        return old_child\n"),
    IM("imove-overwrite-not-forwarded", ["C20.3", "C20.6"],
       steps="        (child, metadata) = yield self.get_child_and_metadata(%(cur)s)\n"
             "        yield new_parent.set_node(%(new)s, child, metadata)\n"
             "        old_child = yield self.delete(%(cur)s)\n"
             "        return old_child\n"),
    IM("imove-shortcut-same-dir-only", "C20.3", guard=None),
    IM("imove-shortcut-guard-inverted", "C20.3", guard="normalize(new_child_namex) != normalize(current_child_namex)"),
    IM("benign-imove-guard-negated-eq", None, guard="not normalize(new_child_namex) != normalize(current_child_namex)"),
    IM("imove-delete-new-name", "C20.3",
       steps="        (child, metadata) = yield self.get_child_and_metadata(%(cur)s)\n"
             "        yield new_parent.set_node(%(new)s, child, metadata,\n"
             "                                  overwrite=overwrite)\n"
             "        old_child = yield self.delete(%(new)s)\n"
             "        return old_child\n"),
    IM("benign-imove-deferred-in-local", None,
       steps="        pair = yield self.get_child_and_metadata(%(cur)s)\n"
             "        (child, metadata) = pair\n"
             "        linked = new_parent.set_node(%(new)s, child, metadata,\n"
             "                                     overwrite=overwrite)\n"
             "        yield linked\n"
             "        old_child = yield self.delete(%(cur)s)\n"
             "        defer.returnValue(old_child)\n"),
    M("benign-imove-flag-locals-returnvalue", F, MOVE_BODY_OLD,
      "        if self.is_readonly() or new_parent.is_readonly():\n"
      "            raise NotWriteableError()\n"
      "        old_name = normalize(current_child_namex)\n"
      "        new_name = old_name if new_child_namex is None else normalize(new_child_namex)\n"
      "        same_dir = new_parent.get_write_uri() == self.get_write_uri()\n"
      "        same_name = new_name == old_name\n"
      "        if same_dir and same_name:\n"
      "            defer.returnValue(\"redundant rename/relink\")\n"
      "        child, metadata = yield self.get_child_and_metadata(old_name)\n"
      "        yield new_parent.set_node(new_name, child, metadata, overwrite=overwrite)\n"
      "        res = yield self.delete(old_name)\n"
      "        defer.returnValue(res)\n", None,
      edits=[(F, MOVE_ANCHOR, "    @defer.inlineCallbacks\n" + MOVE_ANCHOR)]),
    M("imove-flag-locals-raw-names", F, MOVE_BODY_OLD,
      "        if self.is_readonly() or new_parent.is_readonly():\n"
      "            raise NotWriteableError()\n"
      "        old_name = current_child_namex\n"
      "        new_name = old_name if new_child_namex is None else new_child_namex\n"
      "        same_dir = new_parent.get_write_uri() == self.get_write_uri()\n"
      "        same_name = new_name == old_name\n"
      "        if same_dir and same_name:\n"
      "            defer.returnValue(\"redundant rename/relink\")\n"
      "        child, metadata = yield self.get_child_and_metadata(old_name)\n"
      "        yield new_parent.set_node(new_name, child, metadata, overwrite=overwrite)\n"
      "        res = yield self.delete(old_name)\n"
      "        defer.returnValue(res)\n", "C20.3",
      edits=[(F, MOVE_ANCHOR, "    @defer.inlineCallbacks\n" + MOVE_ANCHOR)]),
    # the same slip in the callback-chain shape: the guard is evaluated on the raw names
    M("move-guard-raw-names", F, "from_uri and new_child_name == current_child_name:",
      "from_uri and new_child_namex == current_child_namex:", "C20.3"),
    M("move-new-name-not-normalised-for-guard", F, "            new_child_name = normalize(new_child_namex)\n",
      "            new_child_name = new_child_namex\n", "C20.3"),
    M("benign-move-guard-normalises-in-place", F, "from_uri and new_child_name == current_child_name:",
      "from_uri and normalize(new_child_name) == normalize(current_child_namex):", None),
    # C20.4
    M("deleter-present-noop", F, "        if self.name not in children:", "        if self.name in children:", "C20.4"),
    M("deleter-missing-succeeds", F,
      "            if first_time and self.must_exist:\n                raise NoSuchChildError(self.name)\n", "", "C20.4"),
    M("deleter-must-exist-or", F, "            if first_time and self.must_exist:", "            if first_time or self.must_exist:", "C20.4"),
    M("deleter-type-gate-or", F,
      "        if self.must_be_directory and IFileNode.providedBy(self.old_child):",
      "        if self.must_be_directory or IFileNode.providedBy(self.old_child):", "C20.4"),
    M("benign-deleter-nested-gates", F,
      "        if self.must_be_directory and IFileNode.providedBy(self.old_child):\n"
      "            raise ChildOfWrongTypeError(\"delete required a directory, not a file\")\n",
      "        if self.must_be_directory:\n            if IFileNode.providedBy(self.old_child):\n"
      "                raise ChildOfWrongTypeError(\"delete required a directory, not a file\")\n", None),
    M("benign-deleter-must-exist-first", F, "            if first_time and self.must_exist:",
      "            if self.must_exist and first_time:", None),
    # C20.5
    M("mdsetter-readonly-always", F,
      "now)\n        if self.create_readonly_node and metadata.get('no-write', False):",
      "now)\n        if self.create_readonly_node or metadata.get('no-write', False):", "C20.5"),
    M("benign-mdsetter-nowrite-nested", F,
      "now)\n        if self.create_readonly_node and metadata.get('no-write', False):\n            child = self.create_readonly_node(child, name)\n",
      "now)\n        if metadata.get('no-write', False):\n            if self.create_readonly_node is not None:\n"
      "                child = self.create_readonly_node(child, name)\n", None),
    # C20.7
    M("set-node-item-not-given", F, "        a.set_node(namex, child, metadata)\n", "", "C20.7"),
    M("set-children-item-skipped", F, "            a.set_node(namex, child_node, metadata)\n",
      "            if metadata is not None:\n                a.set_node(namex, child_node, metadata)\n", "C20.7"),
    M("set-children-stale-metadata", F, "                writecap, readcap = e\n                metadata = None\n",
      "                writecap, readcap = e\n", "C20.7"),
    M("mkdir-not-linked", F, "        d.addCallback(_created)\n", "", "C20.7"),
    M("adder-set-node-drops-metadata", F, "        self.entries[namex] = (node, metadata)", "        self.entries[namex] = (node, None)", "C20.7"),
    M("delete-type-flags-swapped", F,
      "                          must_be_directory=must_be_directory, must_be_file=must_be_file)",
      "                          must_be_directory=must_be_file, must_be_file=must_be_directory)", "C20.7"),
    M("delete-must-exist-not-forwarded", F, "        deleter = Deleter(self, namex, must_exist=must_exist,",
      "        deleter = Deleter(self, namex,", "C20.7"),
    M("set-node-returns-before-write-deferred", F,
      "        d = self._node.modify(a.modify)\n        d.addCallback(lambda res: child)\n        return d\n\n    def set_nodes",
      "        d = self._node.modify(a.modify)\n        d.addCallback(lambda res: child)\n        return defer.succeed(child)\n\n    def set_nodes",
      "C20.7"),
    M("benign-set-node-chained-return", F,
      "        d = self._node.modify(a.modify)\n        d.addCallback(lambda res: child)\n        return d\n\n    def set_nodes",
      "        return self._node.modify(a.modify).addCallback(lambda res: child)\n\n    def set_nodes", None),
    M("benign-delete-positional", F,
      "        deleter = Deleter(self, namex, must_exist=must_exist,\n                          must_be_directory=must_be_directory, must_be_file=must_be_file)",
      "        deleter = Deleter(self, namex, must_exist, must_be_directory, must_be_file)", None),
    M("benign-adder-set-node-hoist", F, "        self.entries[namex] = (node, metadata)",
      "        item = (node, metadata)\n        self.entries[namex] = item", None),
    M("benign-set-children-unpack", F,
      "            if len(e) == 2:\n                writecap, readcap = e\n                metadata = None\n            else:\n"
      "                assert len(e) == 3\n                writecap, readcap, metadata = e\n",
      "            metadata = None\n            if len(e) == 2:\n                writecap, readcap = e\n            else:\n"
      "                assert len(e) == 3\n                writecap, readcap, metadata = e\n", None),
    M("vanish-adder-set-node", F, "    def set_node(self, namex, node, metadata):", "    def put_node(self, namex, node, metadata):",
      "ANALYSIS-ERROR"),
    M("benign-update-metadata-ret-hoist", F, "    metadata['tahoe'] = sysmd\n\n    return metadata\n",
      "    metadata['tahoe'] = sysmd\n\n    result = metadata\n    return result\n", None),
    M("benign-set-children-ret-hoist", F, "        d.addCallback(lambda ign: self)\n        return d\n",
      "        d.addCallback(lambda ign: self)\n        result = d\n        return result\n", None),
    M("benign-mkdir-ret-hoist", F, "        d.addCallback(_created)\n        return d\n",
      "        d.addCallback(_created)\n        result = d\n        return result\n", None),
    M("benign-move-ret-hoist", F, "        d.addCallback(lambda child: self.delete(current_child_name))\n        return d\n",
      "        d.addCallback(lambda child: self.delete(current_child_name))\n        result = d\n        return result\n", None),
    M("benign-move-shortcut-ret-hoist", F, "            return defer.succeed(\"redundant rename/relink\")\n",
      "            done = defer.succeed(\"redundant rename/relink\")\n            return done\n", None),
    # ---- C20.8 the looked-up name is normalised in the modifier or by every caller
    # (seeded C20-E) Deleter trusts its caller, but DirectoryNode.delete hands the raw namex on
    M("deleter-trusts-caller-delete-raw", F,
      "        self.name = normalize(namex)\n        self.must_exist = must_exist\n",
      "        self.name = namex\n        self.must_exist = must_exist\n", "C20.8"),
    # both modifiers trust the caller and set_metadata_for stops normalising
    M("mdsetter-trusts-caller-raw", F,
      "        self.name = normalize(namex)\n        self.metadata = metadata\n",
      "        self.name = namex\n        self.metadata = metadata\n", "C20.8",
      edits=[(F, "        s = MetadataSetter(self, name, metadata,", "        s = MetadataSetter(self, namex, metadata,")]),
    # normalisation moved into delete(), but only on one branch
    M("delete-normalises-conditionally", F,
      "        self.name = normalize(namex)\n        self.must_exist = must_exist\n",
      "        self.name = namex\n        self.must_exist = must_exist\n", "C20.8",
      edits=[(F, "        deleter = Deleter(self, namex, must_exist=must_exist,",
              "        if must_exist:\n            namex = normalize(namex)\n"
              "        deleter = Deleter(self, namex, must_exist=must_exist,")]),
    # Adder.modify compares the raw spelling (its entries come un-normalised from set_node / set_nodes)
    M("adder-raw-name", F, "            name = normalize(namex)\n            precondition(IFilesystemNode.providedBy(child), child)",
      "            name = namex\n            precondition(IFilesystemNode.providedBy(child), child)", "C20.8"),
    # benign: the normalisation moves from Deleter.__init__ to its only caller
    M("benign-deleter-normalised-by-caller", F,
      "        self.name = normalize(namex)\n        self.must_exist = must_exist\n",
      "        self.name = namex\n        self.must_exist = must_exist\n", None,
      edits=[(F, "        deleter = Deleter(self, namex, must_exist=must_exist,",
              "        deleter = Deleter(self, normalize(namex), must_exist=must_exist,")]),
    M("benign-deleter-normalised-local-in-caller", F,
      "        self.name = normalize(namex)\n        self.must_exist = must_exist\n",
      "        self.name = namex\n        self.must_exist = must_exist\n", None,
      edits=[(F, "        deleter = Deleter(self, namex, must_exist=must_exist,",
              "        namex = normalize(namex)\n        deleter = Deleter(self, namex, must_exist=must_exist,")]),
    # benign: MetadataSetter's only caller already normalises (the harmless half of C20-E)
    M("benign-mdsetter-trusts-normalising-caller", F,
      "        self.name = normalize(namex)\n        self.metadata = metadata\n",
      "        self.name = namex\n        self.metadata = metadata\n", None),
    M("benign-adder-normalise-hoisted", F,
      "            name = normalize(namex)\n            precondition(IFilesystemNode.providedBy(child), child)",
      "            nfc = normalize(namex)\n            name = nfc\n            precondition(IFilesystemNode.providedBy(child), child)", None),
    # ---- C20.9 the read operations look the normalised name up
    M("get-child-and-metadata-raw", F, "        d.addCallback(self._get_with_metadata, name)",
      "        d.addCallback(self._get_with_metadata, namex)", "C20.9"),
    M("has-child-raw", F, "        d.addCallback(lambda children: name in children)",
      "        d.addCallback(lambda children: namex in children)", "C20.9"),
    M("get-metadata-for-not-normalised", F,
      "        name = normalize(namex)\n        d = self._read()\n        d.addCallback(lambda children: children[name][1])",
      "        name = namex\n        d = self._read()\n        d.addCallback(lambda children: children[name][1])", "C20.9"),
    M("get-normalises-only-non-ascii", F,
      "        name = normalize(namex)\n        d = self._read()\n        d.addCallback(self._get, name)",
      "        name = namex\n        if not namex.isascii():\n            name = namex.strip()\n"
      "        d = self._read()\n        d.addCallback(self._get, name)", "C20.9"),
    M("benign-has-child-inline-normalize", F, "        d.addCallback(lambda children: name in children)",
      "        d.addCallback(lambda children: normalize(namex) in children)", None),
    M("benign-get-nested-callback", F, "        d.addCallback(self._get, name)",
      "        def _lookup(children):\n            return self._get(children, name)\n        d.addCallback(_lookup)", None),
    M("benign-get-lambda-callback", F, "        d.addCallback(self._get, name)",
      "        d.addCallback(lambda children: self._get(children, name))", None),
    M("benign-get-helper-normalises", F, "        d.addCallback(self._get, name)", "        d.addCallback(self._get, namex)", None,
      edits=[(F, "    def _get(self, children, name):\n        child = children.get(name)",
              "    def _get(self, children, namex):\n        name = normalize(namex)\n        child = children.get(name)")]),
    # ---- vanished anchor
    M("vanish-move-child-to", F, "    def move_child_to(self, current_child_namex, new_parent,",
      "    def relink_child(self, current_child_namex, new_parent,", "ANALYSIS-ERROR"),
    M("vanish-update-metadata", F, "def update_metadata(metadata, new_metadata, now):",
      "def refresh_metadata(metadata, new_metadata, now):", "ANALYSIS-ERROR"),
]
