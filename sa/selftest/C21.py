from .runner import M

F = "src/allmydata/dirnode.py"
S = "src/allmydata/deep_stats.py"
U = "src/allmydata/uri.py"

CLASSIFY_OLD = """            if isinstance(child, UnknownNode):
                walker.add_node(child, childpath)
                continue
            verifier = child.get_verify_cap()
            # allow LIT files (for which verifier==None) to be processed
            if (verifier is not None) and (verifier in found):
                continue
            found.add(verifier)
            if IDirectoryNode.providedBy(child):
                dirkids.append( (child, childpath) )
            else:
                filekids.append( (child, childpath) )
"""

# same behaviour written with if/elif instead of continue, LIT files do not touch the found set
CLASSIFY_BENIGN = """            if isinstance(child, UnknownNode):
                walker.add_node(child, childpath)
            else:
                vcap = child.get_verify_cap()
                if vcap is None or vcap not in found:
                    if vcap is not None:
                        found.add(vcap)
                    entry = (child, childpath)
                    if IDirectoryNode.providedBy(child):
                        dirkids.append(entry)
                    else:
                        filekids.append(entry)
"""

ENTER_OLD = "        d = defer.maybeDeferred(walker.enter_directory, parent, children)\n"

FILE_CB_OLD = """        for i, (child, childpath) in enumerate(filekids):
            d.addCallback(lambda ignored, child=child, childpath=childpath:
                          walker.add_node(child, childpath))
"""

FILE_CB_BENIGN = """        def _visit_file(ignored, filenode, filepath):
            return walker.add_node(filenode, filepath)
        for i, (child, childpath) in enumerate(filekids):
            d.addCallback(_visit_file, child, childpath)
"""

DIR_CB_OLD = """            d.addCallback(lambda ignored, child=child, childpath=childpath:
                          self._deep_traverse_dirnode(child, childpath,
                                                      walker, monitor,
                                                      found))
"""

# ---- the traversal rewritten as one inlineCallbacks method plus a helper that splits the new children
SEED_OLD = """        found = set([self.get_verify_cap()])
        d = self._deep_traverse_dirnode(self, [], walker, monitor, found)
"""
SEED_NEW = """        d = self._deep_traverse_dirnode(self, [], walker, monitor, set())
"""
TRAV_OLD = """    def _deep_traverse_dirnode(self, node, path, walker, monitor, found):
        # process this directory, then walk its children
        monitor.raise_if_cancelled()
        d = defer.maybeDeferred(walker.add_node, node, path)
        d.addCallback(lambda ignored: node.list())
        d.addCallback(self._deep_traverse_dirnode_children, node, path,
                      walker, monitor, found)
        return d

    def _deep_traverse_dirnode_children(self, children, parent, path,
                                        walker, monitor, found):
        monitor.raise_if_cancelled()
        d = defer.maybeDeferred(walker.enter_directory, parent, children)
        # we process file-like children first, so we can drop their FileNode
        # objects as quickly as possible. Tests suggest that a FileNode (held
        # in the client's nodecache) consumes about 2440 bytes. dirnodes (not
        # in the nodecache) seem to consume about 2000 bytes.
        dirkids = []
        filekids = []
        for name, (child, metadata) in sorted(children.items()):
            childpath = path + [name]
            if isinstance(child, UnknownNode):
                walker.add_node(child, childpath)
                continue
            verifier = child.get_verify_cap()
            # allow LIT files (for which verifier==None) to be processed
            if (verifier is not None) and (verifier in found):
                continue
            found.add(verifier)
            if IDirectoryNode.providedBy(child):
                dirkids.append( (child, childpath) )
            else:
                filekids.append( (child, childpath) )
        for i, (child, childpath) in enumerate(filekids):
            d.addCallback(lambda ignored, child=child, childpath=childpath:
                          walker.add_node(child, childpath))
            # to work around the Deferred tail-recursion problem
            # (specifically the defer.succeed flavor) requires us to avoid
            # doing more than 158 LIT files in a row. We insert a turn break
            # once every 100 files (LIT or CHK) to preserve some stack space
            # for other code. This is a different expression of the same
            # Twisted problem as in #237.
            if i % 100 == 99:
                d.addCallback(lambda ignored: fireEventually())
        for (child, childpath) in dirkids:
            d.addCallback(lambda ignored, child=child, childpath=childpath:
                          self._deep_traverse_dirnode(child, childpath,
                                                      walker, monitor,
                                                      found))
        return d
"""

# faithful: every admitted child is recorded on discovery; the step also records the node it is given (the root)
TRAV_GEN = """    @defer.inlineCallbacks
    def _deep_traverse_dirnode(self, node, path, walker, monitor, found):
        # process this directory, then walk its children. 'found' holds the
        # verifier-caps of everything we have handed to the walker so far.
        monitor.raise_if_cancelled()
        found.add(node.get_verify_cap())
        yield walker.add_node(node, path)
        children = yield node.list()
        monitor.raise_if_cancelled()
        yield walker.enter_directory(node, children)
        # we process file-like children first, so we can drop their FileNode
        # objects as quickly as possible. Tests suggest that a FileNode (held
        # in the client's nodecache) consumes about 2440 bytes. dirnodes (not
        # in the nodecache) seem to consume about 2000 bytes.
        filekids, dirkids = self._deep_traverse_new_children(children, path,
                                                             walker, found)
        for i, (child, childpath) in enumerate(filekids):
            yield walker.add_node(child, childpath)
            # to work around the Deferred tail-recursion problem
            # (specifically the defer.succeed flavor) requires us to avoid
            # doing more than 158 LIT files in a row. We insert a turn break
            # once every 100 files (LIT or CHK) to preserve some stack space
            # for other code. This is a different expression of the same
            # Twisted problem as in #237.
            if i % 100 == 99:
                yield fireEventually()
        for (child, childpath) in dirkids:
            yield self._deep_traverse_dirnode(child, childpath,
                                              walker, monitor, found)

    def _deep_traverse_new_children(self, children, path, walker, found):
        # split the children we have not seen before into (filekids,
        # dirkids), each a list of (child, childpath) in name order.
        # UnknownNodes are reported to the walker right away.
        filekids = []
        dirkids = []
        for name, (child, metadata) in sorted(children.items()):
            childpath = path + [name]
            if isinstance(child, UnknownNode):
                walker.add_node(child, childpath)
                continue
            verifier = child.get_verify_cap()
            # allow LIT files (for which verifier==None) to be processed
            if (verifier is not None) and (verifier in found):
                continue
            found.add(verifier)
            if IDirectoryNode.providedBy(child):
                dirkids.append( (child, childpath) )
            else:
                filekids.append( (child, childpath) )
        return filekids, dirkids
"""

MUTANTS = [
    # ---- C21.1 classification of each child
    M("lit-guard-dropped", F,
      "            if (verifier is not None) and (verifier in found):", "            if verifier in found:", "C21.1"),
    M("dedup-test-inverted", F,
      "            if (verifier is not None) and (verifier in found):",
      "            if (verifier is not None) and (verifier not in found):", "C21.1"),
    M("dedup-test-dropped", F,
      "            if (verifier is not None) and (verifier in found):\n                continue\n", "", "C21.1"),
    M("found-add-dropped", F, "            found.add(verifier)\n", "", "C21.1"),
    M("found-add-only-for-dirs", F,
      "            found.add(verifier)\n            if IDirectoryNode.providedBy(child):\n",
      "            if IDirectoryNode.providedBy(child):\n                found.add(verifier)\n", "C21.1"),
    M("found-records-child-not-verifier", F, "            found.add(verifier)\n", "            found.add(child)\n", "C21.1"),
    M("readonly-dirs-queued-as-files", F,
      "            if IDirectoryNode.providedBy(child):\n                dirkids.append",
      "            if IDirectoryNode.providedBy(child) and child.is_mutable():\n                dirkids.append", "C21.1"),
    M("unknown-falls-through", F,
      "                walker.add_node(child, childpath)\n                continue\n",
      "                walker.add_node(child, childpath)\n", "C21.1"),
    M("seen-child-ends-the-loop", F,
      "            if (verifier is not None) and (verifier in found):\n                continue\n",
      "            if (verifier is not None) and (verifier in found):\n                break\n", "C21.1"),
    M("childpath-without-parent", F, "            childpath = path + [name]\n", "            childpath = [name]\n", "C21.1"),
    M("childpath-shared-list", F, "            childpath = path + [name]\n",
      "            path.append(name)\n            childpath = path\n", "C21.1"),
    M("dir-queued-twice", F,
      "                dirkids.append( (child, childpath) )\n",
      "                dirkids.append( (child, childpath) )\n                filekids.append( (child, childpath) )\n", "C21.1"),
    # ---- C21.2 seeding, add_node-then-list
    M("found-not-seeded", F, "        found = set([self.get_verify_cap()])\n", "        found = set()\n", "C21.2"),
    M("dir-not-reported", F,
      "        d = defer.maybeDeferred(walker.add_node, node, path)\n", "        d = defer.succeed(None)\n", "C21.2"),
    M("dir-reported-under-empty-path", F,
      "        d = defer.maybeDeferred(walker.add_node, node, path)\n",
      "        d = defer.maybeDeferred(walker.add_node, node, [])\n", "C21.2"),
    M("lists-the-root-again", F,
      "        d.addCallback(lambda ignored: node.list())\n", "        d.addCallback(lambda ignored: self.list())\n", "C21.2"),
    M("children-walk-fresh-found", F,
      "        d.addCallback(self._deep_traverse_dirnode_children, node, path,\n                      walker, monitor, found)",
      "        d.addCallback(self._deep_traverse_dirnode_children, node, path,\n                      walker, monitor, set(found))",
      "C21.2"),
    M("root-path-not-empty", F,
      "        d = self._deep_traverse_dirnode(self, [], walker, monitor, found)",
      "        d = self._deep_traverse_dirnode(self, [u\"\"], walker, monitor, found)", "C21.2"),
    # ---- C21.3 visit callbacks
    M("file-callback-late-binding", F,
      "            d.addCallback(lambda ignored, child=child, childpath=childpath:\n                          walker.add_node(child, childpath))",
      "            d.addCallback(lambda ignored:\n                          walker.add_node(child, childpath))", "C21.3"),
    M("dir-callback-late-binding-path", F,
      "            d.addCallback(lambda ignored, child=child, childpath=childpath:\n                          self._deep_traverse_dirnode(child, childpath,",
      "            d.addCallback(lambda ignored, child=child:\n                          self._deep_traverse_dirnode(child, childpath,",
      "C21.3"),
    M("dir-callback-parent-path", F,
      "                          self._deep_traverse_dirnode(child, childpath,",
      "                          self._deep_traverse_dirnode(child, path,", "C21.3"),
    M("found-copied-per-subtree", F,
      "                                                      walker, monitor,\n                                                      found))",
      "                                                      walker, monitor,\n                                                      set(found)))",
      "C21.3"),
    M("files-only-first-hundred", F,
      "        for i, (child, childpath) in enumerate(filekids):", "        for i, (child, childpath) in enumerate(filekids[:100]):",
      "C21.3"),
    M("file-visit-skipped-on-turn-break", F,
      "            d.addCallback(lambda ignored, child=child, childpath=childpath:\n                          walker.add_node(child, childpath))\n",
      "            if i % 100 == 99:\n                d.addCallback(lambda ignored: fireEventually())\n                continue\n"
      "            d.addCallback(lambda ignored, child=child, childpath=childpath:\n                          walker.add_node(child, childpath))\n",
      "C21.3"),
    M("dir-visit-errback-only", F,
      "            d.addCallback(lambda ignored, child=child, childpath=childpath:\n                          self._deep_traverse_dirnode(",
      "            d.addErrback(lambda ignored, child=child, childpath=childpath:\n                          self._deep_traverse_dirnode(",
      "C21.3"),
    # ---- C21.5 walkers
    M("manifest-records-origin-cap", F,
      "        self.manifest.append( (tuple(path), node.get_uri()) )",
      "        self.manifest.append( (tuple(path), self.origin.get_uri()) )", "C21.5"),
    M("manifest-stats-not-counted", F,
      "        return DeepStats.add_node(self, node, path)", "        return None", "C21.5"),
    M("deepcheck-result-under-no-path", F,
      "            d.addCallback(self._results.add_check, childpath)", "            d.addCallback(self._results.add_check, [])", "C21.5"),
    M("deepcheck-stats-dropped", F,
      "        d.addCallback(lambda ignored: self._stats.add_node(node, childpath))\n", "", "C21.5"),
    # ---- C21.6 DeepStats
    M("stats-mutable-not-in-count-files", S,
      "            self.add(\"count-files\")\n            self.add(\"count-mutable-files\")",
      "            self.add(\"count-mutable-files\")", "C21.6"),
    M("stats-files-counted-up-front", S,
      "        if isinstance(node, UnknownNode):\n            self.add(\"count-unknown\")",
      "        self.add(\"count-files\")\n        if isinstance(node, UnknownNode):\n            self.add(\"count-unknown\")", "C21.6"),
    M("stats-literal-also-immutable", S,
      "                self.add(\"count-literal-files\")\n", "                self.add(\"count-literal-files\")\n                self.add(\"count-immutable-files\")\n",
      "C21.6"),
    # ---- C21.7 verifier identity
    M("cap-hash-by-identity", U,
      "        return self.to_string().__hash__()", "        return id(self)", "C21.7"),
    M("dir-verifier-eq-without-hash", U,
      "    INNER_URI_CLASS : Type[IVerifierURI] = SSKVerifierURI\n",
      "    INNER_URI_CLASS : Type[IVerifierURI] = SSKVerifierURI\n\n    def __eq__(self, them):\n"
      "        return isinstance(them, DirectoryURIVerifier) and self._filenode_uri == them._filenode_uri\n",
      "C21.7"),
    # ---- gap review (mutation-sweep survivors)
    M("eq-isinstance-negated", U,
      "        if isinstance(them, _BaseURI):\n            return self.to_string() == them.to_string()",
      "        if not isinstance(them, _BaseURI):\n            return self.to_string() == them.to_string()", "C21.7"),
    M("eq-isinstance-args-swapped", U,
      "        if isinstance(them, _BaseURI):\n            return self.to_string() == them.to_string()",
      "        if isinstance(_BaseURI, them):\n            return self.to_string() == them.to_string()", "C21.7"),
    M("eq-same-class-only", U,
      "        if isinstance(them, _BaseURI):\n            return self.to_string() == them.to_string()",
      "        if isinstance(them, _BaseURI):\n            return self is them", "C21.7"),
    M("stats-unknown-test-negated", S, "        if isinstance(node, UnknownNode):", "        if not isinstance(node, UnknownNode):", "C21.6"),
    M("stats-directory-test-negated", S, "        elif IDirectoryNode.providedBy(node):", "        elif not IDirectoryNode.providedBy(node):", "C21.6"),
    M("stats-mutable-test-negated", S, "        elif IMutableFileNode.providedBy(node):", "        elif not IMutableFileNode.providedBy(node):", "C21.6"),
    M("stats-immutable-test-negated", S, "        elif IImmutableFileNode.providedBy(node): # CHK and LIT",
      "        elif not IImmutableFileNode.providedBy(node):", "C21.6"),
    M("stats-literal-test-negated", S, "            if isinstance(theuri, LiteralFileURI):", "            if not isinstance(theuri, LiteralFileURI):", "C21.6"),
    M("stats-literal-test-on-node-cap-string", S, "            if isinstance(theuri, LiteralFileURI):",
      "            if isinstance(node.get_uri(), LiteralFileURI):", "C21.6"),
    M("stats-immutable-size-dropped", S, "                self.add(\"size-immutable-files\", size)\n", "", "C21.6"),
    M("stats-literal-size-dropped", S, "                self.add(\"size-literal-files\", size)\n", "", "C21.6"),
    M("stats-histogram-dropped", S, "            self.histogram(\"size-files-histogram\", size)\n", "", "C21.6"),
    M("stats-size-of-origin", S, "            size = node.get_size()\n", "            size = self.origin.get_size()\n", "C21.6"),
    M("manifest-si-test-negated", F, "        if si:\n            self.storage_index_strings.add", "        if not si:\n            self.storage_index_strings.add", "C21.5"),
    M("manifest-si-not-recorded", F, "        if si:\n            self.storage_index_strings.add(base32.b2a(si))\n", "", "C21.5"),
    M("manifest-verifycap-test-negated", F, "        if v:\n            self.verifycaps.add", "        if not v:\n            self.verifycaps.add", "C21.5"),
    M("manifest-verifycap-not-recorded", F, "            self.verifycaps.add(v.to_string())\n", "            pass\n", "C21.5"),
    M("manifest-verifycap-of-origin", F, "        v = node.get_verify_cap()\n        if v:\n            self.verifycaps.add(v.to_string())",
      "        v = node.get_verify_cap()\n        if v:\n            self.verifycaps.add(self.origin.get_verify_cap().to_string())", "C21.5"),
    M("deepcheck-returns-nothing", F,
      "        d.addCallback(lambda ignored: self._stats.add_node(node, childpath))\n        return d\n",
      "        d.addCallback(lambda ignored: self._stats.add_node(node, childpath))\n        return None\n", "C21.5"),
    M("deepcheck-return-dropped", F,
      "        d.addCallback(lambda ignored: self._stats.add_node(node, childpath))\n        return d\n",
      "        d.addCallback(lambda ignored: self._stats.add_node(node, childpath))\n", "C21.5"),
    M("walker-finish-dropped", F, "        d.addCallback(lambda ignored: walker.finish())\n", "", "C21.2"),
    M("walker-finish-after-monitor-finish", F,
      "        d.addCallback(lambda ignored: walker.finish())\n        d.addBoth(monitor.finish)\n",
      "        d.addBoth(monitor.finish)\n        d.addCallback(lambda ignored: walker.finish())\n", "C21.2"),
    M("deep-traverse-returns-nothing", F, "        d.addErrback(lambda f: None)\n\n        return monitor\n",
      "        d.addErrback(lambda f: None)\n\n        return None\n", "C21.2"),
    M("named-dir-callback-not-returned", F, DIR_CB_OLD,
      "            def _visit_dir(ignored, child=child, childpath=childpath):\n"
      "                self._deep_traverse_dirnode(child, childpath, walker, monitor, found)\n"
      "            d.addCallback(_visit_dir)\n", "C21.3"),
    # ---- benign
    M("benign-eq-early-return", U,
      "        if isinstance(them, _BaseURI):\n            return self.to_string() == them.to_string()\n        else:\n            return False\n\n    def __ne__",
      "        if not isinstance(them, _BaseURI):\n            return NotImplemented\n        mine = self.to_string()\n        return them.to_string() == mine\n\n    def __ne__", None),
    M("benign-eq-and-form", U,
      "        if isinstance(them, _BaseURI):\n            return self.to_string() == them.to_string()\n        else:\n            return False\n\n    def __ne__",
      "        return isinstance(them, _BaseURI) and self.to_string() == them.to_string()\n\n    def __ne__", None),
    M("benign-stats-files-else-branch", S,
      "        elif IMutableFileNode.providedBy(node):\n            self.add(\"count-files\")\n            self.add(\"count-mutable-files\")",
      "        elif not IMutableFileNode.providedBy(node) and not IImmutableFileNode.providedBy(node):\n            return\n"
      "        elif IMutableFileNode.providedBy(node):\n            self.add(\"count-mutable-files\")\n            self.add(\"count-files\")", None),
    M("benign-stats-cap-local", S,
      "            theuri = from_string(node.get_uri())\n            if isinstance(theuri, LiteralFileURI):\n                self.add(\"count-literal-files\")\n                self.add(\"size-literal-files\", size)",
      "            cap = node.get_uri()\n            is_lit = isinstance(from_string(cap), LiteralFileURI)\n            if is_lit:\n                self.add(\"size-literal-files\", node.get_size())\n                self.add(\"count-literal-files\")", None),
    M("benign-manifest-sets-none-tests", F,
      "        si = node.get_storage_index()\n        if si:\n            self.storage_index_strings.add(base32.b2a(si))\n        v = node.get_verify_cap()\n        if v:\n            self.verifycaps.add(v.to_string())\n",
      "        v = node.get_verify_cap()\n        if v is not None:\n            self.verifycaps.add(v.to_string())\n        if node.get_storage_index() is None:\n            pass\n        else:\n            self.storage_index_strings.add(base32.b2a(node.get_storage_index()))\n", None),
    M("benign-deepcheck-return-chained", F,
      "        d.addCallback(lambda ignored: self._stats.add_node(node, childpath))\n        return d\n",
      "        return d.addCallback(lambda ignored: self._stats.add_node(node, childpath))\n", None),
    M("benign-finish-named-callback", F, "        d.addCallback(lambda ignored: walker.finish())\n        d.addBoth(monitor.finish)\n",
      "        d.addCallback(lambda ignored: walker.finish())\n        d.addCallbacks(monitor.finish, monitor.finish)\n", None),
    M("benign-named-dir-callback", F, DIR_CB_OLD,
      "            def _visit_dir(ignored, child=child, childpath=childpath):\n"
      "                return self._deep_traverse_dirnode(child, childpath, walker, monitor, found)\n"
      "            d.addCallback(_visit_dir)\n", None),
    M("benign-classify-if-else", F, CLASSIFY_OLD, CLASSIFY_BENIGN, None),
    M("benign-nested-dedup-test", F,
      "            if (verifier is not None) and (verifier in found):\n                continue\n",
      "            if verifier is not None:\n                if verifier in found:\n                    continue\n", None),
    M("benign-dedup-not-none-form", F,
      "            if (verifier is not None) and (verifier in found):", "            if not (verifier is None or verifier not in found):", None),
    M("benign-childpath-list-copy", F, "            childpath = path + [name]\n", "            childpath = list(path) + [name]\n", None),
    M("benign-file-callback-named", F, FILE_CB_OLD, FILE_CB_BENIGN, None),
    M("benign-seed-set-literal", F, "        found = set([self.get_verify_cap()])\n",
      "        root_verifier = self.get_verify_cap()\n        found = {root_verifier}\n", None),
    M("benign-dir-callback-keyword-args", F, DIR_CB_OLD,
      "            d.addCallback(lambda ignored, child=child, childpath=childpath:\n"
      "                          self._deep_traverse_dirnode(child, childpath, walker,\n"
      "                                                      monitor=monitor, found=found))\n", None),
    M("benign-stats-size-first", S,
      "            self.add(\"count-files\")\n            size = node.get_size()\n",
      "            size = node.get_size()\n            self.add(\"count-files\")\n", None),
    M("benign-manifest-local-cap", F,
      "        self.manifest.append( (tuple(path), node.get_uri()) )",
      "        entry = (tuple(path), node.get_uri())\n        self.manifest.append(entry)", None),
    # ---- C21.8 no child is skipped on a fact about other children
    M("fastpath-all-children-seen", F, ENTER_OLD, ENTER_OLD +
      "        if children and not any(isinstance(child, UnknownNode)\n"
      "                                for (child, metadata) in children.values()):\n"
      "            if found.issuperset(child.get_verify_cap()\n"
      "                                for (child, metadata) in children.values()):\n"
      "                return d\n", "C21.8"),
    M("fastpath-all-seen-flag", F, ENTER_OLD, ENTER_OLD +
      "        unseen = [n for (n, (c, m)) in children.items()\n"
      "                  if isinstance(c, UnknownNode) or c.get_verify_cap() not in found]\n"
      "        if len(unseen) == 0:\n"
      "            return d\n", "C21.8"),
    M("fastpath-leaf-directory-returns-before-files", F,
      "        for i, (child, childpath) in enumerate(filekids):\n",
      "        if not dirkids:\n            # leaf directory: nothing to recurse into\n            return d\n"
      "        for i, (child, childpath) in enumerate(filekids):\n", "C21.8"),
    M("listing-prefiltered-by-found", F, ENTER_OLD, ENTER_OLD +
      "        children = dict((n, cm) for (n, cm) in children.items()\n"
      "                        if isinstance(cm[0], UnknownNode) or cm[0].get_verify_cap() not in found)\n", "C21.8"),
    M("queued-lit-files-dropped", F,
      "        for i, (child, childpath) in enumerate(filekids):\n",
      "        filekids = [fk for fk in filekids if fk[0].get_verify_cap() is not None]\n"
      "        for i, (child, childpath) in enumerate(filekids):\n", "C21.8"),
    M("found-superset-decides-skip", F,
      "            if (verifier is not None) and (verifier in found):\n                continue\n",
      "            if found.issuperset([verifier]):\n                continue\n", ["C21.8"]),
    M("benign-empty-listing-returns-early", F, ENTER_OLD, ENTER_OLD +
      "        if not children:\n            return d\n", None),
    M("benign-listing-hoisted-no-subdirs-return", F,
      "        for name, (child, metadata) in sorted(children.items()):\n",
      "        listing = sorted(children.items())\n        for name, (child, metadata) in listing:\n", None,
      edits=[(F, "        for (child, childpath) in dirkids:\n            d.addCallback(lambda ignored, child=child, childpath=childpath:\n",
              "        if len(dirkids) == 0:\n            return d\n"
              "        for (child, childpath) in dirkids:\n            d.addCallback(lambda ignored, child=child, childpath=childpath:\n")]),
    # ---- vanished anchors
    # the traversal functions are found by role: a consistent rename is not a change
    M("benign-children-walk-renamed", F, "    def _deep_traverse_dirnode_children(self, children, parent, path,",
      "    def _walk_children(self, children, parent, path,", None,
      edits=[(F, "        d.addCallback(self._deep_traverse_dirnode_children, node, path,", "        d.addCallback(self._walk_children, node, path,")]),
    M("vanish-deep-traverse", F, "    def deep_traverse(self, walker):", "    def deep_traverse_from(self, walker):", "ANALYSIS-ERROR"),
    M("vanish-children-walk-unreachable", F,
      "        d.addCallback(self._deep_traverse_dirnode_children, node, path,\n                      walker, monitor, found)\n",
      "        d.addCallback(lambda children: None)\n", "ANALYSIS-ERROR"),
    M("vanish-deepstats-add-node", S, "    def add_node(self, node, childpath):", "    def add_object(self, node, childpath):", "ANALYSIS-ERROR"),
]

SLIP_OLD = """            found.add(verifier)
            if IDirectoryNode.providedBy(child):
                dirkids.append( (child, childpath) )
            else:
                filekids.append( (child, childpath) )
"""
# directories recorded when entered (like the root) instead of when discovered; files still on discovery
SLIP_DIRS_ON_ENTRY = """            if IDirectoryNode.providedBy(child):
                dirkids.append( (child, childpath) )
            else:
                found.add(verifier)
                filekids.append( (child, childpath) )
"""
GEN_EDIT = [(F, TRAV_OLD, TRAV_GEN)]

MUTANTS += [
    # ---- round 6: the same traversal as an inlineCallbacks method + a splitting helper (C21-I); C21.9
    M("benign-generator-refactor", F, SEED_OLD, SEED_NEW, None, edits=GEN_EDIT),
    M("benign-generator-refactor-seeded-set-kept", F, TRAV_OLD, TRAV_GEN.replace(
        "        found.add(node.get_verify_cap())\n", ""), None),
    M("generator-refactor-dirs-recorded-on-entry", F, SEED_OLD, SEED_NEW, "C21.9",
      edits=[(F, TRAV_OLD, TRAV_GEN.replace(SLIP_OLD, SLIP_DIRS_ON_ENTRY))]),
    M("generator-refactor-dirs-recorded-on-entry-c1", F, SEED_OLD, SEED_NEW, "C21.1",
      edits=[(F, TRAV_OLD, TRAV_GEN.replace(SLIP_OLD, SLIP_DIRS_ON_ENTRY))]),
    # the same slip in the callback-chain shape: the per-directory step records the directory it enters
    M("chain-dirs-recorded-on-entry", F, SLIP_OLD, SLIP_DIRS_ON_ENTRY, "C21.9",
      edits=[(F, "        d = defer.maybeDeferred(walker.add_node, node, path)\n",
              "        found.add(node.get_verify_cap())\n        d = defer.maybeDeferred(walker.add_node, node, path)\n")]),
    # every child recorded when it is visited (inside the visit callback), none on discovery
    M("generator-refactor-recorded-when-visited", F, SEED_OLD, SEED_NEW, "C21.9",
      edits=[(F, TRAV_OLD, TRAV_GEN.replace("            found.add(verifier)\n", "").replace(
          "            yield walker.add_node(child, childpath)\n",
          "            found.add(child.get_verify_cap())\n            yield walker.add_node(child, childpath)\n"))]),
    # a third queue that the classification rules do not know: mutable files are set aside without being recorded
    M("mutable-files-queued-unrecorded", F,
      "            found.add(verifier)\n            if IDirectoryNode.providedBy(child):\n",
      "            if child.is_mutable() and not IDirectoryNode.providedBy(child):\n"
      "                filekids.insert(0, (child, childpath))\n                continue\n"
      "            found.add(verifier)\n            if IDirectoryNode.providedBy(child):\n", "C21.9"),
    # the other rules decide the generator shape too
    M("generator-refactor-queues-swapped", F, SEED_OLD, SEED_NEW, "C21.1",
      edits=[(F, TRAV_OLD, TRAV_GEN.replace("        filekids, dirkids = self._deep_traverse_new_children(",
                                            "        dirkids, filekids = self._deep_traverse_new_children("))]),
    M("generator-refactor-root-not-recorded", F, SEED_OLD, SEED_NEW, "C21.2",
      edits=[(F, TRAV_OLD, TRAV_GEN.replace("        found.add(node.get_verify_cap())\n", ""))]),
    M("generator-refactor-root-recorded-after-listing", F, SEED_OLD, SEED_NEW, "C21.2",
      edits=[(F, TRAV_OLD, TRAV_GEN.replace("        found.add(node.get_verify_cap())\n", "").replace(
          "        for i, (child, childpath) in enumerate(filekids):\n            yield walker",
          "        found.add(node.get_verify_cap())\n        for i, (child, childpath) in enumerate(filekids):\n            yield walker"))]),
    M("generator-refactor-subtree-not-awaited", F, SEED_OLD, SEED_NEW, "C21.3",
      edits=[(F, TRAV_OLD, TRAV_GEN.replace("            yield self._deep_traverse_dirnode(child, childpath,",
                                            "            self._deep_traverse_dirnode(child, childpath,"))]),
    M("generator-refactor-found-copied-per-subtree", F, SEED_OLD, SEED_NEW, "C21.3",
      edits=[(F, TRAV_OLD, TRAV_GEN.replace("                                              walker, monitor, found)\n",
                                            "                                              walker, monitor, set(found))\n"))]),
    M("generator-refactor-lists-the-root", F, SEED_OLD, SEED_NEW, "C21.2",
      edits=[(F, TRAV_OLD, TRAV_GEN.replace("        children = yield node.list()\n", "        children = yield self.list()\n"))]),
    M("generator-refactor-leaf-returns-before-files", F, SEED_OLD, SEED_NEW, "C21.8",
      edits=[(F, TRAV_OLD, TRAV_GEN.replace(
          "        for i, (child, childpath) in enumerate(filekids):\n            yield walker",
          "        if not dirkids:\n            return\n        for i, (child, childpath) in enumerate(filekids):\n            yield walker"))]),
    M("benign-generator-refactor-entry-tuple", F, SEED_OLD, SEED_NEW, None,
      edits=[(F, TRAV_OLD, TRAV_GEN.replace(SLIP_OLD, """            if verifier is not None:
                found.add(verifier)
            entry = (child, childpath)
            if IDirectoryNode.providedBy(child):
                dirkids.append(entry)
            else:
                filekids.append(entry)
"""))]),
]
