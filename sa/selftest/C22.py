from .runner import M

IMM = "src/allmydata/storage/immutable.py"
SRV = "src/allmydata/storage/server.py"

_CMP = ("            if actual_chunk != writing_chunk:\n"
        "                raise ConflictingWriteError(\n"
        "                    \"Chunk {}-{} doesn't match already written data.\".format(chunk_start, chunk_stop)\n"
        "                )\n")

MUTANTS = [
    # ---- C22.1 conflicting writes
    M("conflict-compare-deleted", IMM, _CMP, "", "C22.1"),
    M("conflict-only-logged", IMM, _CMP,
      "            if actual_chunk != writing_chunk:\n"
      "                log.msg(\"overlapping write differs\", level=log.WEIRD)\n", "C22.1"),
    M("write-before-conflict-check", IMM,
      "        end = offset + len(data)\n        for (chunk_start, chunk_stop, _) in self._already_written.ranges(offset, end):",
      "        end = offset + len(data)\n        self._sharefile.write_share_data(offset, data)\n"
      "        for (chunk_start, chunk_stop, _) in self._already_written.ranges(offset, end):",
      "C22.1", edits=[(IMM, "        self._sharefile.write_share_data(offset, data)\n\n        self._already_written.set(True, offset, end)",
                       "        self._already_written.set(True, offset, end)")]),
    M("conflict-wrong-slice", IMM,
      "            writing_chunk = data[chunk_start - offset:chunk_stop - offset]",
      "            writing_chunk = data[chunk_start:chunk_stop]", "C22.1"),
    M("conflict-range-off-by-one", IMM,
      "        end = offset + len(data)\n        for (chunk_start",
      "        end = offset + len(data) - 1\n        for (chunk_start", "C22.1"),
    M("written-range-not-recorded", IMM,
      "        self._already_written.set(True, offset, end)\n", "", "C22.1"),
    M("conflict-check-skipped-when-flag", IMM,
      "        for (chunk_start, chunk_stop, _) in self._already_written.ranges(offset, end):\n"
      "            chunk_len = chunk_stop - chunk_start\n",
      "        for (chunk_start, chunk_stop, _) in self._already_written.ranges(offset, end):\n"
      "            chunk_len = chunk_stop - chunk_start\n"
      "            if chunk_len > 65536:\n"
      "                continue\n", "C22.1"),
    # ---- C22.2 visibility
    M("container-created-in-place", IMM,
      "        self._sharefile = ShareFile(incominghome, create=True, max_size=max_size)",
      "        self._sharefile = ShareFile(finalhome, create=True, max_size=max_size)", "C22.2"),
    M("incoming-under-sharedir", SRV,
      "            incominghome = os.path.join(self.incomingdir, si_dir, \"%d\" % shnum)",
      "            incominghome = os.path.join(self.sharedir, si_dir, \"%d.tmp\" % shnum)", "C22.2"),
    M("get-shares-lists-incoming", SRV,
      "        storagedir = os.path.join(self.sharedir, storage_index_to_dir(storage_index))\n        try:",
      "        storagedir = os.path.join(self.incomingdir, storage_index_to_dir(storage_index))\n        try:", "C22.2"),
    M("publish-on-first-write", IMM,
      "        self._already_written.set(True, offset, end)\n",
      "        self._already_written.set(True, offset, end)\n"
      "        if not os.path.exists(self.finalhome):\n"
      "            fileutil.make_dirs(os.path.dirname(self.finalhome))\n"
      "            os.link(self.incominghome, self.finalhome)\n", "C22.2"),
    M("reader-opened-on-incoming", SRV,
      "            bucketreaders[shnum] = BucketReader(self, filename,\n",
      "            bucketreaders[shnum] = BucketReader(self, os.path.join(self.incomingdir, filename),\n", "C22.2"),
    # ---- C22.3 abort
    M("abort-keeps-file", IMM,
      "        os.remove(self.incominghome)\n        # if we were the last share to be moved",
      "        # if we were the last share to be moved", "C22.3"),
    M("abort-release-conditional", IMM,
      "        self.closed = True\n        self.ss.bucket_writer_closed(self, 0)\n\n"
      "        # Cancel timeout if it wasn't already cancelled.\n        if self._timeout.active():\n            self._timeout.cancel()\n",
      "        self.closed = True\n\n"
      "        # Cancel timeout if it wasn't already cancelled.\n        if self._timeout.active():\n            self._timeout.cancel()\n"
      "            self.ss.bucket_writer_closed(self, 0)\n", "C22.3"),
    M("disconnected-inverted", IMM,
      "    def disconnected(self):\n        if not self.closed:\n            self.abort()",
      "    def disconnected(self):\n        if self.closed:\n            self.abort()", "C22.3"),
    M("timeout-only-logs", IMM,
      "                facility=\"tahoe.storage\", level=log.UNUSUAL)\n        self.abort()\n\n    def abort(self):",
      "                facility=\"tahoe.storage\", level=log.UNUSUAL)\n\n    def abort(self):", "C22.3"),
    M("write-cancels-timeout", IMM,
      "        self._timeout.reset(30 * 60)\n        start = self._clock.seconds()\n        precondition(not self.closed)\n        if self.throw_out_all_data:",
      "        self._timeout.cancel()\n        start = self._clock.seconds()\n        precondition(not self.closed)\n        if self.throw_out_all_data:",
      "C22.3"),
    M("foolscap-no-disconnect-hook", SRV,
      "        for bw in bucketwriters.values():\n"
      "            disconnect_marker = canary.notifyOnDisconnect(bw.disconnected)\n"
      "            self._bucket_writer_disconnect_markers[bw] = (canary, disconnect_marker)\n", "", "C22.3"),
    M("foolscap-hook-only-first", SRV,
      "        for bw in bucketwriters.values():\n"
      "            disconnect_marker = canary.notifyOnDisconnect(bw.disconnected)\n",
      "        for bw in bucketwriters.values():\n"
      "            if self._bucket_writer_disconnect_markers:\n"
      "                continue\n"
      "            disconnect_marker = canary.notifyOnDisconnect(bw.disconnected)\n", "C22.3"),
    M("stopservice-keeps-uploads", SRV,
      "        for bw in list(self._bucket_writers.values()):\n            bw.disconnected()\n", "", "C22.3"),
    # ---- C22.4 clipped read
    M("read-not-clipped", IMM,
      "        actuallength = max(0, min(length, self._lease_offset-seekpos))",
      "        actuallength = max(0, length)", "C22.4"),
    M("read-clip-ignores-header", IMM,
      "        actuallength = max(0, min(length, self._lease_offset-seekpos))",
      "        actuallength = max(0, min(length, self._lease_offset-offset))", "C22.4"),
    M("lease-offset-ignores-leases", IMM,
      "            self._lease_offset = filesize - (num_leases * self.LEASE_SIZE)",
      "            self._lease_offset = filesize", "C22.4"),
    M("reader-drops-offset", IMM,
      "        data = self._share_file.read_share_data(offset, length)",
      "        data = self._share_file.read_share_data(0, offset + length)[offset:]", "C22.4"),
    # ---- C22.5 size guard
    M("size-guard-ignores-length", IMM,
      "        if self._max_size is not None and offset+length > self._max_size:",
      "        if self._max_size is not None and offset > self._max_size:", "C22.5"),
    M("size-guard-deleted", IMM,
      "        if self._max_size is not None and offset+length > self._max_size:\n"
      "            raise DataTooLargeError(self._max_size, offset, length)\n", "", "C22.5"),
    M("write-at-raw-offset", IMM,
      "            real_offset = self._data_offset+offset\n            f.seek(real_offset)\n            assert f.tell() == real_offset\n            f.write(data)",
      "            real_offset = offset\n            f.seek(real_offset)\n            assert f.tell() == real_offset\n            f.write(data)",
      "C22.5"),
    # ---- benign
    M("benign-eq-form", IMM, "            if actual_chunk != writing_chunk:", "            if not (actual_chunk == writing_chunk):", None),
    M("benign-inline-chunk-len", IMM,
      "            chunk_len = chunk_stop - chunk_start\n            actual_chunk = self._sharefile.read_share_data(chunk_start, chunk_len)",
      "            actual_chunk = self._sharefile.read_share_data(chunk_start, chunk_stop - chunk_start)", None),
    M("benign-rename-loop-vars", IMM,
      "        for (chunk_start, chunk_stop, _) in self._already_written.ranges(offset, end):\n"
      "            chunk_len = chunk_stop - chunk_start\n"
      "            actual_chunk = self._sharefile.read_share_data(chunk_start, chunk_len)\n"
      "            writing_chunk = data[chunk_start - offset:chunk_stop - offset]\n",
      "        for (lo, hi, _) in self._already_written.ranges(offset, offset + len(data)):\n"
      "            actual_chunk = self._sharefile.read_share_data(lo, hi - lo)\n"
      "            writing_chunk = data[lo - offset:hi - offset]\n"
      "            chunk_start, chunk_stop = lo, hi\n", None),
    M("benign-clip-reordered", IMM,
      "        actuallength = max(0, min(length, self._lease_offset-seekpos))",
      "        room = self._lease_offset - seekpos\n        actuallength = max(min(room, length), 0)", None),
    M("benign-abort-reordered", IMM,
      "        self._sharefile = None\n\n        # We are now considered closed for further writing.",
      "        # We are now considered closed for further writing.", None,
      edits=[(IMM, "        self.closed = True\n        self.ss.bucket_writer_closed(self, 0)\n",
              "        self.closed = True\n        self._sharefile = None\n        self.ss.bucket_writer_closed(self, 0)\n")]),
    M("benign-stopservice-rename", SRV,
      "        for bw in list(self._bucket_writers.values()):\n            bw.disconnected()\n",
      "        writers = list(self._bucket_writers.values())\n        for writer in writers:\n            writer.disconnected()\n", None),
    M("benign-guard-form", IMM,
      "        if self._max_size is not None and offset+length > self._max_size:",
      "        if self._max_size is not None and not (self._max_size >= length + offset):", None),
    # ---- vanished anchor
    M("vanish-abort", IMM, "    def abort(self):", "    def abort_upload(self):", "ANALYSIS-ERROR"),
]
