from .runner import M

IMM = "src/allmydata/storage/immutable.py"
SRV = "src/allmydata/storage/server.py"

_CMP = ("            if actual_chunk != writing_chunk:\n"
        "                raise ConflictingWriteError(\n"
        "                    \"Chunk {}-{} doesn't match already written data.\".format(chunk_start, chunk_stop)\n"
        "                )\n")

_ABORT_RMDIR = "            os.rmdir(parentdir)\n"
_DISC = "    def disconnected(self):\n        if not self.closed:\n            self.abort()\n"
_HELPER_BOTH = ("    def _remove_incoming_dirs(self):\n        bucketdir = os.path.dirname(self.incominghome)\n"
                "        os.rmdir(bucketdir)\n        os.rmdir(os.path.dirname(bucketdir))\n\n")

# the allocate_buckets loop restructured into 'collect the wanted shares, cut the list to what fits, create the
# writers in a second loop' (the faithful version of seeded refactor C28-I): the paths travel through a list of tuples
_ALLOC_LOOP = (
    '        for shnum in sharenums:\n'
    '            incominghome = os.path.join(self.incomingdir, si_dir, "%d" % shnum)\n'
    '            finalhome = os.path.join(self.sharedir, si_dir, "%d" % shnum)\n'
    '            if os.path.exists(finalhome):\n'
    '                # great! we already have it. easy.\n'
    '                pass\n'
    '            elif os.path.exists(incominghome):\n'
    "                # For Foolscap we don't create BucketWriters for shnums that\n"
    '                # have a partial share (in incoming/), so if a second upload\n'
    '                # occurs while the first is still in progress, the second\n'
    '                # uploader will use different storage servers.\n'
    '                pass\n'
    '            elif (not limited) or (remaining_space >= max_space_per_bucket):\n'
    '                # ok! we need to create the new share file.\n'
    '                bw = BucketWriter(self, incominghome, finalhome,\n'
    '                                  max_space_per_bucket, lease_info,\n'
    '                                  clock=self._clock)\n'
    '                if self.no_storage:\n'
    '                    # Really this should be done by having a separate class for\n'
    '                    # this situation; see\n'
    '                    # https://tahoe-lafs.org/trac/tahoe-lafs/ticket/3862\n'
    '                    bw.throw_out_all_data = True\n'
    '                bucketwriters[shnum] = bw\n'
    '                self._bucket_writers[incominghome] = bw\n'
    '                if limited:\n'
    '                    remaining_space -= max_space_per_bucket\n'
    '            else:\n'
    '                # bummer! not enough space to accept this bucket\n'
    '                pass\n'
    '\n'
)

_ALLOC_TWO_PASS = (
    '        # Work out which of the requested shares need a new BucketWriter. We\n'
    '        # skip the ones we already have (great! easy), and for Foolscap we\n'
    "        # also don't create BucketWriters for shnums that have a partial\n"
    '        # share (in incoming/), so if a second upload occurs while the first\n'
    '        # is still in progress, the second uploader will use different\n'
    '        # storage servers.\n'
    '        wanted = []\n'
    '        for shnum in sharenums:\n'
    '            incominghome = os.path.join(self.incomingdir, si_dir, "%d" % shnum)\n'
    '            finalhome = os.path.join(self.sharedir, si_dir, "%d" % shnum)\n'
    '            if os.path.exists(finalhome) or os.path.exists(incominghome):\n'
    '                continue\n'
    '            wanted.append((shnum, incominghome, finalhome))\n'
    '\n'
    '        if limited:\n'
    '            # every new bucket reserves max_space_per_bucket, so only this\n'
    '            # many of them fit in what is left. bummer for the rest: not\n'
    '            # enough space to accept them.\n'
    '            if max_space_per_bucket > 0:\n'
    '                wanted = wanted[:max(0, remaining_space // max_space_per_bucket)]\n'
    '            elif remaining_space < 0:\n'
    '                wanted = []\n'
    '\n'
    '        for (shnum, incominghome, finalhome) in wanted:\n'
    '            # ok! we need to create the new share file.\n'
    '            bw = BucketWriter(self, incominghome, finalhome,\n'
    '                              max_space_per_bucket, lease_info,\n'
    '                              clock=self._clock)\n'
    '            if self.no_storage:\n'
    '                # Really this should be done by having a separate class for\n'
    '                # this situation; see\n'
    '                # https://tahoe-lafs.org/trac/tahoe-lafs/ticket/3862\n'
    '                bw.throw_out_all_data = True\n'
    '            bucketwriters[shnum] = bw\n'
    '            self._bucket_writers[incominghome] = bw\n'
    '\n'
)

MUTANTS = [
    # ---- C22.1 conflicting writes
    M("conflict-compare-deleted", IMM, _CMP, "", "C22.1"),
    M("conflict-only-logged", IMM, _CMP,
      "            if actual_chunk != writing_chunk:\n"
      "                log.msg(\"overlapping write differs\", level=log.WEIRD)\n", "C22.1"),
    M("write-before-conflict-check", IMM,
      "        end = offset + len(data)\n        for (chunk_start, chunk_stop, _) in self._already_written.ranges(offset, end):",
      "        end = offset + len(data)\n        self._sharefile.write_share_data(offset, data)\n"
      "        for (chunk_start, chunk_stop, _) in self._already_written.ranges(offset, end):",
      "C22.1", edits=[(IMM, "        self._sharefile.write_share_data(offset, data)\n\n        self._already_written.set(True, offset, end)",
                       "        self._already_written.set(True, offset, end)")]),
    M("conflict-wrong-slice", IMM,
      "            writing_chunk = data[chunk_start - offset:chunk_stop - offset]",
      "            writing_chunk = data[chunk_start:chunk_stop]", "C22.1"),
    M("conflict-range-off-by-one", IMM,
      "        end = offset + len(data)\n        for (chunk_start",
      "        end = offset + len(data) - 1\n        for (chunk_start", "C22.1"),
    M("written-range-not-recorded", IMM,
      "        self._already_written.set(True, offset, end)\n", "", "C22.1"),
    M("conflict-check-skipped-when-flag", IMM,
      "        for (chunk_start, chunk_stop, _) in self._already_written.ranges(offset, end):\n"
      "            chunk_len = chunk_stop - chunk_start\n",
      "        for (chunk_start, chunk_stop, _) in self._already_written.ranges(offset, end):\n"
      "            chunk_len = chunk_stop - chunk_start\n"
      "            if chunk_len > 65536:\n"
      "                continue\n", "C22.1"),
    # ---- C22.2 visibility
    M("container-created-in-place", IMM,
      "        self._sharefile = ShareFile(incominghome, create=True, max_size=max_size)",
      "        self._sharefile = ShareFile(finalhome, create=True, max_size=max_size)", "C22.2"),
    M("incoming-under-sharedir", SRV,
      "            incominghome = os.path.join(self.incomingdir, si_dir, \"%d\" % shnum)",
      "            incominghome = os.path.join(self.sharedir, si_dir, \"%d.tmp\" % shnum)", "C22.2"),
    M("get-shares-lists-incoming", SRV,
      "        storagedir = os.path.join(self.sharedir, storage_index_to_dir(storage_index))\n        try:",
      "        storagedir = os.path.join(self.incomingdir, storage_index_to_dir(storage_index))\n        try:", "C22.2"),
    M("publish-on-first-write", IMM,
      "        self._already_written.set(True, offset, end)\n",
      "        self._already_written.set(True, offset, end)\n"
      "        if not os.path.exists(self.finalhome):\n"
      "            fileutil.make_dirs(os.path.dirname(self.finalhome))\n"
      "            os.link(self.incominghome, self.finalhome)\n", "C22.2"),
    M("reader-opened-on-incoming", SRV,
      "            bucketreaders[shnum] = BucketReader(self, filename,\n",
      "            bucketreaders[shnum] = BucketReader(self, os.path.join(self.incomingdir, filename),\n", "C22.2"),
    # ---- C22.3 abort
    M("abort-keeps-file", IMM,
      "        os.remove(self.incominghome)\n        # if we were the last share to be moved",
      "        # if we were the last share to be moved", "C22.3"),
    M("abort-release-conditional", IMM,
      "        self.closed = True\n        self.ss.bucket_writer_closed(self, 0)\n\n"
      "        # Cancel timeout if it wasn't already cancelled.\n        if self._timeout.active():\n            self._timeout.cancel()\n",
      "        self.closed = True\n\n"
      "        # Cancel timeout if it wasn't already cancelled.\n        if self._timeout.active():\n            self._timeout.cancel()\n"
      "            self.ss.bucket_writer_closed(self, 0)\n", "C22.3"),
    M("disconnected-inverted", IMM,
      "    def disconnected(self):\n        if not self.closed:\n            self.abort()",
      "    def disconnected(self):\n        if self.closed:\n            self.abort()", "C22.3"),
    M("timeout-only-logs", IMM,
      "                facility=\"tahoe.storage\", level=log.UNUSUAL)\n        self.abort()\n\n    def abort(self):",
      "                facility=\"tahoe.storage\", level=log.UNUSUAL)\n\n    def abort(self):", "C22.3"),
    M("write-cancels-timeout", IMM,
      "        self._timeout.reset(30 * 60)\n        start = self._clock.seconds()\n        precondition(not self.closed)\n        if self.throw_out_all_data:",
      "        self._timeout.cancel()\n        start = self._clock.seconds()\n        precondition(not self.closed)\n        if self.throw_out_all_data:",
      "C22.3"),
    M("foolscap-no-disconnect-hook", SRV,
      "        for bw in bucketwriters.values():\n"
      "            disconnect_marker = canary.notifyOnDisconnect(bw.disconnected)\n"
      "            self._bucket_writer_disconnect_markers[bw] = (canary, disconnect_marker)\n", "", "C22.3"),
    M("foolscap-hook-only-first", SRV,
      "        for bw in bucketwriters.values():\n"
      "            disconnect_marker = canary.notifyOnDisconnect(bw.disconnected)\n",
      "        for bw in bucketwriters.values():\n"
      "            if self._bucket_writer_disconnect_markers:\n"
      "                continue\n"
      "            disconnect_marker = canary.notifyOnDisconnect(bw.disconnected)\n", "C22.3"),
    M("stopservice-keeps-uploads", SRV,
      "        for bw in list(self._bucket_writers.values()):\n            bw.disconnected()\n", "", "C22.3"),
    # ---- C22.4 clipped read
    M("read-not-clipped", IMM,
      "        actuallength = max(0, min(length, self._lease_offset-seekpos))",
      "        actuallength = max(0, length)", "C22.4"),
    M("read-clip-ignores-header", IMM,
      "        actuallength = max(0, min(length, self._lease_offset-seekpos))",
      "        actuallength = max(0, min(length, self._lease_offset-offset))", "C22.4"),
    M("lease-offset-ignores-leases", IMM,
      "            self._lease_offset = filesize - (num_leases * self.LEASE_SIZE)",
      "            self._lease_offset = filesize", "C22.4"),
    M("reader-drops-offset", IMM,
      "        data = self._share_file.read_share_data(offset, length)",
      "        data = self._share_file.read_share_data(0, offset + length)[offset:]", "C22.4"),
    # ---- C22.5 size guard
    M("size-guard-ignores-length", IMM,
      "        if self._max_size is not None and offset+length > self._max_size:",
      "        if self._max_size is not None and offset > self._max_size:", "C22.5"),
    M("size-guard-deleted", IMM,
      "        if self._max_size is not None and offset+length > self._max_size:\n"
      "            raise DataTooLargeError(self._max_size, offset, length)\n", "", "C22.5"),
    M("write-at-raw-offset", IMM,
      "            real_offset = self._data_offset+offset\n            f.seek(real_offset)\n            assert f.tell() == real_offset\n            f.write(data)",
      "            real_offset = offset\n            f.seek(real_offset)\n            assert f.tell() == real_offset\n            f.write(data)",
      "C22.5"),
    # ---- gap review (mutation sweep survivors)
    # C22.6 bytes dropped only in discard mode
    M("discard-test-inverted", IMM,
      "        if self.throw_out_all_data:\n            return False\n",
      "        if not self.throw_out_all_data:\n            return False\n", "C22.6"),
    M("discard-when-storage-enabled", SRV,
      "                if self.no_storage:\n", "                if not self.no_storage:\n", "C22.6"),
    M("discard-every-writer", SRV,
      "                if self.no_storage:\n"
      "                    # Really this should be done by having a separate class for\n"
      "                    # this situation; see\n"
      "                    # https://tahoe-lafs.org/trac/tahoe-lafs/ticket/3862\n"
      "                    bw.throw_out_all_data = True\n",
      "                bw.throw_out_all_data = True\n", "C22.6"),
    M("discard-default-on", SRV,
      "                 discard_storage=False, readonly_storage=False,",
      "                 discard_storage=True, readonly_storage=False,", "C22.6"),
    M("write-skipped-when-range-known", IMM,
      "        self._sharefile.write_share_data(offset, data)\n\n        self._already_written.set(True, offset, end)",
      "        if self._already_written.ranges(offset, end):\n            return self._is_finished()\n"
      "        self._sharefile.write_share_data(offset, data)\n\n        self._already_written.set(True, offset, end)",
      "C22.6"),
    # C22.7 no second upload of the same share
    M("realloc-over-complete-share", SRV,
      "            if os.path.exists(finalhome):\n", "            if not os.path.exists(finalhome):\n", "C22.7"),
    M("complete-share-check-dropped", SRV,
      "            if os.path.exists(finalhome):\n"
      "                # great! we already have it. easy.\n"
      "                pass\n"
      "            elif os.path.exists(incominghome):\n",
      "            if os.path.exists(incominghome):\n", "C22.7"),
    M("inprogress-share-truncated", SRV,
      "            elif os.path.exists(incominghome):\n", "            elif not os.path.exists(incominghome):\n", "C22.7",
      edits=[(IMM, "            assert not os.path.exists(self.home)\n", "")]),
    # C22.3 directory tidying / crash leftovers
    M("abort-rmdir-test-inverted", IMM,
      "        if not os.listdir(parentdir):\n            os.rmdir(parentdir)\n",
      "        if os.listdir(parentdir):\n            os.rmdir(parentdir)\n", "C22.3"),
    M("abort-rmdir-unconditional", IMM,
      "        if not os.listdir(parentdir):\n            os.rmdir(parentdir)\n",
      "        os.rmdir(parentdir)\n", "C22.3"),
    M("close-rmdir-outside-try", IMM,
      "        fileutil.rename(self.incominghome, self.finalhome)\n        try:\n",
      "        fileutil.rename(self.incominghome, self.finalhome)\n"
      "        os.rmdir(os.path.dirname(self.incominghome))\n        try:\n", "C22.3"),
    M("incoming-not-wiped-at-start", SRV,
      "        self._clean_incomplete()\n", "", "C22.3"),
    M("clean-incomplete-only-logs", SRV,
      "    def _clean_incomplete(self):\n        fileutil.rm_dir(self.incomingdir)\n",
      "    def _clean_incomplete(self):\n        log.msg(\"leaving %s in place\" % self.incomingdir)\n", "C22.3"),
    # C22.4 / C22.5 negative offsets, reported length
    M("read-negative-offset-allowed", IMM,
      "        precondition(offset >= 0)\n        # reads beyond the end", "        # reads beyond the end", "C22.4"),
    M("share-length-off-by-one", IMM,
      "            self._length = filesize - 0xc - (num_leases * self.LEASE_SIZE)",
      "            self._length = filesize - 0xd - (num_leases * self.LEASE_SIZE)", "C22.4"),
    M("share-length-includes-leases", IMM,
      "            self._length = filesize - 0xc - (num_leases * self.LEASE_SIZE)",
      "            self._length = filesize - 0xc", "C22.4"),
    M("write-negative-offset-allowed", IMM,
      "        precondition(offset >= 0, offset)\n", "", "C22.5"),
    M("write-offset-check-args-swapped", IMM,
      "        precondition(offset >= 0, offset)\n", "        precondition(offset, offset >= 0)\n", "C22.5"),
    # ---- benign
    M("benign-discard-flag-hoisted", IMM,
      "        if self.throw_out_all_data:\n            return False\n",
      "        discard = self.throw_out_all_data\n        if discard:\n            return False\n", None),
    M("benign-empty-write-shortcut", IMM,
      "        if self.throw_out_all_data:\n            return False\n",
      "        if self.throw_out_all_data or not data:\n            return False\n", None),
    M("benign-exists-checks-merged", SRV,
      "            if os.path.exists(finalhome):\n"
      "                # great! we already have it. easy.\n"
      "                pass\n"
      "            elif os.path.exists(incominghome):\n",
      "            if os.path.exists(incominghome) or os.path.exists(finalhome):\n"
      "                continue\n"
      "            elif False:\n", None),
    M("benign-exists-double-negation", SRV,
      "            if os.path.exists(finalhome):\n", "            if not (not os.path.exists(finalhome)):\n", None),
    M("benign-abort-rmdir-in-try", IMM,
      "        if not os.listdir(parentdir):\n            os.rmdir(parentdir)\n",
      "        try:\n            os.rmdir(parentdir)\n        except OSError:\n            pass\n", None),
    M("benign-abort-listdir-len", IMM,
      "        if not os.listdir(parentdir):\n            os.rmdir(parentdir)\n",
      "        leftover = os.listdir(parentdir)\n        if not leftover:\n            os.rmdir(parentdir)\n", None),
    M("benign-clean-incomplete-inlined", SRV,
      "        self._clean_incomplete()\n", "        fileutil.rm_dir(self.incomingdir)\n", None),
    M("benign-read-offset-check-form", IMM,
      "        precondition(offset >= 0)\n        # reads beyond the end",
      "        precondition(not offset < 0)\n        # reads beyond the end", None),
    M("benign-write-offset-check-form", IMM,
      "        precondition(offset >= 0, offset)\n", "        precondition(0 <= offset, offset)\n", None),
    M("benign-length-from-lease-offset", IMM,
      "            self._length = filesize - 0xc - (num_leases * self.LEASE_SIZE)",
      "            self._length = self._lease_offset - 0xc", None),
    M("benign-eq-form", IMM, "            if actual_chunk != writing_chunk:", "            if not (actual_chunk == writing_chunk):", None),
    M("benign-inline-chunk-len", IMM,
      "            chunk_len = chunk_stop - chunk_start\n            actual_chunk = self._sharefile.read_share_data(chunk_start, chunk_len)",
      "            actual_chunk = self._sharefile.read_share_data(chunk_start, chunk_stop - chunk_start)", None),
    M("benign-rename-loop-vars", IMM,
      "        for (chunk_start, chunk_stop, _) in self._already_written.ranges(offset, end):\n"
      "            chunk_len = chunk_stop - chunk_start\n"
      "            actual_chunk = self._sharefile.read_share_data(chunk_start, chunk_len)\n"
      "            writing_chunk = data[chunk_start - offset:chunk_stop - offset]\n",
      "        for (lo, hi, _) in self._already_written.ranges(offset, offset + len(data)):\n"
      "            actual_chunk = self._sharefile.read_share_data(lo, hi - lo)\n"
      "            writing_chunk = data[lo - offset:hi - offset]\n"
      "            chunk_start, chunk_stop = lo, hi\n", None),
    M("benign-clip-reordered", IMM,
      "        actuallength = max(0, min(length, self._lease_offset-seekpos))",
      "        room = self._lease_offset - seekpos\n        actuallength = max(min(room, length), 0)", None),
    M("benign-abort-reordered", IMM,
      "        self._sharefile = None\n\n        # We are now considered closed for further writing.",
      "        # We are now considered closed for further writing.", None,
      edits=[(IMM, "        self.closed = True\n        self.ss.bucket_writer_closed(self, 0)\n",
              "        self.closed = True\n        self._sharefile = None\n        self.ss.bucket_writer_closed(self, 0)\n")]),
    M("benign-stopservice-rename", SRV,
      "        for bw in list(self._bucket_writers.values()):\n            bw.disconnected()\n",
      "        writers = list(self._bucket_writers.values())\n        for writer in writers:\n            writer.disconnected()\n", None),
    M("benign-guard-form", IMM,
      "        if self._max_size is not None and offset+length > self._max_size:",
      "        if self._max_size is not None and not (self._max_size >= length + offset):", None),
    # ---- C22.8 directory tidying through a helper
    # (seeded C22-F) the helper removes bucket and prefix directory; abort calls it outside a try
    M("abort-tidies-through-raising-helper", IMM, _ABORT_RMDIR, "            self._remove_incoming_dirs()\n", "C22.8",
      edits=[(IMM, _DISC, _HELPER_BOTH + _DISC)]),
    # the same through a module-level function that is handed the path
    M("abort-tidies-through-module-function", IMM, _ABORT_RMDIR, "            _tidy_incoming(self.incominghome)\n", "C22.8",
      edits=[(IMM, "@implementer(RIBucketWriter)\nclass FoolscapBucketWriter",
              "def _tidy_incoming(incominghome):\n    bucketdir = os.path.dirname(incominghome)\n    os.rmdir(bucketdir)\n"
              "    os.rmdir(os.path.dirname(bucketdir))\n\n\n@implementer(RIBucketWriter)\nclass FoolscapBucketWriter")]),
    # close: the helper is called before the try instead of inside it
    M("close-helper-outside-try", IMM,
      "        fileutil.rename(self.incominghome, self.finalhome)\n        try:\n",
      "        fileutil.rename(self.incominghome, self.finalhome)\n        self._remove_incoming_dirs()\n        try:\n", "C22.8",
      edits=[(IMM, _DISC, _HELPER_BOTH + _DISC)]),
    # the helper catches the error only to log and re-raise it
    M("abort-helper-reraises", IMM, _ABORT_RMDIR, "            self._remove_incoming_dirs()\n", "C22.8",
      edits=[(IMM, _DISC,
              "    def _remove_incoming_dirs(self):\n        bucketdir = os.path.dirname(self.incominghome)\n        try:\n"
              "            os.rmdir(bucketdir)\n            os.rmdir(os.path.dirname(bucketdir))\n        except EnvironmentError:\n"
              "            log.msg(\"could not tidy %s\" % bucketdir)\n            raise\n\n" + _DISC)]),
    # os.removedirs fails just like os.rmdir when the leaf directory still has a sibling share
    M("abort-removedirs-unguarded", IMM, "        if not os.listdir(parentdir):\n            os.rmdir(parentdir)\n",
      "        os.removedirs(parentdir)\n", "C22.8"),
    M("benign-abort-helper-swallows", IMM, _ABORT_RMDIR, "            self._remove_incoming_dirs()\n", None,
      edits=[(IMM, _DISC,
              "    def _remove_incoming_dirs(self):\n        bucketdir = os.path.dirname(self.incominghome)\n        try:\n"
              "            os.rmdir(bucketdir)\n            os.rmdir(os.path.dirname(bucketdir))\n        except EnvironmentError:\n"
              "            pass\n\n" + _DISC)]),
    M("benign-abort-helper-call-in-try", IMM, _ABORT_RMDIR,
      "            try:\n                self._remove_incoming_dirs()\n            except OSError:\n                pass\n", None,
      edits=[(IMM, _DISC, _HELPER_BOTH + _DISC)]),
    # the helper removes only the bucket directory, which abort has just seen empty
    M("benign-abort-helper-bucketdir-only", IMM, _ABORT_RMDIR, "            self._remove_bucket_dir()\n", None,
      edits=[(IMM, _DISC, "    def _remove_bucket_dir(self):\n        os.rmdir(os.path.dirname(self.incominghome))\n\n" + _DISC)]),
    # the helper does its own emptiness test
    M("benign-abort-helper-tests-empty", IMM, "        if not os.listdir(parentdir):\n            os.rmdir(parentdir)\n",
      "        self._remove_bucket_dir_if_empty()\n", None,
      edits=[(IMM, _DISC, "    def _remove_bucket_dir_if_empty(self):\n        bucketdir = os.path.dirname(self.incominghome)\n"
              "        if not os.listdir(bucketdir):\n            os.rmdir(bucketdir)\n\n" + _DISC)]),
    M("benign-close-through-helper-in-try", IMM,
      "            os.rmdir(os.path.dirname(self.incominghome))\n            # we also delete the grandparent",
      "            self._remove_incoming_dirs()\n            # we also delete the grandparent", None,
      edits=[(IMM, _DISC, _HELPER_BOTH + _DISC)]),
    # ---- vanished anchor
    # ---- refactored shape: paths carried from a first loop to the BucketWriter call through a list of tuples
    M("benign-alloc-two-pass-faithful", SRV, _ALLOC_LOOP, _ALLOC_TWO_PASS, None),
    M("benign-alloc-two-pass-sorted", SRV, _ALLOC_LOOP,
      _ALLOC_TWO_PASS.replace("in wanted:", "in sorted(wanted):"), None),
    M("two-pass-tuple-order-swapped", SRV, _ALLOC_LOOP,
      _ALLOC_TWO_PASS.replace("wanted.append((shnum, incominghome, finalhome))", "wanted.append((shnum, finalhome, incominghome))"),
      "C22.2"),
    M("two-pass-incoming-under-sharedir", SRV, _ALLOC_LOOP,
      _ALLOC_TWO_PASS.replace("os.path.join(self.incomingdir, si_dir,", "os.path.join(self.sharedir, si_dir, \"incoming\","),
      "C22.2"),
    M("two-pass-complete-share-check-dropped", SRV, _ALLOC_LOOP,
      _ALLOC_TWO_PASS.replace("            if os.path.exists(finalhome) or os.path.exists(incominghome):\n",
                              "            if os.path.exists(incominghome):\n"), "C22.7"),
    M("two-pass-check-only-logs", SRV, _ALLOC_LOOP,
      _ALLOC_TWO_PASS.replace("                continue\n", "                log.msg(\"share %d already here\" % shnum)\n"), "C22.7"),
    M("two-pass-list-fed-by-extend", SRV, _ALLOC_LOOP,
      _ALLOC_TWO_PASS.replace("wanted.append((shnum, incominghome, finalhome))", "wanted.extend([(shnum, incominghome, finalhome)])"),
      "ANALYSIS-ERROR"),
    M("vanish-abort", IMM, "    def abort(self):", "    def abort_upload(self):", "ANALYSIS-ERROR"),
]
