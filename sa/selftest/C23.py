from .runner import M

MUT = "src/allmydata/storage/mutable.py"
SRV = "src/allmydata/storage/server.py"
SCH = "src/allmydata/storage/mutable_schema.py"

ZERO_BLOCK = ("            if offset > data_length:\n"
              "                f.seek(self.DATA_OFFSET+data_length)\n"
              "                f.write(b'\\x00'*(offset - data_length))\n"
              "                f.flush()\n")
CCS_ZERO = ("        f.seek(old_extra_lease_offset)\n"
            "        f.write(b'\\x00' * leases_size)\n"
            "        f.flush()\n")

MUTANTS = [
    # ---- C23.1 zero fill / length update / data write
    M("zero-fill-dropped", MUT, ZERO_BLOCK, "", "C23.1"),
    M("zero-fill-wrong-start", MUT, "                f.seek(self.DATA_OFFSET+data_length)\n",
      "                f.seek(self.DATA_OFFSET+offset)\n", "C23.1"),
    M("zero-fill-short", MUT, "f.write(b'\\x00'*(offset - data_length))", "f.write(b'\\x00'*(offset - data_length - 1))", "C23.1"),
    M("length-update-only-when-starting-past-end", MUT, "        if offset+length >= data_length:",
      "        if offset >= data_length:", "C23.1"),
    M("length-always-rewritten", MUT, "        if offset+length >= data_length:",
      "        if offset+length >= 0:", "C23.1"),
    M("new-length-append-semantics", MUT, "            new_data_length = offset+length\n",
      "            new_data_length = data_length+length\n", "C23.1"),
    M("data-at-wrong-offset", MUT, "        f.seek(self.DATA_OFFSET+offset)\n        f.write(data)\n",
      "        f.seek(self.HEADER_SIZE+offset)\n        f.write(data)\n", "C23.1"),
    # ---- C23.2 container growth / lease relocation
    M("growth-test-forgets-data-offset", MUT, "            if self.DATA_OFFSET+offset+length > extra_lease_offset:",
      "            if offset+length > extra_lease_offset:", "C23.2"),
    M("growth-too-small", MUT, "                self._change_container_size(f, offset+length)",
      "                self._change_container_size(f, offset)", "C23.2"),
    M("lease-block-written-elsewhere", MUT, "        f.seek(new_extra_lease_offset)\n        f.write(extra_lease_data)\n",
      "        f.seek(new_extra_lease_offset + 4)\n        f.write(extra_lease_data)\n", "C23.2"),
    M("lease-block-size-without-count", MUT, "        leases_size = 4 + num_extra_leases * self.LEASE_SIZE\n",
      "        leases_size = num_extra_leases * self.LEASE_SIZE\n", "C23.2"),
    M("zero-after-writeback", MUT, CCS_ZERO, "", "C23.2",
      edits=[(MUT, "        f.write(extra_lease_data)\n", "        f.write(extra_lease_data)\n" + CCS_ZERO)]),
    M("zero-before-read", MUT, "        f.seek(old_extra_lease_offset)\n        leases_size = 4 + num_extra_leases * self.LEASE_SIZE\n",
      "        leases_size = 4 + num_extra_leases * self.LEASE_SIZE\n" + CCS_ZERO + "        f.seek(old_extra_lease_offset)\n", "C23.2"),
    M("new-lease-offset-not-recorded", MUT, "        self._write_extra_lease_offset(f, new_extra_lease_offset)\n", "", "C23.2"),
    M("fit-assert-strict", MUT, "            assert self.DATA_OFFSET+offset+length <= extra_lease_offset\n",
      "            assert self.DATA_OFFSET+offset+length < extra_lease_offset\n", "C23.2",
      note="after growth the data ends exactly at the extra-lease offset: a strict assert fails every growing write"),
    # ---- C23.3 clipped reads
    M("clip-without-max", MUT, "            length = max(0, data_length-offset)\n", "            length = data_length-offset\n", "C23.3"),
    M("clip-condition-ignores-length", MUT, "        if offset+length > data_length:\n            # reads beyond",
      "        if offset > data_length:\n            # reads beyond", "C23.3"),
    M("read-at-wrong-offset", MUT, "        f.seek(self.DATA_OFFSET+offset)\n        data = f.read(length)\n",
      "        f.seek(self.HEADER_SIZE+offset)\n        data = f.read(length)\n", "C23.3"),
    M("empty-read-threshold", MUT, "        if length == 0:\n            return b\"\"\n", "        if length <= 1:\n            return b\"\"\n", "C23.3"),
    M("readv-swaps-offset-length", MUT, "datav.append(self._read_share_data(f, offset, length))",
      "datav.append(self._read_share_data(f, length, offset))", "C23.3"),
    M("read-precondition-strict", MUT, "        precondition(offset+length <= data_length)\n", "        precondition(offset+length < data_length)\n", "C23.3"),
    M("readv-returns-nothing", MUT, "        return datav\n\n    def get_length", "        return None\n\n    def get_length", "C23.3"),
    # ---- C23.4 writev
    M("truncate-also-extends", MUT, "                if new_length < cur_length:", "                if new_length != cur_length:", "C23.4"),
    M("truncate-dropped", MUT, "                    self._write_data_length(f, new_length)\n", "                    pass\n", "C23.4"),
    M("truncate-against-stale-length", MUT, "                cur_length = self._read_data_length(f)\n", "", "C23.4",
      edits=[(MUT, "            for (offset, data) in datav:\n                self._write_share_data(f, offset, data)\n",
              "            cur_length = self._read_data_length(f)\n            for (offset, data) in datav:\n"
              "                self._write_share_data(f, offset, data)\n")]),
    M("truncate-chops-the-file", MUT, "                    self._write_data_length(f, new_length)\n",
      "                    self._write_data_length(f, new_length)\n                    f.truncate(self.DATA_OFFSET + new_length)\n",
      ["C23.4", "C23.6"]),
    M("writev-only-first-vector", MUT, "                self._write_share_data(f, offset, data)\n            if new_length is not None:",
      "                self._write_share_data(f, offset, data)\n                break\n            if new_length is not None:", "C23.4"),
    # ---- C23.5 deletion
    M("zero-length-not-recognised", SRV, "            if new_length == 0:\n                if sharenum in shares:",
      "            if new_length is None:\n                if sharenum in shares:", "C23.5"),
    M("unlink-dropped", SRV, "                    shares[sharenum].unlink()\n", "                    pass\n", "C23.5"),
    M("zero-length-truncates-instead", SRV,
      "            if new_length == 0:\n                if sharenum in shares:\n                    shares[sharenum].unlink()\n            else:\n",
      "            if new_length == 0 and not datav:\n                if sharenum in shares:\n                    shares[sharenum].unlink()\n            else:\n",
      "C23.5"),
    M("writev-args-swapped-vector", SRV, "shares[sharenum].writev(datav, new_length)", "shares[sharenum].writev(datav, None)", "C23.5"),
    # ---- C23.6 lease isolation / header fields
    M("writev-resets-extra-leases", MUT, "                    self._write_data_length(f, new_length)\n",
      "                    self._write_data_length(f, new_length)\n                    self._write_num_extra_leases(f, 0)\n",
      ["C23.6"]),
    M("length-field-at-wrong-offset", MUT, "    def _write_data_length(self, f, data_length):\n        f.seek(self.DATA_LENGTH_OFFSET)",
      "    def _write_data_length(self, f, data_length):\n        f.seek(self.EXTRA_LEASE_OFFSET)", "C23.6"),
    M("length-field-format-mismatch", MUT, "        f.write(struct.pack(\">Q\", data_length))", "        f.write(struct.pack(\">L\", data_length))", "C23.6"),
    M("header-fields-swapped", SCH, "        # data length, initially the container is empty\n        0,\n        extra_lease_offset,\n",
      "        extra_lease_offset,\n        0,\n", "C23.6"),
    M("fresh-container-lease-offset", SCH, "_EXTRA_LEASE_OFFSET = _HEADER_SIZE + 4 * LeaseInfo().mutable_size()",
      "_EXTRA_LEASE_OFFSET = _HEADER_SIZE + 3 * LeaseInfo().mutable_size()", "C23.6"),
    M("five-blank-lease-slots", SCH, "    blank_leases = b\"\\x00\" * LeaseInfo().mutable_size() * 4\n",
      "    blank_leases = b\"\\x00\" * LeaseInfo().mutable_size() * 5\n", "C23.6"),
    M("fresh-container-one-extra-lease", SCH, "    extra_lease_count = struct.pack(\">L\", 0)\n", "    extra_lease_count = struct.pack(\">L\", 1)\n", "C23.6"),
    # ---- C23.7 test vectors
    M("missing-share-always-matches", MUT, "            data = b\"\"\n", "            data = specimen\n", "C23.7"),
    M("failing-vector-not-recorded", MUT, "                    test_good = False\n                    break\n",
      "                    break\n", "C23.7"),
    M("testv-compare-inverted", MUT, "    return a == b\n", "    return a != b\n", "C23.7"),
    M("testv-against-whole-share", MUT, "                data = self._read_share_data(f, offset, length)\n",
      "                data = self._read_share_data(f, 0, length)\n", "C23.7"),
    # ---- behaviour-preserving
    M("benign-gap-test-negated", MUT, "            if offset > data_length:\n", "            if not (offset <= data_length):\n", None),
    M("benign-hoisted-end", MUT, "        if offset+length >= data_length:", "        end = offset+length\n        if end >= data_length:", None),
    M("benign-bytes-ctor", MUT, "f.write(b'\\x00'*(offset - data_length))", "f.write(bytes(offset - data_length))", None),
    M("benign-truncate-flipped", MUT, "                if new_length < cur_length:", "                if cur_length > new_length:", None),
    M("benign-return-read-directly", MUT, "        data = f.read(length)\n        return data\n", "        return f.read(length)\n", None),
    M("benign-renamed-locals", MUT, "        extra_lease_data = f.read(leases_size)\n", "        blob = f.read(leases_size)\n", None,
      edits=[(MUT, "        f.write(extra_lease_data)\n", "        f.write(blob)\n")]),
    M("benign-zero-test-reordered", SRV, "            if new_length == 0:\n                if sharenum in shares:",
      "            if 0 == new_length:\n                if sharenum in shares:", None),
    M("benign-size-validation-pass-first", SRV, "        remaining_shares = {}\n\n        for sharenum in test_and_write_vectors:",
      "        remaining_shares = {}\n\n        for sharenum in test_and_write_vectors:\n"
      "            for (offset, data) in test_and_write_vectors[sharenum][1]:\n"
      "                if offset + len(data) > MutableShareFile.MAX_SIZE:\n"
      "                    raise ValueError(\"share too large\")\n\n        for sharenum in test_and_write_vectors:", None,
      note="a separate validation loop over the same dict (the repair of the C24.8 finding) is not the apply loop"),
    # ---- vanished anchor
    M("vanish-write-share-data", MUT, "    def _write_share_data(self, f, offset, data):", "    def _write_share_dataX(self, f, offset, data):",
      "ANALYSIS-ERROR"),
]
