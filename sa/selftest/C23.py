from .runner import M

MUT = "src/allmydata/storage/mutable.py"
SRV = "src/allmydata/storage/server.py"
SCH = "src/allmydata/storage/mutable_schema.py"
HTTP = "src/allmydata/storage/http_server.py"
HC = "src/allmydata/storage/http_client.py"
SC = "src/allmydata/storage_client.py"

HTTP_TRY = ("        try:\n"
            "            success, read_data = self._storage_server.slot_testv_and_readv_and_writev(\n")
HTTP_TW_ARG = ("                {\n"
               "                    k: (\n"
               "                        [\n"
               "                            (d[\"offset\"], d[\"size\"], b\"eq\", d[\"specimen\"])\n"
               "                            for d in v[\"test\"]\n"
               "                        ],\n"
               "                        [(d[\"offset\"], d[\"data\"]) for d in v[\"write\"]],\n"
               "                        v[\"new-length\"],\n"
               "                    )\n"
               "                    for (k, v) in rtw_request[\"test-write-vectors\"].items()\n"
               "                },\n")
HTTP_TEST_ELT = "(d[\"offset\"], d[\"size\"], b\"eq\", d[\"specimen\"])"
HTTP_RV_ARG = "                [(d[\"offset\"], d[\"size\"]) for d in rtw_request[\"read-vector\"]],\n"


def http_tw_loop(size):
    """The handler's test-and-write vectors built by statement loops instead of comprehensions."""
    return ("        tw_vectors = {}\n"
            "        for (k, v) in rtw_request[\"test-write-vectors\"].items():\n"
            "            tests = []\n"
            "            for d in v[\"test\"]:\n"
            "                tests.append((d[\"offset\"], %s, b\"eq\", d[\"specimen\"]))\n"
            "            writes = [(d[\"offset\"], d[\"data\"]) for d in v[\"write\"]]\n"
            "            tw_vectors[k] = (tests, writes, v[\"new-length\"])\n" % size) + HTTP_TRY

ZERO_BLOCK = ("            if offset > data_length:\n"
              "                f.seek(self.DATA_OFFSET+data_length)\n"
              "                f.write(b'\\x00'*(offset - data_length))\n"
              "                f.flush()\n")
CCS_ZERO = ("        f.seek(old_extra_lease_offset)\n"
            "        f.write(b'\\x00' * leases_size)\n"
            "        f.flush()\n")

# ---- seeded C24-I (a slip of ANOTHER property): _evaluate_write_vectors / _allocate_slot_share tidied - any() pre-checks,
# tuple-unpacking loop with an early continue, make_dirs hoisted.  The byte-array behaviour is untouched by the faithful forms.
SIZE_COMMENT = ("        # Refuse the whole request before touching any share if one of its\n"
                "        # writes cannot fit: otherwise the shares written before the\n"
                "        # oversized one would stay modified although the request failed.\n")
SIZE_CHECK = ("        for sharenum in test_and_write_vectors:\n"
              "            (testv, datav, new_length) = test_and_write_vectors[sharenum]\n"
              "            for (offset, data) in datav:\n"
              "                if offset + len(data) > MutableShareFile.MAX_SIZE:\n"
              "                    raise DataTooLargeError()\n")
RMDIR_COMMENT = ("                # delete bucket directories that exist but are empty.  They\n"
                 "                # might not exist if a client showed up and asked us to\n"
                 "                # truncate a share we weren't even holding.\n")
EWV_BODY = (
    "        remaining_shares = {}\n\n" + SIZE_COMMENT + SIZE_CHECK + "\n"
    "        for sharenum in test_and_write_vectors:\n"
    "            (testv, datav, new_length) = test_and_write_vectors[sharenum]\n"
    "            if new_length == 0:\n"
    "                if sharenum in shares:\n"
    "                    shares[sharenum].unlink()\n"
    "            else:\n"
    "                if sharenum not in shares:\n"
    "                    # allocate a new share\n"
    "                    share = self._allocate_slot_share(bucketdir, secrets,\n"
    "                                                      sharenum,\n"
    "                                                      owner_num=0)\n"
    "                    shares[sharenum] = share\n"
    "                shares[sharenum].writev(datav, new_length)\n"
    "                remaining_shares[sharenum] = shares[sharenum]\n"
    "\n"
    "            if new_length == 0:\n" + RMDIR_COMMENT +
    "                if os.path.exists(bucketdir) and [] == os.listdir(bucketdir):\n"
    "                    os.rmdir(bucketdir)\n"
    "        return remaining_shares\n")
ALLOC = (
    "    def _allocate_slot_share(self, bucketdir, secrets, sharenum,\n"
    "                             owner_num=0):\n"
    "        (write_enabler, renew_secret, cancel_secret) = secrets\n"
    "        my_nodeid = self.my_nodeid\n"
    "        fileutil.make_dirs(bucketdir)\n"
    "        filename = os.path.join(bucketdir, \"%d\" % sharenum)\n"
    "        share = create_mutable_sharefile(filename, my_nodeid, write_enabler,\n"
    "                                         self)\n"
    "        return share\n")
ALLOC_TIDY = (
    "    def _allocate_slot_share(self, bucketdir, sharenum, write_enabler):\n"
    "        filename = os.path.join(bucketdir, \"%d\" % sharenum)\n"
    "        return create_mutable_sharefile(\n"
    "            filename, self.my_nodeid, write_enabler, self,\n"
    "        )\n")
ANY_SIZE_CHECK = (
    "        if any(\n"
    "                offset + len(data) > MutableShareFile.MAX_SIZE\n"
    "                for (_, datav, _) in test_and_write_vectors.values()\n"
    "                for (offset, data) in datav\n"
    "        ):\n"
    "            raise DataTooLargeError()\n")
NOT_ALL_SIZE_CHECK = (
    "        if not all([offset + len(data) <= MutableShareFile.MAX_SIZE\n"
    "                    for sharenum, (testv, datav, new_length) in test_and_write_vectors.items()\n"
    "                    for (offset, data) in datav]):\n"
    "            raise DataTooLargeError()\n")


def ewv_tidy(rmdir_in_loop, make_dirs="hoisted", size_check=ANY_SIZE_CHECK, writev_args="datav, new_length"):
    """_evaluate_write_vectors after the tidy-up of seeded C24-I.  rmdir_in_loop=True with the hoisted make_dirs is the
    patch as delivered (the slip breaks C24, not the byte-array behaviour); rmdir behind the loop / make_dirs next to each
    allocation are the faithful forms."""
    def rmdir(ind):
        return (ind + "if os.path.exists(bucketdir) and [] == os.listdir(bucketdir):\n" + ind + "    os.rmdir(bucketdir)\n")
    hoist = ("        if any(\n"
             "                new_length != 0 and sharenum not in shares\n"
             "                for sharenum, (_, _, new_length) in test_and_write_vectors.items()\n"
             "        ):\n"
             "            fileutil.make_dirs(bucketdir)\n\n") if make_dirs == "hoisted" else ""
    return ("        (write_enabler, _, _) = secrets\n\n" + SIZE_COMMENT + size_check + "\n" + hoist +
            "        remaining_shares = {}\n"
            "        for sharenum, (_, datav, new_length) in test_and_write_vectors.items():\n"
            "            if new_length == 0:\n"
            "                if sharenum in shares:\n"
            "                    shares[sharenum].unlink()\n" +
            (rmdir("                ") if rmdir_in_loop else "") +
            "                continue\n\n"
            "            if sharenum not in shares:\n" +
            ("                fileutil.make_dirs(bucketdir)\n" if make_dirs == "in-loop" else "") +
            "                shares[sharenum] = self._allocate_slot_share(\n"
            "                    bucketdir, sharenum, write_enabler,\n"
            "                )\n"
            "            shares[sharenum].writev(%s)\n" % writev_args +
            "            remaining_shares[sharenum] = shares[sharenum]\n" +
            ("" if rmdir_in_loop else rmdir("        ")) +
            "        return remaining_shares\n")


# ---- seeded C29-I (a slip of ANOTHER property): _change_container_size moves the extra-lease block in two pieces - the
# count it already read through _read_num_extra_leases and the records read by a new helper _read_extra_lease_records
CCS_DEF = "    def _change_container_size(self, f, new_container_size):\n"
CCS_READ = ("        f.seek(old_extra_lease_offset)\n"
            "        leases_size = 4 + num_extra_leases * self.LEASE_SIZE\n"
            "        extra_lease_data = f.read(leases_size)\n")
CCS_BACK = ("        f.seek(new_extra_lease_offset)\n"
            "        f.write(extra_lease_data)\n"
            "        self._write_extra_lease_offset(f, new_extra_lease_offset)\n")
REC_HELPER = ("    def _read_extra_lease_records(self, f):\n"
              "        extra_lease_offset = self._read_extra_lease_offset(f)\n"
              "        num_extra_leases = self._read_num_extra_leases(f)\n"
              "        f.seek(extra_lease_offset + 4)\n"
              "        return f.read(num_extra_leases * self.LEASE_SIZE)\n\n")
BACK_FAITHFUL = ("        f.seek(new_extra_lease_offset)\n"
                 "        f.write(struct.pack(\">L\", num_extra_leases))\n"
                 "        f.write(lease_records)\n"
                 "        self._write_extra_lease_offset(f, new_extra_lease_offset)\n")
BACK_SLIP = ("        self._write_extra_lease_offset(f, new_extra_lease_offset)\n"
             "        self._write_num_extra_leases(f, num_extra_leases)\n"
             "        f.write(lease_records)\n")


def ccs_pieces(expect, helper=REC_HELPER, back=BACK_FAITHFUL, zero="4 + len(lease_records)", note=None, id_=None):
    return M(id_, MUT, CCS_DEF, helper + CCS_DEF, expect, note=note,
             edits=[(MUT, CCS_READ, "        lease_records = self._read_extra_lease_records(f)\n"),
                    (MUT, "        f.write(b'\\x00' * leases_size)\n", "        f.write(b'\\x00' * (%s))\n" % zero),
                    (MUT, CCS_BACK, back)])


MUTANTS = [
    # ---- seeded C29-I: the lease block moved as count + records (helper followed, consecutive writes add up)
    ccs_pieces(None, id_="benign-lease-block-moved-in-two-pieces",
               note="the refactor of seeded C29-I done faithfully: count and records are written at the new place first, the header "
                    "offset last; C23.2 used to report both writes, the zero fill size and a missing write-back, C23.6 the third write"),
    ccs_pieces(None, id_="benign-lease-block-two-pieces-zero-size-spelt-out", zero="4 + num_extra_leases * self.LEASE_SIZE"),
    ccs_pieces(["C23.2", "C23.6"], back=BACK_SLIP, id_="lease-block-rebuilt-through-count-accessor",
               note="seeded C29-I as delivered: _write_num_extra_leases, a lease writer, becomes reachable from writev (clause 6) and "
                    "the place of the records write is decided by a helper the rule does not follow"),
    ccs_pieces("C23.2", helper=REC_HELPER.replace("f.seek(extra_lease_offset + 4)", "f.seek(extra_lease_offset)"),
               id_="two-pieces-records-read-from-block-start",
               note="the records are read 4 bytes too early: every extra lease is shifted after the container grew"),
    ccs_pieces("C23.2", helper=REC_HELPER.replace("num_extra_leases * self.LEASE_SIZE", "(num_extra_leases - 1) * self.LEASE_SIZE"),
               id_="two-pieces-last-record-not-read"),
    ccs_pieces("C23.2", back=BACK_FAITHFUL.replace("        f.write(struct.pack(\">L\", num_extra_leases))\n        f.write(lease_records)\n",
                                                    "        f.write(lease_records)\n        f.write(struct.pack(\">L\", num_extra_leases))\n"),
               id_="two-pieces-count-behind-records"),
    ccs_pieces("C23.2", back=BACK_FAITHFUL.replace("\">L\"", "\">Q\""), id_="two-pieces-count-packed-as-8-bytes"),
    ccs_pieces("C23.2", back=BACK_FAITHFUL.replace("        f.write(struct.pack(\">L\", num_extra_leases))\n", ""),
               id_="two-pieces-count-not-written-back"),
    ccs_pieces("C23.2", back=BACK_FAITHFUL.replace("        f.write(lease_records)\n", ""), zero="4",
               id_="two-pieces-records-not-written-back", note="the count survives, the lease records are dropped"),
    ccs_pieces("C23.2", back=BACK_FAITHFUL.replace("        f.write(lease_records)\n", "        f.flush()\n        f.seek(new_extra_lease_offset)\n        f.write(lease_records)\n"),
               id_="two-pieces-records-overwrite-count"),
    ccs_pieces("C23.2", back=BACK_FAITHFUL.replace("struct.pack(\">L\", num_extra_leases)", "struct.pack(\">L\", 0)"),
               id_="two-pieces-count-reset", note="the extra leases are forgotten when the container grows"),
    M("two-pieces-truncate-in-container-growth", MUT, "        f.write(extra_lease_data)\n", "        f.write(extra_lease_data)\n        f.truncate()\n", "C23.6"),
    # ---- seeded C24-I: the tidied write stage (any() pre-check read as the loops it abbreviates)
    M("benign-tidy-up-rmdir-after-loop", SRV, EWV_BODY, ewv_tidy(False), None, edits=[(SRV, ALLOC, ALLOC_TIDY)],
      note="the refactor of seeded C24-I done faithfully; C23.8 used to report the any() refusal as unguarded"),
    M("benign-tidy-up-make-dirs-per-allocation", SRV, EWV_BODY, ewv_tidy(True, make_dirs="in-loop"), None,
      edits=[(SRV, ALLOC, ALLOC_TIDY)]),
    M("benign-tidy-up-as-delivered", SRV, EWV_BODY, ewv_tidy(True), None, edits=[(SRV, ALLOC, ALLOC_TIDY)],
      note="seeded C24-I as delivered: the slip (directory removed inside the loop after the hoisted make_dirs) is C24's; "
           "which shares remain / whether the directory exists is undecided here"),
    M("benign-size-check-any", SRV, SIZE_CHECK, ANY_SIZE_CHECK, None),
    M("benign-size-check-not-all-listcomp", SRV, SIZE_CHECK, NOT_ALL_SIZE_CHECK, None),
    M("any-size-check-negated", SRV, SIZE_CHECK, ANY_SIZE_CHECK.replace("offset + len(data) > Mut", "offset + len(data) <= Mut"), "C23.8",
      note="every request with a write of legal size is refused"),
    M("not-all-size-check-negated", SRV, SIZE_CHECK, NOT_ALL_SIZE_CHECK.replace("<= Mut", "> Mut"), "C23.8"),
    M("tidy-up-any-size-check-compares-share-count", SRV, EWV_BODY,
      ewv_tidy(False, size_check=ANY_SIZE_CHECK.replace("offset + len(data) > Mut", "offset + len(data) > len(datav) or offset > Mut")),
      "C23.8", edits=[(SRV, ALLOC, ALLOC_TIDY)],
      note="in the tidied shape: the refusal is also reached over a disjunct that says nothing about MAX_SIZE"),
    M("all-size-check-is-universal", SRV, SIZE_CHECK, ANY_SIZE_CHECK.replace("if any(", "if all("), "C23.8",
      note="`if all(..): raise` also refuses the request without writes (all() of nothing): not the loop form, the raise has no size guard"),
    M("tidy-up-writev-without-new-length", SRV, EWV_BODY, ewv_tidy(False, writev_args="datav, None"), "C23.5",
      edits=[(SRV, ALLOC, ALLOC_TIDY)], note="the deletion/write rule still reads the tidied loop"),
    # ---- C23.1 zero fill / length update / data write
    M("zero-fill-dropped", MUT, ZERO_BLOCK, "", "C23.1"),
    M("zero-fill-wrong-start", MUT, "                f.seek(self.DATA_OFFSET+data_length)\n",
      "                f.seek(self.DATA_OFFSET+offset)\n", "C23.1"),
    M("zero-fill-short", MUT, "f.write(b'\\x00'*(offset - data_length))", "f.write(b'\\x00'*(offset - data_length - 1))", "C23.1"),
    M("length-update-only-when-starting-past-end", MUT, "        if offset+length >= data_length:",
      "        if offset >= data_length:", "C23.1"),
    M("length-always-rewritten", MUT, "        if offset+length >= data_length:",
      "        if offset+length >= 0:", "C23.1"),
    M("new-length-append-semantics", MUT, "            new_data_length = offset+length\n",
      "            new_data_length = data_length+length\n", "C23.1"),
    M("data-at-wrong-offset", MUT, "        f.seek(self.DATA_OFFSET+offset)\n        f.write(data)\n",
      "        f.seek(self.HEADER_SIZE+offset)\n        f.write(data)\n", "C23.1"),
    # ---- C23.2 container growth / lease relocation
    M("growth-test-forgets-data-offset", MUT, "            if self.DATA_OFFSET+offset+length > extra_lease_offset:",
      "            if offset+length > extra_lease_offset:", "C23.2"),
    M("growth-too-small", MUT, "                self._change_container_size(f, offset+length)",
      "                self._change_container_size(f, offset)", "C23.2"),
    M("lease-block-written-elsewhere", MUT, "        f.seek(new_extra_lease_offset)\n        f.write(extra_lease_data)\n",
      "        f.seek(new_extra_lease_offset + 4)\n        f.write(extra_lease_data)\n", "C23.2"),
    M("lease-block-size-without-count", MUT, "        leases_size = 4 + num_extra_leases * self.LEASE_SIZE\n",
      "        leases_size = num_extra_leases * self.LEASE_SIZE\n", "C23.2"),
    M("zero-after-writeback", MUT, CCS_ZERO, "", "C23.2",
      edits=[(MUT, "        f.write(extra_lease_data)\n", "        f.write(extra_lease_data)\n" + CCS_ZERO)]),
    M("zero-before-read", MUT, "        f.seek(old_extra_lease_offset)\n        leases_size = 4 + num_extra_leases * self.LEASE_SIZE\n",
      "        leases_size = 4 + num_extra_leases * self.LEASE_SIZE\n" + CCS_ZERO + "        f.seek(old_extra_lease_offset)\n", "C23.2"),
    M("new-lease-offset-not-recorded", MUT, "        self._write_extra_lease_offset(f, new_extra_lease_offset)\n", "", "C23.2"),
    M("fit-assert-strict", MUT, "            assert self.DATA_OFFSET+offset+length <= extra_lease_offset\n",
      "            assert self.DATA_OFFSET+offset+length < extra_lease_offset\n", "C23.2",
      note="after growth the data ends exactly at the extra-lease offset: a strict assert fails every growing write"),
    # ---- C23.3 clipped reads
    M("clip-without-max", MUT, "            length = max(0, data_length-offset)\n", "            length = data_length-offset\n", "C23.3"),
    M("clip-condition-ignores-length", MUT, "        if offset+length > data_length:\n            # reads beyond",
      "        if offset > data_length:\n            # reads beyond", "C23.3"),
    M("read-at-wrong-offset", MUT, "        f.seek(self.DATA_OFFSET+offset)\n        data = f.read(length)\n",
      "        f.seek(self.HEADER_SIZE+offset)\n        data = f.read(length)\n", "C23.3"),
    M("empty-read-threshold", MUT, "        if length == 0:\n            return b\"\"\n", "        if length <= 1:\n            return b\"\"\n", "C23.3"),
    M("readv-swaps-offset-length", MUT, "datav.append(self._read_share_data(f, offset, length))",
      "datav.append(self._read_share_data(f, length, offset))", "C23.3"),
    M("read-precondition-strict", MUT, "        precondition(offset+length <= data_length)\n", "        precondition(offset+length < data_length)\n", "C23.3"),
    M("readv-returns-nothing", MUT, "        return datav\n\n    def get_length", "        return None\n\n    def get_length", "C23.3"),
    # ---- C23.4 writev
    M("truncate-also-extends", MUT, "                if new_length < cur_length:", "                if new_length != cur_length:", "C23.4"),
    M("truncate-dropped", MUT, "                    self._write_data_length(f, new_length)\n", "                    pass\n", "C23.4"),
    M("truncate-against-stale-length", MUT, "                cur_length = self._read_data_length(f)\n", "", "C23.4",
      edits=[(MUT, "            for (offset, data) in datav:\n                self._write_share_data(f, offset, data)\n",
              "            cur_length = self._read_data_length(f)\n            for (offset, data) in datav:\n"
              "                self._write_share_data(f, offset, data)\n")]),
    M("truncate-chops-the-file", MUT, "                    self._write_data_length(f, new_length)\n",
      "                    self._write_data_length(f, new_length)\n                    f.truncate(self.DATA_OFFSET + new_length)\n",
      ["C23.4", "C23.6"]),
    M("writev-only-first-vector", MUT, "                self._write_share_data(f, offset, data)\n            if new_length is not None:",
      "                self._write_share_data(f, offset, data)\n                break\n            if new_length is not None:", "C23.4"),
    # ---- C23.5 deletion
    M("zero-length-not-recognised", SRV, "            if new_length == 0:\n                if sharenum in shares:",
      "            if new_length is None:\n                if sharenum in shares:", "C23.5"),
    M("unlink-dropped", SRV, "                    shares[sharenum].unlink()\n", "                    pass\n", "C23.5"),
    M("zero-length-truncates-instead", SRV,
      "            if new_length == 0:\n                if sharenum in shares:\n                    shares[sharenum].unlink()\n            else:\n",
      "            if new_length == 0 and not datav:\n                if sharenum in shares:\n                    shares[sharenum].unlink()\n            else:\n",
      "C23.5"),
    M("writev-args-swapped-vector", SRV, "shares[sharenum].writev(datav, new_length)", "shares[sharenum].writev(datav, None)", "C23.5"),
    # ---- C23.6 lease isolation / header fields
    M("writev-resets-extra-leases", MUT, "                    self._write_data_length(f, new_length)\n",
      "                    self._write_data_length(f, new_length)\n                    self._write_num_extra_leases(f, 0)\n",
      ["C23.6"]),
    M("length-field-at-wrong-offset", MUT, "    def _write_data_length(self, f, data_length):\n        f.seek(self.DATA_LENGTH_OFFSET)",
      "    def _write_data_length(self, f, data_length):\n        f.seek(self.EXTRA_LEASE_OFFSET)", "C23.6"),
    M("length-field-format-mismatch", MUT, "        f.write(struct.pack(\">Q\", data_length))", "        f.write(struct.pack(\">L\", data_length))", "C23.6"),
    M("header-fields-swapped", SCH, "        # data length, initially the container is empty\n        0,\n        extra_lease_offset,\n",
      "        extra_lease_offset,\n        0,\n", "C23.6"),
    M("fresh-container-lease-offset", SCH, "_EXTRA_LEASE_OFFSET = _HEADER_SIZE + 4 * LeaseInfo().mutable_size()",
      "_EXTRA_LEASE_OFFSET = _HEADER_SIZE + 3 * LeaseInfo().mutable_size()", "C23.6"),
    M("five-blank-lease-slots", SCH, "    blank_leases = b\"\\x00\" * LeaseInfo().mutable_size() * 4\n",
      "    blank_leases = b\"\\x00\" * LeaseInfo().mutable_size() * 5\n", "C23.6"),
    M("fresh-container-one-extra-lease", SCH, "    extra_lease_count = struct.pack(\">L\", 0)\n", "    extra_lease_count = struct.pack(\">L\", 1)\n", "C23.6"),
    # ---- C23.7 test vectors
    M("missing-share-always-matches", MUT, "            data = b\"\"\n", "            data = specimen\n", "C23.7"),
    M("failing-vector-not-recorded", MUT, "                    test_good = False\n                    break\n",
      "                    break\n", "C23.7"),
    M("testv-compare-inverted", MUT, "    return a == b\n", "    return a != b\n", "C23.7"),
    M("testv-against-whole-share", MUT, "                data = self._read_share_data(f, offset, length)\n",
      "                data = self._read_share_data(f, 0, length)\n", "C23.7"),
    # ---- gap review: preconditions, stale lease offset, size refusals, directory clean-up, operator assertion
    M("write-at-offset-zero-rejected", MUT, "        length = len(data)\n        precondition(offset >= 0)\n",
      "        length = len(data)\n        precondition(offset > 0)\n", "C23.1"),
    M("write-offset-precondition-bumped", MUT, "        length = len(data)\n        precondition(offset >= 0)\n",
      "        length = len(data)\n        precondition(offset >= 1)\n", "C23.1"),
    M("read-at-offset-zero-rejected", MUT, "        precondition(offset >= 0)\n        precondition(length >= 0)\n",
      "        precondition(offset > 0)\n        precondition(length >= 0)\n", "C23.3"),
    M("read-of-length-zero-rejected", MUT, "        precondition(length >= 0)\n", "        precondition(length > 0)\n", "C23.3"),
    M("read-length-precondition-inverted", MUT, "        precondition(length >= 0)\n", "        precondition(length < 0)\n", "C23.3"),
    M("lease-offset-not-reread-after-growth", MUT,
      "                self._change_container_size(f, offset+length)\n                extra_lease_offset = self._read_extra_lease_offset(f)\n",
      "                self._change_container_size(f, offset+length)\n", "C23.2",
      note="the fit assertion then compares against the old offset and fails for every growing write"),
    M("container-size-test-negated", MUT, "        if new_container_size > self.MAX_SIZE:\n", "        if new_container_size <= self.MAX_SIZE:\n", "C23.8"),
    M("request-size-test-negated", SRV, "                if offset + len(data) > MutableShareFile.MAX_SIZE:\n",
      "                if not (offset + len(data) > MutableShareFile.MAX_SIZE):\n", "C23.8"),
    M("size-refusal-unconditional-on-growth", MUT, "        if new_container_size > self.MAX_SIZE:\n",
      "        if new_container_size > self.MAX_SIZE or self.MAX_SIZE > new_container_size:\n", "C23.8"),
    M("rmdir-when-not-empty", SRV, "and [] == os.listdir(bucketdir):", "and [] != os.listdir(bucketdir):", "C23.5"),
    M("rmdir-exists-or-empty", SRV, "if os.path.exists(bucketdir) and [] == os.listdir(bucketdir):",
      "if os.path.exists(bucketdir) or [] == os.listdir(bucketdir):", "C23.5"),
    M("rmdir-guard-negated", SRV, "if os.path.exists(bucketdir) and [] == os.listdir(bucketdir):",
      "if not (os.path.exists(bucketdir) and [] == os.listdir(bucketdir)):", "C23.5"),
    M("operator-assert-inverted-with-not", MUT, "    assert op == b\"eq\"\n", "    assert not op == b\"eq\"\n", "C23.7"),
    M("fit-assert-strict-with-not", MUT, "            assert self.DATA_OFFSET+offset+length <= extra_lease_offset\n",
      "            assert not self.DATA_OFFSET+offset+length >= extra_lease_offset\n", "C23.2"),
    M("operator-assert-inverted", MUT, "    assert op == b\"eq\"\n", "    assert op != b\"eq\"\n", "C23.7"),
    # ---- C23.9 protocol front ends
    M("http-test-length-clipped-to-specimen", HTTP, HTTP_TEST_ELT,
      "(d[\"offset\"], min(d[\"size\"], len(d[\"specimen\"])), b\"eq\", d[\"specimen\"])", "C23.9",
      note="seeded C23-D: (0, 1, b'') - 'the share must be empty' - becomes (0, 0, b''), which any share passes"),
    M("http-test-length-from-specimen-in-loop", HTTP, HTTP_TW_ARG, "                tw_vectors,\n", "C23.9",
      edits=[(HTTP, HTTP_TRY, http_tw_loop("len(d[\"specimen\"])"))],
      note="same effect, different edit: the vectors are rebuilt by loops and the read length is taken from the specimen"),
    M("http-empty-writes-dropped", HTTP, "[(d[\"offset\"], d[\"data\"]) for d in v[\"write\"]],",
      "[(d[\"offset\"], d[\"data\"]) for d in v[\"write\"] if d[\"data\"]],", "C23.9",
      note="an empty write past the end extends the share with zeros; dropping it changes the array"),
    M("http-new-length-zero-becomes-none", HTTP, "                        v[\"new-length\"],\n",
      "                        v[\"new-length\"] or None,\n", "C23.9", note="new_length 0 must delete the share"),
    M("http-read-vector-end-for-length", HTTP, HTTP_RV_ARG,
      "                [(d[\"offset\"], d[\"offset\"] + d[\"size\"]) for d in rtw_request[\"read-vector\"]],\n", "C23.9"),
    M("http-answer-always-success", HTTP, "{\"success\": success, \"data\": read_data}", "{\"success\": True, \"data\": read_data}", "C23.9"),
    M("http-chunk-end-for-length", HTTP, "storage_index, [share_number], [(offset, length)]\n",
      "storage_index, [share_number], [(offset, offset + length)]\n", "C23.9"),
    M("http-chunk-reads-first-share", HTTP, "                )[share_number][0]\n", "                )[0][0]\n", "C23.9"),
    M("foolscap-readv-sorted", SRV, "        return self._server.slot_readv(storage_index, shares, readv)\n",
      "        return self._server.slot_readv(storage_index, shares, sorted(readv))\n", "C23.9",
      note="the answers come back in another order than the reads were asked in"),
    M("foolscap-shares-without-writes-skipped", SRV, "            secrets,\n            test_and_write_vectors,\n            read_vector,\n            renew_leases=True,\n        )",
      "            secrets,\n            {k: v for (k, v) in test_and_write_vectors.items() if v[1]},\n            read_vector,\n            renew_leases=True,\n        )",
      "C23.9", note="a share that is only tested no longer takes part in the verdict"),
    # ---- C23.10 the client half of the hops
    M("http-adapter-test-length-clipped-to-specimen", SC, "TestVector(offset=offset, size=size, specimen=specimen)",
      "TestVector(offset=offset, size=min(size, len(specimen)), specimen=specimen)", "C23.10",
      note="the clip of seeded C23-D made one hop earlier"),
    M("foolscap-adapter-test-length-clipped-to-specimen", SC, "[(start, length, b\"eq\", data) for (start, length, data) in value[0]],",
      "[(start, min(length, len(data)), b\"eq\", data) for (start, length, data) in value[0]],", "C23.10"),
    M("http-adapter-empty-writes-dropped", SC, "WriteVector(offset=offset, data=data) for (offset, data) in data_vector\n",
      "WriteVector(offset=offset, data=data) for (offset, data) in data_vector if data\n", "C23.10"),
    M("http-adapter-new-length-zero-becomes-none", SC, "                new_length=new_length\n", "                new_length=new_length or None\n", "C23.10"),
    M("http-adapter-read-vector-fields-swapped", SC, "ReadVector(offset=offset, size=size)\n", "ReadVector(offset, offset + size)\n", "C23.10"),
    M("foolscap-adapter-write-vector-sorted", SC, "                value[1],\n                value[2],\n", "                sorted(value[1]),\n                value[2],\n", "C23.10",
      note="overlapping writes are applied in order; sorting them changes the resulting array"),
    M("http-client-body-without-test-vectors", HC, "                share_number: twv.asdict()\n",
      "                share_number: TestWriteVectors(write_vectors=twv.write_vectors, new_length=twv.new_length).asdict()\n",
      "C23.10"),
    M("http-client-body-first-read-only", HC, "\"read-vector\": [asdict(r) for r in read_vector],", "\"read-vector\": [asdict(r) for r in read_vector[:1]],", "C23.10"),
    M("http-client-hop-drops-read-vector", HC, "                testwrite_vectors,\n                read_vector,\n            )\n",
      "                testwrite_vectors,\n                [],\n            )\n", "C23.10"),
    M("http-client-asdict-keys-crossed", HC, "        d[\"test\"] = d.pop(\"test_vectors\")\n        d[\"write\"] = d.pop(\"write_vectors\")\n",
      "        d[\"write\"] = d.pop(\"test_vectors\")\n        d[\"test\"] = d.pop(\"write_vectors\")\n", "C23.10"),
    M("http-client-test-vector-field-renamed", HC, "    offset: int\n    size: int\n    specimen: bytes\n", "    offset: int\n    length: int\n    specimen: bytes\n", "C23.10",
      edits=[(SC, "TestVector(offset=offset, size=size, specimen=specimen)", "TestVector(offset=offset, length=size, specimen=specimen)")]),
    # ---- behaviour-preserving
    M("benign-gap-test-negated", MUT, "            if offset > data_length:\n", "            if not (offset <= data_length):\n", None),
    M("benign-hoisted-end", MUT, "        if offset+length >= data_length:", "        end = offset+length\n        if end >= data_length:", None),
    M("benign-bytes-ctor", MUT, "f.write(b'\\x00'*(offset - data_length))", "f.write(bytes(offset - data_length))", None),
    M("benign-truncate-flipped", MUT, "                if new_length < cur_length:", "                if cur_length > new_length:", None),
    M("benign-return-read-directly", MUT, "        data = f.read(length)\n        return data\n", "        return f.read(length)\n", None),
    M("benign-renamed-locals", MUT, "        extra_lease_data = f.read(leases_size)\n", "        blob = f.read(leases_size)\n", None,
      edits=[(MUT, "        f.write(extra_lease_data)\n", "        f.write(blob)\n")]),
    M("benign-zero-test-reordered", SRV, "            if new_length == 0:\n                if sharenum in shares:",
      "            if 0 == new_length:\n                if sharenum in shares:", None),
    M("benign-size-validation-over-items", SRV,
      "        for sharenum in test_and_write_vectors:\n            (testv, datav, new_length) = test_and_write_vectors[sharenum]\n"
      "            for (offset, data) in datav:\n                if offset + len(data) > MutableShareFile.MAX_SIZE:\n",
      "        for (_testv, datav, _new_length) in test_and_write_vectors.values():\n"
      "            for (offset, data) in datav:\n                if MutableShareFile.MAX_SIZE - offset < len(data):\n", None,
      note="the separate validation loop over the same dict (the repair of the C24.8 finding) is not the apply loop; "
           "its size test may be spelt differently"),
    M("benign-offset-precondition-spelling", MUT, "        length = len(data)\n        precondition(offset >= 0)\n",
      "        length = len(data)\n        precondition(not offset < 0)\n        precondition(offset > -1)\n", None),
    M("benign-positive-length-after-empty-return", MUT, "        precondition(offset+length <= data_length)\n",
      "        precondition(length > 0)\n        precondition(offset+length <= data_length)\n", None,
      note="after 'if length == 0: return' a strict assertion over length rejects nothing"),
    M("benign-lease-offset-read-once-after-growth", MUT,
      "        extra_lease_offset = self._read_extra_lease_offset(f)\n\n        if offset+length >= data_length:",
      "\n        if offset+length >= data_length:", None,
      edits=[(MUT, "            if self.DATA_OFFSET+offset+length > extra_lease_offset:",
              "            if self.DATA_OFFSET+offset+length > self._read_extra_lease_offset(f):"),
             (MUT, "                self._change_container_size(f, offset+length)\n                extra_lease_offset = self._read_extra_lease_offset(f)\n",
              "                self._change_container_size(f, offset+length)\n            extra_lease_offset = self._read_extra_lease_offset(f)\n")]),
    M("benign-size-test-flipped", MUT, "        if new_container_size > self.MAX_SIZE:\n", "        if not self.MAX_SIZE >= new_container_size:\n", None),
    M("benign-rmdir-not-listdir", SRV, "if os.path.exists(bucketdir) and [] == os.listdir(bucketdir):",
      "if os.path.exists(bucketdir) and not os.listdir(bucketdir):", None),
    M("benign-rmdir-try", SRV, "                if os.path.exists(bucketdir) and [] == os.listdir(bucketdir):\n                    os.rmdir(bucketdir)\n",
      "                try:\n                    os.rmdir(bucketdir)\n                except OSError:\n                    pass\n", None,
      note="rmdir of a non-empty or missing directory fails harmlessly inside the handler"),
    M("benign-fit-assert-with-not", MUT, "            assert self.DATA_OFFSET+offset+length <= extra_lease_offset\n",
      "            assert not self.DATA_OFFSET+offset+length > extra_lease_offset\n", None),
    M("benign-operator-assert-membership", MUT, "    assert op == b\"eq\"\n", "    assert op in (b\"eq\",)\n", None),
    M("benign-http-vectors-built-in-loops", HTTP, HTTP_TW_ARG, "                tw_vectors,\n", None,
      edits=[(HTTP, HTTP_TRY, http_tw_loop("d[\"size\"]"))]),
    M("benign-http-read-vector-hoisted", HTTP, HTTP_RV_ARG, "                read_vector,\n", None,
      edits=[(HTTP, HTTP_TRY, "        read_vector = [(d[\"offset\"], d[\"size\"]) for d in rtw_request[\"read-vector\"]]\n" + HTTP_TRY)]),
    M("benign-http-iterate-share-numbers", HTTP, "for (k, v) in rtw_request[\"test-write-vectors\"].items()", "for k in twv", None,
      edits=[(HTTP, HTTP_TRY, "        twv = rtw_request[\"test-write-vectors\"]\n" + HTTP_TRY),
             (HTTP, "for d in v[\"test\"]", "for d in twv[k][\"test\"]"),
             (HTTP, "for d in v[\"write\"]]", "for d in twv[k][\"write\"]]"),
             (HTTP, "                        v[\"new-length\"],\n", "                        twv[k].get(\"new-length\"),\n")]),
    M("benign-foolscap-keyword-arguments", SRV, "            secrets,\n            test_and_write_vectors,\n            read_vector,\n            renew_leases=True,\n        )",
      "            secrets,\n            read_vector=read_vector,\n            test_and_write_vectors=test_and_write_vectors,\n            renew_leases=True,\n        )", None),
    M("benign-http-chunk-named-result", HTTP, "                return self._storage_server.slot_readv(\n                    storage_index, [share_number], [(offset, length)]\n                )[share_number][0]\n",
      "                reads = self._storage_server.slot_readv(\n                    storage_index, [share_number], [(offset, length)]\n                )\n                return reads[share_number][0]\n", None),
    M("benign-http-adapter-explicit-loop", SC,
      "            client_test_vectors = [\n"
      "                TestVector(offset=offset, size=size, specimen=specimen)\n"
      "                for (offset, size, specimen) in test_vector\n            ]\n",
      "            client_test_vectors = []\n            for tv in test_vector:\n"
      "                client_test_vectors.append(TestVector(tv[0], tv[1], specimen=tv[2]))\n", None),
    M("benign-foolscap-adapter-loop-over-keys", SC,
      "            key: (\n                [(start, length, b\"eq\", data) for (start, length, data) in value[0]],\n"
      "                value[1],\n                value[2],\n            ) for (key, value) in tw_vectors.items()\n",
      "            shnum: (\n                [(tv[0], tv[1], b\"eq\", tv[2]) for tv in tw_vectors[shnum][0]],\n"
      "                tw_vectors[shnum][1],\n                tw_vectors[shnum][2],\n            ) for shnum in tw_vectors\n", None),
    M("benign-http-adapter-positional-fields", SC, "WriteVector(offset=offset, data=data) for (offset, data) in data_vector\n",
      "WriteVector(wv[0], wv[1]) for wv in data_vector\n", None),
    M("benign-http-client-body-by-loop", HC,
      "        message = {\n            \"test-write-vectors\": {\n                share_number: twv.asdict()\n"
      "                for (share_number, twv) in testwrite_vectors.items()\n            },\n",
      "        per_share = {}\n        for share_number in testwrite_vectors:\n"
      "            per_share[share_number] = testwrite_vectors[share_number].asdict()\n"
      "        message = {\n            \"test-write-vectors\": per_share,\n", None),
    # ---- C23.3 the bytes read reach the return through any local
    M("benign-read-result-via-second-local", MUT, '        f.seek(self.DATA_OFFSET+offset)\n        data = f.read(length)\n        return data\n',
      '        f.seek(self.DATA_OFFSET+offset)\n        data = f.read(length)\n        chunk = data\n        return chunk\n', None),
    M("benign-read-result-renamed", MUT, '        f.seek(self.DATA_OFFSET+offset)\n        data = f.read(length)\n        return data\n', '        f.seek(self.DATA_OFFSET+offset)\n        data_sa = f.read(length)\n        return data_sa\n', None),
    # ---- vanished anchor
    M("vanish-write-share-data", MUT, "    def _write_share_data(self, f, offset, data):", "    def _write_share_dataX(self, f, offset, data):",
      "ANALYSIS-ERROR"),
    M("vanish-foolscap-readv", SRV, "    def remote_slot_readv(self, storage_index, shares, readv):", "    def remote_slot_readvX(self, storage_index, shares, readv):",
      "ANALYSIS-ERROR"),
    M("vanish-http-client-asdict", HC, "    def asdict(self) -> dict:", "    def as_dict(self) -> dict:", "ANALYSIS-ERROR"),
    M("undecided-http-vectors-from-helper", HTTP, HTTP_TW_ARG, "                self._tw_vectors(rtw_request),\n", "ANALYSIS-ERROR",
      note="a helper the evaluator does not follow is reported as undecided, never as a pass"),
]


# ---- _write_share_data split into procedure-style helpers (seeded C23-I done faithfully; the benign variants of C24 / C38
# that C23.1 used to report because the zero fill sits in self._zero_fill(f, ..)); texts and builder come from those modules
try:
    from .C38 import WSD_OLD as _WSD_OLD, WSD_REST as _WSD_REST, _wsd_helpers as _wsd
except Exception:                      # pragma: no cover - the sibling self-test changed: skip these variants
    _wsd = None
if _wsd is not None:
    _ZF_WRITE = "            f.write(b'\\x00'*(end - start))\n"
    MUTANTS += [
        M("benign-wsd-helpers-faithful", MUT, _WSD_OLD, _wsd(), None, edits=_WSD_REST,
          note="zero fill and container growth in helpers handed the file; clip / truncation test spelt in one expression"),
        M("benign-wsd-helpers-keywords", MUT, _WSD_OLD, _wsd(fill_call="self._zero_fill(f, end=offset, start=data_length)"), None),
        M("wsd-helpers-zero-fill-write-dropped", MUT, _WSD_OLD, _wsd().replace(_ZF_WRITE, ""), "C23.1"),
        M("wsd-helpers-zero-fill-at-offset", MUT, _WSD_OLD, _wsd().replace("f.seek(self.DATA_OFFSET+start)", "f.seek(self.DATA_OFFSET+end)"), "C23.1"),
        M("wsd-helpers-zero-fill-args-swapped", MUT, _WSD_OLD, _wsd(fill_call="self._zero_fill(f, offset, data_length)"), "C23.1"),
        M("wsd-helpers-zero-fill-keywords-swapped", MUT, _WSD_OLD, _wsd(fill_call="self._zero_fill(f, start=offset, end=data_length)"), "C23.1"),
        M("wsd-helpers-zero-fill-one-short", MUT, _WSD_OLD, _wsd().replace("(end - start))", "(end - start - 1))"), "C23.1"),
        M("wsd-helpers-no-growth", MUT, _WSD_OLD, _wsd(order=("fill",)), "C23.2"),
        M("wsd-helpers-growth-off-by-one", MUT, _WSD_OLD,
          _wsd(grow_test="self.DATA_OFFSET+data_end > self._read_extra_lease_offset(f) + 1", keep_assert=False), "C23.2"),
        M("wsd-helpers-fill-also-from-writev", MUT, _WSD_OLD, _wsd(), "C23.6",
          edits=[(MUT, "            if new_length is not None:\n                cur_length = self._read_data_length(f)\n",
                  "            self._zero_fill(f, 0, 1)\n            if new_length is not None:\n                cur_length = self._read_data_length(f)\n")],
          note="the helper's write is classified as part of _write_share_data only while nothing else reachable from writev uses it"),
        M("undecided-wsd-helper-returns-value", MUT, _WSD_OLD, _wsd().replace("            f.flush()\n\n", "            f.flush()\n        return end\n\n"),
          "ANALYSIS-ERROR", note="a helper that is handed the file, touches it and is no plain procedure is not followed: undecided"),
    ]
if _wsd is not None:
    MUTANTS += [
        M("clip-in-one-expression-ignores-offset", MUT, _WSD_REST[0][1], _WSD_REST[0][2].replace("data_length-offset", "data_length"), "C23.3"),
        M("clip-in-one-expression-max-for-min", MUT, _WSD_REST[0][1], _WSD_REST[0][2].replace("min(", "max("), "C23.3"),
        M("truncation-test-in-one-expression-reversed", MUT, _WSD_REST[2][1], _WSD_REST[2][2].replace("new_length < self.", "new_length > self."), "C23.4"),
        M("truncation-test-in-one-expression-stale-length", MUT, _WSD_REST[2][1],
          _WSD_REST[2][2].replace("new_length < self._read_data_length(f)", "new_length < old_length and self._read_data_length(f) >= 0"), "C23.4",
          edits=[(MUT, "            for (offset, data) in datav:\n                self._write_share_data(f, offset, data)\n",
                  "            old_length = self._read_data_length(f)\n            for (offset, data) in datav:\n                self._write_share_data(f, offset, data)\n")],
          note="the length compared was read before the data writes; a second read next to it does not make the comparison fresh"),
    ]
try:
    from .C24 import MSF_WRITE_SHARE_DATA as _C24_OLD, MSF_WRITE_SHARE_DATA_SPLIT as _C24_SPLIT, C23I_OTHER_HUNKS as _C24_REST
    MUTANTS += [M("benign-write-share-data-split-faithful", MUT, _C24_OLD, _C24_SPLIT, None, edits=_C24_REST)]
except Exception:                      # pragma: no cover
    pass
