from .runner import M

SRV = "src/allmydata/storage/server.py"
MUT = "src/allmydata/storage/mutable.py"
SCH = "src/allmydata/storage/mutable_schema.py"

COLLECT_CALL = ("        shares = self._collect_mutable_shares_for_storage_index(\n"
                "            bucketdir,\n            write_enabler,\n            si_s,\n        )\n")
READ_STAGE = ("        read_data = self._evaluate_read_vectors(\n"
              "            read_vector,\n            shares,\n        )\n")
TESTV_BRANCHES = (
    "            if sharenum in shares:\n"
    "                if not shares[sharenum].check_testv(testv):\n"
    "                    self.log(\"testv failed: [%d]: %r\" % (sharenum, testv))\n"
    "                    return False\n"
    "            else:\n"
    "                # compare the vectors against an empty share, in which all\n"
    "                # reads return empty strings.\n"
    "                if not EmptyShare().check_testv(testv):\n"
    "                    self.log(\"testv failed (empty): [%d] %r\" % (sharenum,\n"
    "                                                                testv))\n"
    "                    return False\n")

MSF_TESTV_LOOP = (
    "            for (offset, length, operator, specimen) in testv:\n"
    "                data = self._read_share_data(f, offset, length)\n"
    "                if not testv_compare(data, operator, specimen):\n"
    "                    test_good = False\n"
    "                    break\n")
MSF_CHECK_TESTV = (
    "    def check_testv(self, testv):\n"
    "        test_good = True\n"
    "        with open(self.home, 'rb+') as f:\n" + MSF_TESTV_LOOP +
    "        return test_good\n")
EMPTY_CHECK_TESTV = (
    "class EmptyShare:\n\n"
    "    def check_testv(self, testv):\n"
    "        test_good = True\n"
    "        for (offset, length, operator, specimen) in testv:\n"
    "            data = b\"\"\n"
    "            if not testv_compare(data, operator, specimen):\n"
    "                test_good = False\n"
    "                break\n"
    "        return test_good\n")
EMPTY_TESTV_IF = (
    "            data = b\"\"\n"
    "            if not testv_compare(data, operator, specimen):\n"
    "                test_good = False\n"
    "                break\n")
MSF_VIA_HELPER = (
    "    def check_testv(self, testv):\n"
    "        with open(self.home, 'rb+') as f:\n"
    "            return _check_testv(\n"
    "                testv,\n"
    "                lambda offset, length: self._read_share_data(f, offset, length),\n"
    "            )\n")


def _helper_and_empty(loop_body):
    return ("def _check_testv(testv, read):\n"
            "    test_good = True\n"
            "    for (offset, length, operator, specimen) in testv:\n"
            "        data = read(offset, length)\n" + loop_body +
            "    return test_good\n\n\n"
            "class EmptyShare:\n\n"
            "    def check_testv(self, testv):\n"
            "        return _check_testv(testv, lambda offset, length: b\"\")\n")


SIZE_CHECK = (
    "        for sharenum in test_and_write_vectors:\n"
    "            (testv, datav, new_length) = test_and_write_vectors[sharenum]\n"
    "            for (offset, data) in datav:\n"
    "                if offset + len(data) > MutableShareFile.MAX_SIZE:\n"
    "                    raise DataTooLargeError()\n")
APPLY_HEAD = (
    "        for sharenum in test_and_write_vectors:\n"
    "            (testv, datav, new_length) = test_and_write_vectors[sharenum]\n"
    "            if new_length == 0:\n"
    "                if sharenum in shares:\n")
APPLY_TAIL = "                    os.rmdir(bucketdir)\n        return remaining_shares\n"
MAKE_LEASE_INFO = "    def _make_lease_info(self, renew_secret, cancel_secret):\n"


def _size_helper(params, loop):
    return ("    def _refuse_oversized_writes(self, %s):\n"
            "        for sharenum in %s:\n"
            "            for (offset, data) in vectors[sharenum][1]:\n"
            "                if offset + len(data) > MutableShareFile.MAX_SIZE:\n"
            "                    raise DataTooLargeError()\n\n" % (params, loop)) + MAKE_LEASE_INFO


EVAL_TESTV_LOOP = (
    "        for sharenum in test_and_write_vectors:\n"
    "            (testv, datav, new_length) = test_and_write_vectors[sharenum]\n" + TESTV_BRANCHES +
    "        return True\n\n    def _evaluate_read_vectors")

HTTP = "src/allmydata/storage/http_server.py"
HTTP_TRY = ("        try:\n"
            "            success, read_data = self._storage_server.slot_testv_and_readv_and_writev(\n")
HTTP_TW_ARG = ("                {\n"
               "                    k: (\n"
               "                        [\n"
               "                            (d[\"offset\"], d[\"size\"], b\"eq\", d[\"specimen\"])\n"
               "                            for d in v[\"test\"]\n"
               "                        ],\n"
               "                        [(d[\"offset\"], d[\"data\"]) for d in v[\"write\"]],\n"
               "                        v[\"new-length\"],\n"
               "                    )\n"
               "                    for (k, v) in rtw_request[\"test-write-vectors\"].items()\n"
               "                },\n")
HTTP_TEST_ELT = "(d[\"offset\"], d[\"size\"], b\"eq\", d[\"specimen\"])"
FOOLSCAP_RTW_ARGS = "            secrets,\n            test_and_write_vectors,\n            read_vector,\n            renew_leases=True,\n        )"


def _http_tw_hoisted(size):
    """The handler's test-and-write vectors built by statement loops into a local, before the call."""
    return ("        tw_vectors = {}\n"
            "        for (k, v) in rtw_request[\"test-write-vectors\"].items():\n"
            "            tests = []\n"
            "            for d in v[\"test\"]:\n"
            "                tests.append((d[\"offset\"], %s, b\"eq\", d[\"specimen\"]))\n"
            "            writes = [(d[\"offset\"], d[\"data\"]) for d in v[\"write\"]]\n"
            "            tw_vectors[k] = (tests, writes, v[\"new-length\"])\n" % size) + HTTP_TRY


CCS_CHECK = ("        if new_container_size > self.MAX_SIZE:\n"
             "            raise DataTooLargeError()\n"
             "        old_extra_lease_offset = self._read_extra_lease_offset(f)\n"
             "        new_extra_lease_offset = self.DATA_OFFSET + new_container_size\n")
EARLY_TEST = "                if offset + len(data) > MutableShareFile.MAX_SIZE:\n"

# ---- the write stage as a whole (seeded C24-I: a tidy-up of _evaluate_write_vectors / _allocate_slot_share)
SIZE_COMMENT = ("        # Refuse the whole request before touching any share if one of its\n"
                "        # writes cannot fit: otherwise the shares written before the\n"
                "        # oversized one would stay modified although the request failed.\n")
RMDIR_COMMENT = ("                # delete bucket directories that exist but are empty.  They\n"
                 "                # might not exist if a client showed up and asked us to\n"
                 "                # truncate a share we weren't even holding.\n")
APPLY_LOOP = (
    APPLY_HEAD +
    "                    shares[sharenum].unlink()\n"
    "            else:\n"
    "                if sharenum not in shares:\n"
    "                    # allocate a new share\n"
    "                    share = self._allocate_slot_share(bucketdir, secrets,\n"
    "                                                      sharenum,\n"
    "                                                      owner_num=0)\n"
    "                    shares[sharenum] = share\n"
    "                shares[sharenum].writev(datav, new_length)\n"
    "                remaining_shares[sharenum] = shares[sharenum]\n"
    "\n"
    "            if new_length == 0:\n" + RMDIR_COMMENT +
    "                if os.path.exists(bucketdir) and [] == os.listdir(bucketdir):\n"
    "                    os.rmdir(bucketdir)\n")
EWV_BODY = "        remaining_shares = {}\n\n" + SIZE_COMMENT + SIZE_CHECK + "\n" + APPLY_LOOP + "        return remaining_shares\n"
ALLOC = (
    "    def _allocate_slot_share(self, bucketdir, secrets, sharenum,\n"
    "                             owner_num=0):\n"
    "        (write_enabler, renew_secret, cancel_secret) = secrets\n"
    "        my_nodeid = self.my_nodeid\n"
    "        fileutil.make_dirs(bucketdir)\n"
    "        filename = os.path.join(bucketdir, \"%d\" % sharenum)\n"
    "        share = create_mutable_sharefile(filename, my_nodeid, write_enabler,\n"
    "                                         self)\n"
    "        return share\n")
ALLOC_MAKE_DIRS = "        fileutil.make_dirs(bucketdir)\n        filename = os.path.join(bucketdir, \"%d\" % sharenum)\n"
ALLOC_TIDY = (
    "    def _allocate_slot_share(self, bucketdir, sharenum, write_enabler):\n"
    "        filename = os.path.join(bucketdir, \"%d\" % sharenum)\n"
    "        return create_mutable_sharefile(\n"
    "            filename, self.my_nodeid, write_enabler, self,\n"
    "        )\n")
ANY_SIZE_CHECK = (
    "        if any(\n"
    "                offset + len(data) > MutableShareFile.MAX_SIZE\n"
    "                for (_, datav, _) in test_and_write_vectors.values()\n"
    "                for (offset, data) in datav\n"
    "        ):\n"
    "            raise DataTooLargeError()\n")
RMDIR_IF_EMPTY = ("if os.path.exists(bucketdir) and [] == os.listdir(bucketdir):\n", "    os.rmdir(bucketdir)\n")


def _ewv_tidy(rmdir_in_loop, make_dirs="hoisted"):
    """_evaluate_write_vectors after the tidy-up of seeded C24-I: any() pre-checks, tuple-unpacking loop with an early
    continue, make_dirs hoisted out of _allocate_slot_share.  rmdir_in_loop=True is the slip (the empty directory is
    removed inside the loop, after the hoisted make_dirs); False moves that step behind the loop."""
    def rmdir(ind):
        return ind + RMDIR_IF_EMPTY[0] + ind + RMDIR_IF_EMPTY[1]
    hoist = ("        if any(\n"
             "                new_length != 0 and sharenum not in shares\n"
             "                for sharenum, (_, _, new_length) in test_and_write_vectors.items()\n"
             "        ):\n"
             "            fileutil.make_dirs(bucketdir)\n\n") if make_dirs == "hoisted" else ""
    return ("        (write_enabler, _, _) = secrets\n\n" + SIZE_COMMENT + ANY_SIZE_CHECK + "\n" + hoist +
            "        remaining_shares = {}\n"
            "        for sharenum, (_, datav, new_length) in test_and_write_vectors.items():\n"
            "            if new_length == 0:\n"
            "                if sharenum in shares:\n"
            "                    shares[sharenum].unlink()\n" +
            (rmdir("                ") if rmdir_in_loop else "") +
            "                continue\n\n"
            "            if sharenum not in shares:\n" +
            ("                fileutil.make_dirs(bucketdir)\n" if make_dirs == "in-loop" else "") +
            "                shares[sharenum] = self._allocate_slot_share(\n"
            "                    bucketdir, sharenum, write_enabler,\n"
            "                )\n"
            "            shares[sharenum].writev(datav, new_length)\n"
            "            remaining_shares[sharenum] = shares[sharenum]\n" +
            ("" if rmdir_in_loop else rmdir("        ")) +
            "        return remaining_shares\n")


EWV_DELETIONS_FIRST = (
    "        remaining_shares = {}\n\n" + SIZE_COMMENT + SIZE_CHECK + "\n"
    "%s"
    "        for sharenum in test_and_write_vectors:\n"
    "            (testv, datav, new_length) = test_and_write_vectors[sharenum]\n"
    "            if new_length == 0 and sharenum in shares:\n"
    "                shares[sharenum].unlink()\n"
    "        if os.path.exists(bucketdir) and [] == os.listdir(bucketdir):\n"
    "            os.rmdir(bucketdir)\n"
    "%s"
    "        for sharenum in test_and_write_vectors:\n"
    "            (testv, datav, new_length) = test_and_write_vectors[sharenum]\n"
    "            if new_length != 0:\n"
    "                if sharenum not in shares:\n"
    "                    shares[sharenum] = self._allocate_slot_share(bucketdir, secrets, sharenum)\n"
    "                shares[sharenum].writev(datav, new_length)\n"
    "                remaining_shares[sharenum] = shares[sharenum]\n"
    "        return remaining_shares\n")
NEEDS_DIR = ("        if any(v[2] != 0 and k not in shares for (k, v) in test_and_write_vectors.items()):\n"
             "            fileutil.make_dirs(bucketdir)\n")
ALLOC_NO_MAKE_DIRS = (ALLOC_MAKE_DIRS, "        filename = os.path.join(bucketdir, \"%d\" % sharenum)\n")

# the refactor of seeded C23-I done faithfully (the container is enlarged first, then the gap is zero-filled):
# _write_share_data is flattened into the helpers _zero_fill / _ensure_container_holds, so _change_container_size is
# reached through a helper of the allowed step instead of from _write_share_data itself (C24.7 follows the helper)
MSF_WRITE_SHARE_DATA = (
    "    def _write_share_data(self, f, offset, data):\n"
    "        length = len(data)\n"
    "        precondition(offset >= 0)\n"
    "        data_length = self._read_data_length(f)\n"
    "        extra_lease_offset = self._read_extra_lease_offset(f)\n"
    "\n"
    "        if offset+length >= data_length:\n"
    "            # They are expanding their data size.\n"
    "\n"
    "            if self.DATA_OFFSET+offset+length > extra_lease_offset:\n"
    "                # TODO: allow containers to shrink. For now, they remain\n"
    "                # large.\n"
    "\n"
    "                # Their new data won't fit in the current container, so we\n"
    "                # have to move the leases. With luck, they're expanding it\n"
    "                # more than the size of the extra lease block, which will\n"
    "                # minimize the corrupt-the-share window\n"
    "                self._change_container_size(f, offset+length)\n"
    "                extra_lease_offset = self._read_extra_lease_offset(f)\n"
    "\n"
    "                # an interrupt here is ok.. the container has been enlarged\n"
    "                # but the data remains untouched\n"
    "\n"
    "            assert self.DATA_OFFSET+offset+length <= extra_lease_offset\n"
    "            # Their data now fits in the current container. We must write\n"
    "            # their new data and modify the recorded data size.\n"
    "\n"
    "            # Fill any newly exposed empty space with 0's.\n"
    "            if offset > data_length:\n"
    "                f.seek(self.DATA_OFFSET+data_length)\n"
    "                f.write(b'\\x00'*(offset - data_length))\n"
    "                f.flush()\n"
    "\n"
    "            new_data_length = offset+length\n"
    "            self._write_data_length(f, new_data_length)\n"
    "            # an interrupt here will result in a corrupted share\n"
    "\n"
    "        # now all that's left to do is write out their data\n"
    "        f.seek(self.DATA_OFFSET+offset)\n"
    "        f.write(data)\n"
    "        return\n")
MSF_WRITE_SHARE_DATA_SPLIT = (
    "    def _zero_fill(self, f, start, end):\n"
    "        # Fill any newly exposed empty space with 0's.\n"
    "        if end > start:\n"
    "            f.seek(self.DATA_OFFSET+start)\n"
    "            f.write(b'\\x00'*(end - start))\n"
    "            f.flush()\n"
    "\n"
    "    def _ensure_container_holds(self, f, data_end):\n"
    "        if self.DATA_OFFSET+data_end > self._read_extra_lease_offset(f):\n"
    "            # Their new data won't fit in the current container, so we\n"
    "            # have to move the leases.\n"
    "            self._change_container_size(f, data_end)\n"
    "\n"
    "        assert self.DATA_OFFSET+data_end <= self._read_extra_lease_offset(f)\n"
    "\n"
    "    def _write_share_data(self, f, offset, data):\n"
    "        precondition(offset >= 0)\n"
    "        data_length = self._read_data_length(f)\n"
    "        new_data_length = offset + len(data)\n"
    "\n"
    "        if new_data_length >= data_length:\n"
    "            # They are expanding their data size: make sure it all fits in\n"
    "            # the container, pad the gap (if any) between the old end of the\n"
    "            # data and the start of theirs, then record the new data size.\n"
    "            self._ensure_container_holds(f, new_data_length)\n"
    "            self._zero_fill(f, data_length, offset)\n"
    "            self._write_data_length(f, new_data_length)\n"
    "            # an interrupt here will result in a corrupted share\n"
    "\n"
    "        # now all that's left to do is write out their data\n"
    "        f.seek(self.DATA_OFFSET+offset)\n"
    "        f.write(data)\n")
C23I_OTHER_HUNKS = [
    (MUT, "        if offset+length > data_length:\n"
          "            # reads beyond the end of the data are truncated. Reads that\n"
          "            # start beyond the end of the data return an empty string.\n"
          "            length = max(0, data_length-offset)\n",
          "        # reads beyond the end of the data are truncated. Reads that\n"
          "        # start beyond the end of the data return an empty string.\n"
          "        length = max(0, min(length, data_length-offset))\n"),
    (MUT, "        data = f.read(length)\n        return data\n", "        return f.read(length)\n"),
    (MUT, "            if new_length is not None:\n"
          "                cur_length = self._read_data_length(f)\n"
          "                if new_length < cur_length:\n"
          "                    self._write_data_length(f, new_length)\n",
          "            if new_length is not None and new_length < self._read_data_length(f):\n"
          "                self._write_data_length(f, new_length)\n"),
]

MUTANTS = [
    # ---- C24.13 the bucket directory is there whenever a share is created in it
    M("tidy-up-rmdir-left-in-loop", SRV, EWV_BODY, _ewv_tidy(True), "C24.13", edits=[(SRV, ALLOC, ALLOC_TIDY)],
      note="seeded C24-I: {0: delete (last share), 1: new share}: the deletion removes the directory the hoisted make_dirs "
           "created, allocating share 1 raises FileNotFoundError after share 0 is gone"),
    M("make-dirs-hoisted-before-write-loop", SRV, SIZE_CHECK + "\n" + APPLY_HEAD,
      SIZE_CHECK + "\n        fileutil.make_dirs(bucketdir)\n" + APPLY_HEAD, "C24.13", edits=[(SRV,) + ALLOC_NO_MAKE_DIRS],
      note="same effect with the code otherwise unchanged"),
    M("deletions-first-directory-ensured-too-early", SRV, EWV_BODY, EWV_DELETIONS_FIRST % (NEEDS_DIR, ""), "C24.13",
      edits=[(SRV,) + ALLOC_NO_MAKE_DIRS],
      note="the same slip in a two-loop write stage: the directory is ensured before the deletions (and their rmdir), not after"),
    M("directory-ensured-only-if-parent-missing", SRV, EWV_BODY, EWV_DELETIONS_FIRST % ("", ""), "C24.13",
      edits=[(SRV, ALLOC_MAKE_DIRS, "        if not os.path.isdir(os.path.dirname(bucketdir)):\n"
                                    "            fileutil.make_dirs(bucketdir)\n" + ALLOC_NO_MAKE_DIRS[1])],
      note="a guard that looks at the filesystem is not a decision that the directory is not needed: after the request's own "
           "rmdir nothing re-creates it"),
    M("bucketdir-created-with-plain-mkdir", SRV, ALLOC_MAKE_DIRS,
      "        fileutil.make_dirs(os.path.dirname(bucketdir))\n        os.mkdir(bucketdir)\n" + ALLOC_NO_MAKE_DIRS[1], "C24.13",
      note="the second new share of one request (or a new share in an existing slot) raises FileExistsError after earlier shares were written"),
    M("benign-tidy-up-rmdir-after-loop", SRV, EWV_BODY, _ewv_tidy(False), None, edits=[(SRV, ALLOC, ALLOC_TIDY)],
      note="the refactor of seeded C24-I done faithfully: the empty directory is removed once, behind the loop"),
    M("benign-tidy-up-make-dirs-per-allocation", SRV, EWV_BODY, _ewv_tidy(True, make_dirs="in-loop"), None, edits=[(SRV, ALLOC, ALLOC_TIDY)],
      note="the same tidy-up with make_dirs kept next to each allocation"),
    M("benign-deletions-first-then-ensure", SRV, EWV_BODY, EWV_DELETIONS_FIRST % ("", NEEDS_DIR), None, edits=[(SRV,) + ALLOC_NO_MAKE_DIRS],
      note="all deletions (and the rmdir) first, then the directory is ensured if a share will be allocated"),
    M("benign-bucketdir-makedirs-exist-ok", SRV, ALLOC_MAKE_DIRS, "        os.makedirs(bucketdir, exist_ok=True)\n" + ALLOC_NO_MAKE_DIRS[1], None),
    M("benign-bucketdir-mkdir-if-missing", SRV, ALLOC_MAKE_DIRS,
      "        if not os.path.isdir(bucketdir):\n            fileutil.make_dirs(os.path.dirname(bucketdir))\n            os.mkdir(bucketdir)\n"
      + ALLOC_NO_MAKE_DIRS[1], None),
    # ---- C24.8 / C24.12 the early refusal written with a quantifier
    M("benign-size-check-any", SRV, SIZE_CHECK, ANY_SIZE_CHECK, None,
      note="was ANALYSIS-ERROR (seeded C24-I): the any() form is the same loop nest"),
    M("benign-size-check-not-all-listcomp", SRV, SIZE_CHECK,
      "        if not all([offset + len(data) <= MutableShareFile.MAX_SIZE\n"
      "                    for sharenum, (testv, datav, new_length) in test_and_write_vectors.items()\n"
      "                    for (offset, data) in datav]):\n"
      "            raise DataTooLargeError()\n", None),
    M("any-size-check-first-write-only", SRV, SIZE_CHECK, ANY_SIZE_CHECK.replace("in datav\n", "in datav[:1]\n"), "C24.8"),
    M("any-size-check-existing-shares-only", SRV, SIZE_CHECK, ANY_SIZE_CHECK.replace(
        "for (_, datav, _) in test_and_write_vectors.values()\n",
        "for (sharenum, (_, datav, _)) in test_and_write_vectors.items() if sharenum in shares\n"), "C24.8"),
    M("any-size-check-ignores-data-length", SRV, SIZE_CHECK, ANY_SIZE_CHECK.replace("offset + len(data) >", "offset >"), "C24.8"),
    M("all-size-check-is-universal", SRV, SIZE_CHECK, ANY_SIZE_CHECK.replace("if any(", "if all("), "ANALYSIS-ERROR",
      note="refuses only when EVERY write is oversized: not an existential refusal, not recognised as the early check"),
    M("any-size-check-limit-includes-header", SRV, SIZE_CHECK, ANY_SIZE_CHECK.replace(
        "> MutableShareFile.MAX_SIZE\n", "> MutableShareFile.MAX_SIZE + MutableShareFile.DATA_OFFSET\n"), "C24.12"),
    # ---- C24.1 guarded writes
    M("write-guard-always-true", SRV, "        if testv_is_good:\n            # now apply the write vectors",
      "        if testv_is_good is not None:\n            # now apply the write vectors", "C24.1"),
    M("leases-renewed-on-failed-test", SRV,
      "            if renew_leases:\n                lease_info = self._make_lease_info(renew_secret, cancel_secret)\n"
      "                self._add_or_renew_leases(remaining_shares.values(), lease_info)\n",
      "        if renew_leases:\n            lease_info = self._make_lease_info(renew_secret, cancel_secret)\n"
      "            self._add_or_renew_leases(shares.values(), lease_info)\n", "C24.1"),
    M("enabler-check-uses-renew-secret", SRV, "            bucketdir,\n            write_enabler,\n            si_s,\n",
      "            bucketdir,\n            renew_secret,\n            si_s,\n", "C24.1"),
    M("bad-enabler-tolerated", SRV, COLLECT_CALL,
      "        try:\n            shares = self._collect_mutable_shares_for_storage_index(\n"
      "                bucketdir,\n                write_enabler,\n                si_s,\n            )\n"
      "        except Exception:\n            shares = {}\n", "C24.1"),
    M("tests-run-on-empty-dict", SRV, "            test_and_write_vectors,\n            shares,\n        )\n\n        # now gather",
      "            test_and_write_vectors,\n            {},\n        )\n\n        # now gather", "C24.1"),
    M("write-before-test", SRV,
      "        testv_is_good = self._evaluate_test_vectors(\n            test_and_write_vectors,\n            shares,\n        )\n",
      "        remaining_shares = self._evaluate_write_vectors(bucketdir, secrets, test_and_write_vectors, shares)\n"
      "        testv_is_good = self._evaluate_test_vectors(\n            test_and_write_vectors,\n            shares,\n        )\n", "C24.1"),
    M("written-share-not-remembered", SRV, "                remaining_shares[sharenum] = shares[sharenum]\n", "                pass\n", "C24.1"),
    M("leases-on-all-collected-shares", SRV, "                self._add_or_renew_leases(remaining_shares.values(), lease_info)",
      "                self._add_or_renew_leases(shares.values(), lease_info)", "C24.1",
      note="shares unlinked by new_length == 0 would get a lease renewal on a deleted file"),
    # ---- C24.2 effect freedom
    M("collect-creates-bucketdir", SRV, "        shares = {}\n        if os.path.isdir(bucketdir):",
      "        shares = {}\n        fileutil.make_dirs(bucketdir)\n        if os.path.isdir(bucketdir):", "C24.2"),
    M("enabler-mismatch-audit-file", MUT, "            msg = \"The write enabler was recorded by nodeid '%s'.\" % \\\n",
      "            with open(self.home + \".badwe\", \"a\") as audit:\n                audit.write(\"%r\\n\" % (si_s,))\n"
      "            msg = \"The write enabler was recorded by nodeid '%s'.\" % \\\n", "C24.2"),
    M("testv-repairs-length", MUT, "                data = self._read_share_data(f, offset, length)\n                if not testv_compare",
      "                data = self._read_share_data(f, offset, length)\n                if len(data) < length:\n"
      "                    self._write_data_length(f, offset + len(data))\n                if not testv_compare", "C24.2"),
    M("read-stage-compacts", SRV, "            read_data[sharenum] = share.readv(read_vector)\n",
      "            read_data[sharenum] = share.readv(read_vector)\n            if not share.get_length():\n                share.unlink()\n", "C24.2"),
    # ---- C24.3 read before write / result
    M("read-after-write", SRV, READ_STAGE + "\n        if testv_is_good:", "        if testv_is_good:", "C24.3",
      edits=[(SRV, "        # all done\n        self.add_latency(\"writev\"", READ_STAGE + "        # all done\n        self.add_latency(\"writev\"")]),
    M("result-reads-again", SRV, "        return (testv_is_good, read_data)",
      "        return (testv_is_good, self._evaluate_read_vectors(read_vector, shares))", "C24.3"),
    M("result-always-success", SRV, "        return (testv_is_good, read_data)", "        return (True, read_data)", "C24.3"),
    M("read-stage-drops-results", SRV, "            read_data[sharenum] = share.readv(read_vector)\n", "            share.readv(read_vector)\n", "C24.3"),
    M("read-stage-returns-nothing", SRV, "        return read_data\n\n    def _evaluate_write_vectors", "        return {}\n\n    def _evaluate_write_vectors", "C24.3"),
    # ---- C24.4 collect loop
    M("only-first-share-checked", SRV, "                msf.check_write_enabler(write_enabler, si_s)\n",
      "                if not shares:\n                    msf.check_write_enabler(write_enabler, si_s)\n", "C24.4"),
    M("foreign-shares-skipped", SRV, "                msf.check_write_enabler(write_enabler, si_s)\n",
      "                try:\n                    msf.check_write_enabler(write_enabler, si_s)\n"
      "                except Exception:\n                    continue\n", "C24.4"),
    M("collect-stops-after-first", SRV, "                shares[sharenum] = msf\n        return shares",
      "                shares[sharenum] = msf\n                break\n        return shares", "C24.4"),
    M("check-on-other-object", SRV, "                msf.check_write_enabler(write_enabler, si_s)\n                shares[sharenum] = msf\n",
      "                msf.check_write_enabler(write_enabler, si_s)\n                shares[sharenum] = MutableShareFile(filename, self)\n", "C24.4"),
    M("collect-skips-existing-directory", SRV, "        shares = {}\n        if os.path.isdir(bucketdir):", "        shares = {}\n        if not os.path.isdir(bucketdir):", "C24.4"),
    # ---- C24.5 check_write_enabler
    M("enabler-compare-inverted", MUT, "        if not timing_safe_compare(write_enabler, real_write_enabler):",
      "        if timing_safe_compare(write_enabler, real_write_enabler):", "C24.5"),
    M("enabler-mismatch-only-logged", MUT, "            raise BadWriteEnablerError(msg)\n", "            self.log(msg)\n", "C24.5"),
    M("enabler-plain-equality", MUT, "        if not timing_safe_compare(write_enabler, real_write_enabler):",
      "        if write_enabler != real_write_enabler:", "C24.5"),
    M("enabler-compared-with-itself", MUT, "        if not timing_safe_compare(write_enabler, real_write_enabler):",
      "        if not timing_safe_compare(write_enabler, write_enabler):", "C24.5"),
    M("header-fields-misnamed", MUT, "        (magic,\n         write_enabler_nodeid, write_enabler,\n",
      "        (magic,\n         write_enabler, write_enabler_nodeid,\n", "C24.5"),
    M("header-packs-enabler-elsewhere", SCH, "        magic,\n        nodeid,\n        write_enabler,\n",
      "        magic,\n        write_enabler,\n        nodeid,\n", "C24.5"),
    # ---- C24.6 test vectors verdict
    M("failing-share-ignored", SRV, "                    self.log(\"testv failed: [%d]: %r\" % (sharenum, testv))\n                    return False\n",
      "                    self.log(\"testv failed: [%d]: %r\" % (sharenum, testv))\n", "C24.6"),
    M("missing-share-vacuous-test", SRV, "                if not EmptyShare().check_testv(testv):", "                if not EmptyShare().check_testv([]):", "C24.6"),
    M("verdict-after-first-share", SRV, "        return True\n\n    def _evaluate_read_vectors",
      "            return True\n        return True\n\n    def _evaluate_read_vectors", "C24.6"),
    M("missing-share-not-tested", SRV,
      "                if not EmptyShare().check_testv(testv):\n                    self.log(\"testv failed (empty): [%d] %r\" % (sharenum,\n"
      "                                                                testv))\n                    return False\n",
      "                pass\n", "C24.6"),
    # ---- C24.6 sibling of the C24-B slip: the verdict of the LAST share only
    M("request-verdict-is-last-share", SRV, EVAL_TESTV_LOOP,
      "        testv_is_good = True\n"
      "        for sharenum in test_and_write_vectors:\n"
      "            (testv, datav, new_length) = test_and_write_vectors[sharenum]\n"
      "            share = shares.get(sharenum, EmptyShare())\n"
      "            testv_is_good = share.check_testv(testv)\n"
      "            if not testv_is_good:\n"
      "                self.log(\"testv failed: [%d]: %r\" % (sharenum, testv))\n"
      "        return testv_is_good\n\n    def _evaluate_read_vectors", "C24.6",
      note="was ANALYSIS-ERROR (no check_testv *test*) before the verdict was evaluated over assignments too"),
    M("request-verdict-or-accumulated", SRV, EVAL_TESTV_LOOP,
      "        testv_is_good = True\n"
      "        for sharenum in test_and_write_vectors:\n"
      "            (testv, datav, new_length) = test_and_write_vectors[sharenum]\n"
      "            share = shares.get(sharenum, EmptyShare())\n"
      "            testv_is_good = testv_is_good or share.check_testv(testv)\n"
      "        return testv_is_good\n\n    def _evaluate_read_vectors", "C24.6"),
    M("benign-request-verdict-accumulated", SRV, EVAL_TESTV_LOOP,
      "        testv_is_good = True\n"
      "        for sharenum in test_and_write_vectors:\n"
      "            (testv, datav, new_length) = test_and_write_vectors[sharenum]\n"
      "            share = shares.get(sharenum, EmptyShare())\n"
      "            testv_is_good = testv_is_good and share.check_testv(testv)\n"
      "        return testv_is_good\n\n    def _evaluate_read_vectors", None),
    # ---- C24.9 one share's verdict is the conjunction of all its comparisons
    M("testv-helper-keeps-last-comparison", MUT, MSF_CHECK_TESTV, MSF_VIA_HELPER, "C24.9",
      edits=[(MUT, EMPTY_CHECK_TESTV, _helper_and_empty("        test_good = testv_compare(data, operator, specimen)\n"))],
      note="seeded C24-B: deduplicated helper whose loop lost the break and assigns each comparison's result"),
    M("testv-last-comparison-inline", MUT, MSF_TESTV_LOOP,
      "            for (offset, length, operator, specimen) in testv:\n"
      "                data = self._read_share_data(f, offset, length)\n"
      "                test_good = testv_compare(data, operator, specimen)\n", "C24.9"),
    M("testv-success-resets-failure", MUT, EMPTY_TESTV_IF,
      "            data = b\"\"\n"
      "            if not testv_compare(data, operator, specimen):\n"
      "                test_good = False\n"
      "            else:\n"
      "                test_good = True\n", "C24.9"),
    M("testv-any-comparison-suffices", MUT, EMPTY_CHECK_TESTV,
      "class EmptyShare:\n\n"
      "    def check_testv(self, testv):\n"
      "        if not testv:\n"
      "            return True\n"
      "        return any(testv_compare(b\"\", operator, specimen) for (offset, length, operator, specimen) in testv)\n", "C24.9"),
    M("testv-only-first-comparison", MUT, MSF_TESTV_LOOP,
      "            for (offset, length, operator, specimen) in testv:\n"
      "                data = self._read_share_data(f, offset, length)\n"
      "                if not testv_compare(data, operator, specimen):\n"
      "                    test_good = False\n"
      "                break\n", "C24.9"),
    M("testv-zero-length-entries-skipped", MUT, MSF_TESTV_LOOP,
      "            for (offset, length, operator, specimen) in testv:\n"
      "                if not length:\n"
      "                    continue\n"
      "                data = self._read_share_data(f, offset, length)\n"
      "                if not testv_compare(data, operator, specimen):\n"
      "                    test_good = False\n"
      "                    break\n", "C24.9",
      note="(0, 0, eq, b'x') must fail; skipping the entry accepts it"),
    M("testv-truncated-vector", MUT, "        for (offset, length, operator, specimen) in testv:\n            data = b\"\"\n",
      "        for (offset, length, operator, specimen) in testv[:1]:\n            data = b\"\"\n", "C24.9"),
    M("testv-verdict-inverted-by-wrapper", MUT, MSF_CHECK_TESTV,
      MSF_VIA_HELPER.replace("return _check_testv(", "return not _check_testv("), "C24.9",
      edits=[(MUT, EMPTY_CHECK_TESTV, _helper_and_empty(
          "        if not testv_compare(data, operator, specimen):\n            test_good = False\n            break\n"))]),
    M("benign-testv-shared-helper", MUT, MSF_CHECK_TESTV, MSF_VIA_HELPER, None,
      edits=[(MUT, EMPTY_CHECK_TESTV, _helper_and_empty(
          "        if not testv_compare(data, operator, specimen):\n            test_good = False\n            break\n"))],
      note="the refactor of seeded C24-B done correctly"),
    M("benign-testv-all", MUT, EMPTY_CHECK_TESTV,
      "class EmptyShare:\n\n"
      "    def check_testv(self, testv):\n"
      "        return all(testv_compare(b\"\", operator, specimen) for (offset, length, operator, specimen) in testv)\n", None),
    M("benign-testv-accumulated-without-break", MUT, MSF_TESTV_LOOP,
      "            for (offset, length, operator, specimen) in testv:\n"
      "                data = self._read_share_data(f, offset, length)\n"
      "                test_good = test_good and testv_compare(data, operator, specimen)\n", None),
    M("benign-testv-early-return", MUT, MSF_CHECK_TESTV,
      "    def check_testv(self, testv):\n"
      "        with open(self.home, 'rb+') as f:\n"
      "            for (offset, length, operator, specimen) in list(testv):\n"
      "                matches = testv_compare(self._read_share_data(f, offset, length), operator, specimen)\n"
      "                if not matches:\n"
      "                    return False\n"
      "        return True\n", None),
    # ---- C24.7 who may call
    M("unguarded-truncate-api", SRV, "    def enumerate_mutable_shares(self, storage_index: bytes) -> set[int]:",
      "    def truncate_slot(self, storage_index, sharenum):\n"
      "        path = os.path.join(self.sharedir, storage_index_to_dir(storage_index), \"%d\" % sharenum)\n"
      "        MutableShareFile(path, self).writev([], 0)\n\n"
      "    def enumerate_mutable_shares(self, storage_index: bytes) -> set[int]:", "C24.7"),
    M("slot-created-on-read", SRV, "        if not os.path.isdir(bucketdir):\n            self.add_latency(\"readv\", self._clock.seconds() - start)\n            return {}\n",
      "        if not os.path.isdir(bucketdir):\n            self._allocate_slot_share(bucketdir, (b\"\", b\"\", b\"\"), 0)\n"
      "            self.add_latency(\"readv\", self._clock.seconds() - start)\n            return {}\n", "C24.7"),
    # ---- C24.8 validate before the first write
    M("space-check-inside-write-path", MUT, "        length = len(data)\n        precondition(offset >= 0)\n        data_length = self._read_data_length(f)\n        extra_lease_offset",
      "        length = len(data)\n        precondition(offset >= 0)\n        if self.parent is not None and length > self.parent.get_available_space():\n"
      "            raise NoSpace()\n        data_length = self._read_data_length(f)\n        extra_lease_offset", "C24.8"),
    M("repair-validate-sizes-first", SRV, "        remaining_shares = {}\n\n        for sharenum in test_and_write_vectors:",
      "        remaining_shares = {}\n\n        for sharenum in test_and_write_vectors:\n"
      "            for (offset, data) in test_and_write_vectors[sharenum][1]:\n"
      "                if offset + len(data) > MutableShareFile.MAX_SIZE:\n"
      "                    raise DataTooLargeError()\n\n        for sharenum in test_and_write_vectors:", None,
      edits=[(SRV, "from allmydata.storage.common import si_b2a, si_a2b, storage_index_to_dir\n",
              "from allmydata.storage.common import si_b2a, si_a2b, storage_index_to_dir, DataTooLargeError\n")],
      note="the repair of the C24.8 finding: the rule must accept it (and C23 must still analyse the write loop)"),
    # ---- C24.8 the early refusal covers every write of every named share (gap review)
    M("size-check-removed", SRV, SIZE_CHECK, "", "C24.8",
      note="the tree before fix b415ab1: share 0 is written, then share 1's oversized write raises DataTooLargeError"),
    M("size-check-existing-shares-only", SRV, SIZE_CHECK, SIZE_CHECK.replace("for sharenum in test_and_write_vectors:", "for sharenum in shares:"), "C24.8",
      note="{0: write 'x', 7 (new): write at MAX_SIZE}: share 0 is modified, then creating share 7 raises DataTooLargeError"),
    M("size-check-first-write-only", SRV, SIZE_CHECK, SIZE_CHECK.replace("in datav:", "in datav[:1]:"), "C24.8"),
    M("size-check-stops-after-first-share", SRV, "                    raise DataTooLargeError()\n\n        for sharenum",
      "                    raise DataTooLargeError()\n            break\n\n        for sharenum", "C24.8"),
    M("size-check-ignores-data-length", SRV, "                if offset + len(data) > MutableShareFile.MAX_SIZE:\n",
      "                if offset > MutableShareFile.MAX_SIZE:\n", "C24.8",
      note="offset = MAX_SIZE - 1 with two bytes passes the early check and is refused by _change_container_size"),
    M("size-check-skips-existing-shares", SRV, SIZE_CHECK, SIZE_CHECK.replace(
        "            for (offset, data) in datav:\n", "            if sharenum in shares:\n                continue\n            for (offset, data) in datav:\n"), "C24.8"),
    M("size-check-walks-test-vector", SRV, SIZE_CHECK, SIZE_CHECK.replace(
        "            for (offset, data) in datav:\n", "            for (offset, length, operator, data) in testv:\n"), "C24.8"),
    M("size-check-helper-existing-only", SRV, SIZE_CHECK, "        self._refuse_oversized_writes(test_and_write_vectors, shares)\n", "C24.8",
      edits=[(SRV, MAKE_LEASE_INFO, _size_helper("vectors, shares", "shares"))]),
    M("size-check-unrelated-condition", SRV, SIZE_CHECK,
      "        if len(test_and_write_vectors) > 256:\n            raise DataTooLargeError()\n", "ANALYSIS-ERROR",
      note="an early raise of the same class that does not examine the writes must not satisfy the rule by its name"),
    M("benign-size-check-items", SRV, SIZE_CHECK,
      "        for sharenum, (testv, datav, new_length) in test_and_write_vectors.items():\n"
      "            for (offset, data) in datav:\n"
      "                end = offset + len(data)\n"
      "                if not end <= MutableShareFile.MAX_SIZE:\n"
      "                    raise DataTooLargeError()\n", None),
    M("benign-size-check-indexed", SRV, SIZE_CHECK,
      "        for sharenum, vectors in sorted(test_and_write_vectors.items()):\n"
      "            for write in vectors[1]:\n"
      "                if write[0] + len(write[1]) > MutableShareFile.MAX_SIZE:\n"
      "                    raise DataTooLargeError()\n", None),
    M("benign-size-check-skips-empty-vectors", SRV, SIZE_CHECK, SIZE_CHECK.replace(
        "            for (offset, data) in datav:\n", "            if not datav:\n                continue\n            for (offset, data) in datav:\n"), None),
    M("benign-size-check-helper", SRV, SIZE_CHECK, "        self._refuse_oversized_writes(test_and_write_vectors)\n", None,
      edits=[(SRV, MAKE_LEASE_INFO, _size_helper("vectors", "vectors"))]),
    M("benign-size-check-in-caller", SRV, SIZE_CHECK, "", None,
      edits=[(SRV, "        if testv_is_good:\n            # now apply the write vectors\n",
              "        for sharenum in test_and_write_vectors:\n"
              "            for (offset, data) in test_and_write_vectors[sharenum][1]:\n"
              "                if offset + len(data) > MutableShareFile.MAX_SIZE:\n"
              "                    raise DataTooLargeError()\n"
              "        if testv_is_good:\n            # now apply the write vectors\n")]),
    # ---- C24.10 the write stage visits every named share (gap review)
    M("write-stage-stops-after-first-share", SRV, APPLY_TAIL,
      "                    os.rmdir(bucketdir)\n            break\n        return remaining_shares\n", "C24.10",
      note="a two-share request writes one share and reports success"),
    M("write-stage-existing-shares-only", SRV, APPLY_HEAD, APPLY_HEAD.replace("for sharenum in test_and_write_vectors:", "for sharenum in shares:"), "C24.10"),
    M("write-stage-first-named-share", SRV, APPLY_HEAD, APPLY_HEAD.replace(
        "for sharenum in test_and_write_vectors:", "for sharenum in list(test_and_write_vectors)[:1]:"), "C24.10"),
    M("write-stage-returns-after-delete", SRV, "                    shares[sharenum].unlink()\n",
      "                    shares[sharenum].unlink()\n                    return remaining_shares\n", "C24.10"),
    M("benign-write-stage-items", SRV, APPLY_HEAD,
      "        for sharenum, (testv, datav, new_length) in sorted(test_and_write_vectors.items()):\n"
      "            if new_length == 0:\n                if sharenum in shares:\n", None),
    # ---- C24.3 every collected share is read (gap review: the per-iteration check was vacuous)
    M("read-stage-skips-empty-shares", SRV, "            read_data[sharenum] = share.readv(read_vector)\n",
      "            if not share.get_length():\n                continue\n            read_data[sharenum] = share.readv(read_vector)\n", "C24.3"),
    # ---- C24.11 (adopted C23.9) the test stage is given the test vectors the client sent
    M("http-test-length-from-specimen", HTTP, HTTP_TEST_ELT, "(d[\"offset\"], len(d[\"specimen\"]), b\"eq\", d[\"specimen\"])", "C24.11",
      note="seeded C24-E: (0, 1, b'') - 'the share must not exist' - passes on an existing share and the writes are applied"),
    M("http-test-length-from-specimen-in-loop", HTTP, HTTP_TW_ARG, "                tw_vectors,\n", "C24.11",
      edits=[(HTTP, HTTP_TRY, _http_tw_hoisted("len(d[\"specimen\"])"))],
      note="same effect, the vectors rebuilt by statement loops"),
    M("http-only-first-test-forwarded", HTTP, "                            for d in v[\"test\"]\n", "                            for d in v[\"test\"][:1]\n", "C24.11",
      note="a request whose second test fails is applied"),
    M("foolscap-tests-dropped-for-shares-without-writes", SRV, FOOLSCAP_RTW_ARGS,
      "            secrets,\n            {k: v for (k, v) in test_and_write_vectors.items() if v[1]},\n            read_vector,\n"
      "            renew_leases=True,\n        )", "C24.11",
      note="a share that is only tested no longer takes part in the verdict: the other shares are written although its test fails"),
    M("foolscap-test-vectors-emptied", SRV, FOOLSCAP_RTW_ARGS,
      "            secrets,\n            {k: ([], v[1], v[2]) for (k, v) in test_and_write_vectors.items()},\n            read_vector,\n"
      "            renew_leases=True,\n        )", "C24.11"),
    M("benign-http-vectors-built-in-loops", HTTP, HTTP_TW_ARG, "                tw_vectors,\n", None,
      edits=[(HTTP, HTTP_TRY, _http_tw_hoisted("d[\"size\"]"))]),
    M("benign-foolscap-keyword-arguments", SRV, FOOLSCAP_RTW_ARGS,
      "            secrets,\n            read_vector=read_vector,\n            test_and_write_vectors=test_and_write_vectors,\n"
      "            renew_leases=True,\n        )", None),
    # ---- C24.12 the up-front size check admits nothing that the container refuses
    M("container-limit-on-lease-offset", MUT, CCS_CHECK,
      "        old_extra_lease_offset = self._read_extra_lease_offset(f)\n"
      "        new_extra_lease_offset = self.DATA_OFFSET + new_container_size\n"
      "        if new_extra_lease_offset > self.MAX_SIZE:\n"
      "            raise DataTooLargeError()\n", "C24.12",
      note="seeded C24-F: writes ending in the last 468 bytes below MAX_SIZE pass the up-front check and are refused after "
           "earlier shares were modified"),
    M("container-size-passed-with-header", MUT, "                self._change_container_size(f, offset+length)\n",
      "                self._change_container_size(f, self.DATA_OFFSET+offset+length)\n", "C24.12",
      note="same effect one call up: the limit is compared with the end of the data region in the file"),
    M("early-limit-includes-header", SRV, EARLY_TEST,
      "                if offset + len(data) > MutableShareFile.MAX_SIZE + MutableShareFile.DATA_OFFSET:\n", "C24.12",
      note="same disagreement produced on the other side"),
    M("container-limit-inclusive", MUT, "        if new_container_size > self.MAX_SIZE:\n", "        if new_container_size >= self.MAX_SIZE:\n", "C24.12",
      note="a write ending exactly at MAX_SIZE passes the up-front check and is refused by the container"),
    M("write-time-limit-on-stored-length", MUT, "        if offset+length >= data_length:\n            # They are expanding their data size.\n",
      "        if data_length + length > self.MAX_SIZE:\n            raise DataTooLargeError()\n"
      "        if offset+length >= data_length:\n            # They are expanding their data size.\n", "C24.12",
      note="a write-time refusal that depends on the share's state cannot have been anticipated by the up-front check"),
    M("benign-container-limit-negated-and-named", MUT, "        if new_container_size > self.MAX_SIZE:\n",
      "        limit = self.MAX_SIZE\n        if not new_container_size <= limit:\n", None),
    M("benign-container-limit-checked-in-write-step", MUT, "        if new_container_size > self.MAX_SIZE:\n            raise DataTooLargeError()\n", "", None,
      edits=[(MUT, "        length = len(data)\n        precondition(offset >= 0)\n",
              "        length = len(data)\n        precondition(offset >= 0)\n        end = offset + length\n"
              "        if end > MutableShareFile.MAX_SIZE:\n            raise DataTooLargeError()\n")],
      note="the same limit enforced one call earlier in the write step"),
    M("benign-early-limit-module-constant", SRV, EARLY_TEST, "                if offset + len(data) > MAX_MUTABLE_SHARE_SIZE:\n", None,
      note="the same number under its other name"),
    M("benign-container-limit-looser", MUT, "        if new_container_size > self.MAX_SIZE:\n",
      "        if new_container_size > self.MAX_SIZE + self.DATA_OFFSET:\n", None,
      note="unreachable after the up-front check either way: nothing admitted is refused"),
    # ---- behaviour-preserving
    M("benign-verdict-renamed", SRV, "        testv_is_good = self._evaluate_test_vectors(", "        ok = self._evaluate_test_vectors(", None,
      edits=[(SRV, "        if testv_is_good:\n", "        if ok:\n"), (SRV, "        return (testv_is_good, read_data)", "        return (ok, read_data)")]),
    M("benign-compare-hoisted", MUT, "        if not timing_safe_compare(write_enabler, real_write_enabler):",
      "        matches = timing_safe_compare(write_enabler, real_write_enabler)\n        if not matches:", None),
    M("benign-insert-before-check", SRV, "                msf.check_write_enabler(write_enabler, si_s)\n                shares[sharenum] = msf\n",
      "                shares[sharenum] = msf\n                msf.check_write_enabler(write_enabler, si_s)\n", None),
    M("benign-get-with-empty-default", SRV, TESTV_BRANCHES,
      "            share = shares.get(sharenum, EmptyShare())\n"
      "            if not share.check_testv(testv):\n"
      "                self.log(\"testv failed: [%d]: %r\" % (sharenum, testv))\n"
      "                return False\n", None),
    M("benign-guard-compared-to-true", SRV, "        if testv_is_good:\n            # now apply", "        if not (not testv_is_good):\n            # now apply", None),
    # ---- C24.7 through helpers split out of an allowed step (seeded C23-I, the refactor done faithfully)
    M("benign-write-share-data-split-faithful", MUT, MSF_WRITE_SHARE_DATA, MSF_WRITE_SHARE_DATA_SPLIT, None,
      edits=C23I_OTHER_HUNKS,
      note="the refactor of seeded C23-I done faithfully: _change_container_size is called by _ensure_container_holds, whose "
           "only caller is _write_share_data - the write path is still entered only through the guarded chain"),
    M("split-helper-exposed-as-reserve", MUT, MSF_WRITE_SHARE_DATA,
      MSF_WRITE_SHARE_DATA_SPLIT +
      "\n    def reserve(self, size):\n"
      "        # let a client pre-size the container\n"
      "        with open(self.home, 'rb+') as f:\n"
      "            self._ensure_container_holds(f, size)\n", "C24.7", edits=C23I_OTHER_HUNKS,
      note="refactored shape: the helper that enlarges the container is also reachable through a new entry point that no "
           "write enabler / test vector guards"),
    M("split-helper-called-from-add-lease", MUT, MSF_WRITE_SHARE_DATA, MSF_WRITE_SHARE_DATA_SPLIT, "C24.7",
      edits=C23I_OTHER_HUNKS + [
          (MUT, "            num_lease_slots = self._get_num_lease_slots(f)\n            empty_slot = self._get_first_empty_lease_slot(f)\n"
                "            if empty_slot is not None:\n                self._write_lease_record(f, empty_slot, lease_info)\n            else:\n",
                "            num_lease_slots = self._get_num_lease_slots(f)\n            empty_slot = self._get_first_empty_lease_slot(f)\n"
                "            self._ensure_container_holds(f, self._read_data_length(f) + lease_info.mutable_size())\n"
                "            if empty_slot is not None:\n                self._write_lease_record(f, empty_slot, lease_info)\n            else:\n")],
      note="refactored shape: add_lease (no write enabler, no test vector) moves the lease block through the split-out helper"),
    M("split-helper-handed-out-as-value", MUT, MSF_WRITE_SHARE_DATA,
      MSF_WRITE_SHARE_DATA_SPLIT +
      "\n    def get_resizer(self):\n"
      "        return self._ensure_container_holds\n", "C24.7", edits=C23I_OTHER_HUNKS,
      note="refactored shape: the helper escapes as a bound method through a function outside the chain"),
    # ---- vanished anchor
    M("vanish-collect", SRV, "    def _collect_mutable_shares_for_storage_index(self, bucketdir, write_enabler, si_s):",
      "    def _collect_mutable_shares_for_storage_indexX(self, bucketdir, write_enabler, si_s):", "ANALYSIS-ERROR"),
]
