from .runner import M

MUT = "src/allmydata/storage/mutable.py"
IMM = "src/allmydata/storage/immutable.py"
SRV = "src/allmydata/storage/server.py"
LEASE = "src/allmydata/storage/lease.py"
LSCH = "src/allmydata/storage/lease_schema.py"
MSCH = "src/allmydata/storage/mutable_schema.py"
ISCH = "src/allmydata/storage/immutable_schema.py"

MUT_AOR = ("        try:\n"
           "            self.renew_lease(lease_info.renew_secret,\n"
           "                             lease_info.get_expiration_time())\n"
           "        except IndexError:\n"
           "            self.add_lease(available_space, lease_info)\n")

IMM_AOR = ("        try:\n"
           "            self.renew_lease(lease_info.renew_secret,\n"
           "                             lease_info.get_expiration_time())\n"
           "        except IndexError:\n"
           "            if lease_info.immutable_size() > available_space:\n"
           "                raise NoSpace()\n"
           "            self.add_lease(lease_info)\n")

ENUM = ("    def _enumerate_leases(self, f):\n"
        "        for i in range(self._get_num_lease_slots(f)):\n"
        "            try:\n"
        "                data = self._read_lease_record(f, i)\n"
        "                if data is not None:\n"
        "                    yield i,data\n"
        "            except IndexError:\n"
        "                return\n")

CCS_READ = ("        f.seek(old_extra_lease_offset)\n"
            "        leases_size = 4 + num_extra_leases * self.LEASE_SIZE\n"
            "        extra_lease_data = f.read(leases_size)\n")

CCS_MOVE = ("        f.seek(old_extra_lease_offset)\n"
            "        f.write(b'\\x00' * leases_size)\n"
            "        f.flush()\n"
            "\n"
            "        # An interrupt here will corrupt the leases.\n"
            "\n"
            "        f.seek(new_extra_lease_offset)\n"
            "        f.write(extra_lease_data)\n"
            "        self._write_extra_lease_offset(f, new_extra_lease_offset)\n")

H_RENEW = ("    def renew(self, new_expire_time):\n"
           "        # Preserve the HashedLeaseInfo wrapper around the renewed LeaseInfo.\n"
           "        return attr.assoc(\n"
           "            self,\n"
           "            _lease_info=super(HashedLeaseInfo, self).renew(new_expire_time),\n"
           "        )\n"
           "\n")

H_IS_RENEW = ("    def is_renew_secret(self, candidate_secret):\n"
              "        # type: (bytes) -> bool\n"
              "        \"\"\"\n"
              "        Hash the candidate secret and compare the result to the stored hashed\n"
              "        secret.\n"
              "        \"\"\"\n"
              "        return super(HashedLeaseInfo, self).is_renew_secret(self._hash(candidate_secret))\n"
              "\n")

SER_HASH = ("        if isinstance(lease, LeaseInfo):\n"
            "            # v2 of the immutable schema stores lease secrets hashed.  If\n")

# a sibling of _change_container_size: give the space behind truncated share data back (the mechanism of seeded C25-G)
SHRINK_AT = "    def _write_share_data(self, f, offset, data):\n"
SHRINK_CALL = (MUT, "                    self._write_data_length(f, new_length)\n",
               "                    self._write_data_length(f, new_length)\n                    self._shrink_container(f, new_length)\n")
SHRINK_HEAD = ("    def _shrink_container(self, f, new_container_size):\n"
               "        old_extra_lease_offset = self._read_extra_lease_offset(f)\n"
               "        new_extra_lease_offset = self.DATA_OFFSET + new_container_size\n"
               "        if new_extra_lease_offset >= old_extra_lease_offset:\n"
               "            return\n"
               "        num_extra_leases = self._read_num_extra_leases(f)\n"
               "        leases_size = 4 + num_extra_leases * self.LEASE_SIZE\n"
               "        f.seek(old_extra_lease_offset)\n"
               "        extra_lease_data = f.read(leases_size)\n"
               "        f.seek(new_extra_lease_offset)\n"
               "        f.write(extra_lease_data)\n"
               "        f.flush()\n"
               "        self._write_extra_lease_offset(f, new_extra_lease_offset)\n")

# the same as a public maintenance method that opens the container itself
COMPACT_HEAD = ("    def compact(self):\n        with open(self.home, 'rb+') as f:\n"
                "            new_container_size = self._read_data_length(f)\n"
                + "".join("    " + ln + "\n" for ln in SHRINK_HEAD.split("\n")[1:-1]))


def shrink(tail, head=SHRINK_HEAD):
    return head + tail + "\n" + SHRINK_AT


MUTANTS = [
    # ---- C25.1 renew, else add
    M("add-even-when-renewed", MUT, MUT_AOR,
      "        try:\n            self.renew_lease(lease_info.renew_secret,\n                             lease_info.get_expiration_time())\n"
      "        except IndexError:\n            pass\n        self.add_lease(available_space, lease_info)\n", "C25.1"),
    M("no-space-silently-no-lease", IMM, "            if lease_info.immutable_size() > available_space:\n                raise NoSpace()\n",
      "            if lease_info.immutable_size() > available_space:\n                return\n", "C25.1"),
    M("any-renew-failure-adds", MUT, "        except IndexError:\n            self.add_lease(available_space, lease_info)\n",
      "        except Exception:\n            self.add_lease(available_space, lease_info)\n", "C25.1"),
    M("renew-attempt-with-cancel-secret", MUT, MUT_AOR, MUT_AOR.replace("lease_info.renew_secret", "lease_info.cancel_secret"), "C25.1"),
    M("server-adds-directly", SRV, "            share.add_or_renew_lease(self.get_available_space(), lease_info)",
      "            share.add_lease(self.get_available_space(), lease_info)", "C25.1"),
    M("slot-lease-secrets-swapped", SRV, "                lease_info = self._make_lease_info(renew_secret, cancel_secret)\n",
      "                lease_info = self._make_lease_info(cancel_secret, renew_secret)\n", "C25.1"),
    M("add-lease-secrets-swapped", SRV, "        lease_info = LeaseInfo(owner_num,\n                               renew_secret, cancel_secret,\n                               new_expire_time, self.my_nodeid)",
      "        lease_info = LeaseInfo(owner_num,\n                               cancel_secret, renew_secret,\n                               new_expire_time, self.my_nodeid)", "C25.1"),
    # ---- C25.2 never shortens
    M("renew-on-any-change-immutable", IMM, "                if allow_backdate or new_expire_time > lease.get_expiration_time():",
      "                if allow_backdate or new_expire_time != lease.get_expiration_time():", "C25.2"),
    M("renew-guard-flipped-mutable", MUT, "                    if allow_backdate or new_expire_time > lease.get_expiration_time():",
      "                    if allow_backdate or new_expire_time < lease.get_expiration_time():", "C25.2"),
    M("backdate-default-true", MUT, "    def renew_lease(self, renew_secret, new_expire_time, allow_backdate=False):",
      "    def renew_lease(self, renew_secret, new_expire_time, allow_backdate=True):", "C25.2"),
    M("server-renew-allows-backdate", SRV, "            sf.renew_lease(renew_secret, new_expire_time)",
      "            sf.renew_lease(renew_secret, new_expire_time, allow_backdate=True)", "C25.2"),
    M("unknown-secret-silent", IMM, "        raise IndexError(\"unable to renew non-existent lease\")", "        return None", "C25.2"),
    M("renew-matches-cancel-secret", IMM, "            if lease.is_renew_secret(renew_secret):", "            if lease.is_cancel_secret(renew_secret):", "C25.2"),
    M("renew-writes-slot-zero", IMM, "                        self._write_lease_record(f, i, lease)\n                return",
      "                        self._write_lease_record(f, 0, lease)\n                return", "C25.2"),
    M("renew-writes-every-lease", MUT,
      "                if lease.is_renew_secret(renew_secret):\n                    # yup. See if we need to update the owner time.\n",
      "                if lease.is_renew_secret(renew_secret) or allow_backdate:\n                    # yup. See if we need to update the owner time.\n", "C25.2"),
    M("renew-needs-backdate-flag", IMM, "                if allow_backdate or new_expire_time > lease.get_expiration_time():",
      "                if allow_backdate and new_expire_time > lease.get_expiration_time():", "C25.2"),
    M("server-renew-without-shares-silent", SRV, "        if not found_buckets:\n            raise IndexError(\"no such lease to renew\")\n", "", "C25.2"),
    # ---- C25.3 hashed secrets
    M("newest-mutable-schema-cleartext", MSCH, "_Schema.for_version(version=2, lease_serializer=v2_mutable)",
      "_Schema.for_version(version=2, lease_serializer=v1_mutable)", "C25.3"),
    M("v2-serializer-cleartext", LSCH, "v2_mutable = HashedLeaseSerializer(\n    HashedLeaseInfo.to_mutable_data,",
      "v2_mutable = CleartextLeaseSerializer(\n    LeaseInfo.to_mutable_data,", "C25.3"),
    M("newest-is-oldest", ISCH, "NEWEST_SCHEMA_VERSION = max(ALL_SCHEMAS", "NEWEST_SCHEMA_VERSION = min(ALL_SCHEMAS", "C25.3"),
    M("wrap-without-hashing", LSCH, "            lease = self._hash_lease_info(lease)\n",
      "            lease = HashedLeaseInfo(lease, self._hash_secret)\n", "C25.3"),
    M("cancel-secret-not-hashed", LSCH, "                cancel_secret=cls._hash_secret(lease_info.cancel_secret),\n",
      "                cancel_secret=lease_info.cancel_secret,\n", "C25.3"),
    M("record-bypasses-serializer", MUT, "        f.write(self._schema.lease_serializer.serialize(lease_info))",
      "        f.write(lease_info.to_mutable_data())", "C25.3"),
    M("immutable-default-schema-v1", IMM, "            schema=NEWEST_SCHEMA_VERSION,\n", "            schema=schema_from_version(1),\n", "C25.3"),
    M("bucketwriter-forces-v1", IMM, "ShareFile(incominghome, create=True, max_size=max_size)",
      "ShareFile(incominghome, create=True, max_size=max_size, schema=schema_from_version(1))", "C25.3"),
    M("unserialize-other-hash", LSCH, "        return HashedLeaseInfo(self._from_data(data), self._hash_secret)",
      "        return HashedLeaseInfo(self._from_data(data), lambda secret: secret)", "C25.3"),
    # ---- C25.4 struct agreement
    M("pack-order-swapped", LEASE, "                           self.renew_secret, self.cancel_secret,\n                           self.nodeid)",
      "                           self.cancel_secret, self.renew_secret,\n                           self.nodeid)", "C25.4"),
    M("unpack-names-swapped", LEASE, "            \"cancel_secret\",\n            \"expiration_time\",\n        ]",
      "            \"expiration_time\",\n            \"cancel_secret\",\n        ]", "C25.4"),
    M("mutable-format-widened", LEASE, "MUTABLE_FORMAT = \">LL32s32s20s\"", "MUTABLE_FORMAT = \">LL32s32s32s\"", "C25.4"),
    M("immutable-lease-size-literal", IMM, "    LEASE_SIZE = struct.calcsize(\">L32s32sL\")", "    LEASE_SIZE = struct.calcsize(\">L32s32sQ\")", "C25.4"),
    # ---- C25.5 candidate hashing / wrapper
    M("renew-candidate-not-hashed", LEASE, "        return super(HashedLeaseInfo, self).is_renew_secret(self._hash(candidate_secret))",
      "        return super(HashedLeaseInfo, self).is_renew_secret(candidate_secret)", "C25.5"),
    M("cancel-candidate-not-hashed", LEASE, "            hashed_candidate = self._hash(candidate_secret)\n", "            hashed_candidate = candidate_secret\n", "C25.5"),
    M("cancel-bypass-for-anything", LEASE, "        if isinstance(candidate_secret, _HashedCancelSecret):", "        if hasattr(candidate_secret, \"hashed_value\"):", "C25.5"),
    M("renew-drops-hashed-wrapper", LEASE,
      "        return attr.assoc(\n            self,\n            _lease_info=super(HashedLeaseInfo, self).renew(new_expire_time),\n        )",
      "        return super(HashedLeaseInfo, self).renew(new_expire_time)", "C25.5"),
    M("cleartext-compare-not-timing-safe", LEASE, "        return timing_safe_compare(self.renew_secret, candidate_secret)",
      "        return self.renew_secret == candidate_secret", "C25.5"),
    # ---- C25.6 slot layout
    M("writer-header-slot-bound", MUT, "        if lease_number < 4:\n            offset = self.HEADER_SIZE + lease_number * self.LEASE_SIZE\n        elif (lease_number-4) < num_extra_leases:\n            offset = (extra_lease_offset\n                      + 4\n                      + (lease_number-4)*self.LEASE_SIZE)\n        else:\n            # must add", "        if lease_number <= 4:\n            offset = self.HEADER_SIZE + lease_number * self.LEASE_SIZE\n        elif (lease_number-4) < num_extra_leases:\n            offset = (extra_lease_offset\n                      + 4\n                      + (lease_number-4)*self.LEASE_SIZE)\n        else:\n            # must add", "C25.6"),
    M("extra-lease-not-counted", MUT, "            self._write_num_extra_leases(f, num_extra_leases+1)\n", "            pass\n", "C25.6"),
    M("count-bumped-on-every-write", MUT, "        if add_extra_lease:\n", "        if add_extra_lease or lease_number >= 4:\n", "C25.6"),
    M("reader-ignores-count-field", MUT, "                      + 4\n                      + (lease_number-4)*self.LEASE_SIZE)\n        else:\n            raise IndexError",
      "                      + 0\n                      + (lease_number-4)*self.LEASE_SIZE)\n        else:\n            raise IndexError", "C25.6"),
    M("immutable-slot-off-by-one", IMM, "        offset = self._lease_offset + lease_number * self.LEASE_SIZE\n",
      "        offset = self._lease_offset + (lease_number + 1) * self.LEASE_SIZE\n", "C25.6"),
    M("immutable-count-skips-one", IMM, "struct.pack(self._lease_count_format, num_leases + 1)", "struct.pack(self._lease_count_format, num_leases + 2)", "C25.6"),
    M("slot-count-short", MUT, "        return 4+num_extra_leases", "        return 3+num_extra_leases", "C25.6"),
    # ---- C25.7 a renewal is never refused / skipped for lack of space
    M("space-check-before-renew-immutable", IMM, IMM_AOR,
      "        if lease_info.immutable_size() > available_space:\n            raise NoSpace()\n"
      "        try:\n            self.renew_lease(lease_info.renew_secret,\n                             lease_info.get_expiration_time())\n"
      "        except IndexError:\n            self.add_lease(lease_info)\n", "C25.7"),
    M("space-check-before-renew-mutable", MUT, MUT_AOR,
      "        if lease_info.mutable_size() > available_space:\n            raise NoSpace()\n" + MUT_AOR, "C25.7"),
    M("full-server-returns-early", IMM, IMM_AOR, "        if available_space <= 0:\n            return\n" + IMM_AOR, "C25.7"),
    M("precondition-on-space", MUT, "    def add_or_renew_lease(self, available_space, lease_info):\n        precondition(lease_info.owner_num != 0) # 0 means \"no lease here\"\n",
      "    def add_or_renew_lease(self, available_space, lease_info):\n        precondition(lease_info.owner_num != 0 and available_space > 0)\n", "C25.7"),
    M("server-skips-shares-when-full", SRV, "            share.add_or_renew_lease(self.get_available_space(), lease_info)",
      "            space = self.get_available_space()\n            if space is not None and space <= 0:\n                continue\n"
      "            share.add_or_renew_lease(space, lease_info)", "C25.7"),
    M("readonly-server-does-not-renew", SRV, "        if renew_leases:\n            self._add_or_renew_leases(alreadygot.values(), lease_info)",
      "        if renew_leases and not self.readonly_storage:\n            self._add_or_renew_leases(alreadygot.values(), lease_info)", "C25.7"),
    M("add-lease-only-with-space", SRV, "        self._add_or_renew_leases(\n            self._iter_share_files(storage_index),\n            lease_info,\n        )",
      "        if self.get_available_space() != 0:\n            self._add_or_renew_leases(\n                self._iter_share_files(storage_index),\n                lease_info,\n            )", "C25.7"),
    # ---- C25.8 enumeration index = slot number
    M("enumerate-live-leases", MUT, ENUM,
      "    def _enumerate_leases(self, f):\n        leases = []\n        for i in range(self._get_num_lease_slots(f)):\n            try:\n"
      "                data = self._read_lease_record(f, i)\n            except IndexError:\n                break\n"
      "            if data is not None:\n                leases.append(data)\n        return enumerate(leases)\n", "C25.8"),
    M("dense-counter-index", MUT, ENUM,
      "    def _enumerate_leases(self, f):\n        n = 0\n        for i in range(self._get_num_lease_slots(f)):\n            try:\n"
      "                data = self._read_lease_record(f, i)\n                if data is not None:\n                    yield n,data\n"
      "                    n += 1\n            except IndexError:\n                return\n", "C25.8"),
    M("collected-with-list-position", MUT, ENUM,
      "    def _enumerate_leases(self, f):\n        leases = []\n        for i in range(self._get_num_lease_slots(f)):\n            try:\n"
      "                data = self._read_lease_record(f, i)\n            except IndexError:\n                break\n"
      "            if data is not None:\n                leases.append((len(leases), data))\n        return leases\n", "C25.8"),
    M("extra-slots-only", MUT, "    def _enumerate_leases(self, f):\n        for i in range(self._get_num_lease_slots(f)):",
      "    def _enumerate_leases(self, f):\n        for i in range(self._read_num_extra_leases(f)):", "C25.8"),
    M("enumeration-hides-expired", MUT, "                if data is not None:\n                    yield i,data\n",
      "                if data is not None and data.get_expiration_time() > 0:\n                    yield i,data\n", "C25.8"),
    M("immutable-get-leases-filters", IMM, "                if data:\n                    yield self._schema.lease_serializer.unserialize(data)\n",
      "                if data:\n                    lease = self._schema.lease_serializer.unserialize(data)\n"
      "                    if lease.owner_num:\n                        yield lease\n", "C25.8"),
    M("cancel-blanks-wrong-slot", MUT, "                    self._write_lease_record(f, leasenum, blank_lease)\n",
      "                    self._write_lease_record(f, modified, blank_lease)\n", "C25.8"),
    M("cancel-blanks-unmatched", MUT, "                if lease.is_cancel_secret(cancel_secret):\n                    self._write_lease_record(f, leasenum, blank_lease)\n",
      "                if lease.is_cancel_secret(cancel_secret) or lease.is_renew_secret(cancel_secret):\n                    self._write_lease_record(f, leasenum, blank_lease)\n", "C25.8"),
    # ---- gap review (mutation sweep survivors)
    M("server-renew-always-reports-failure", SRV, "            found_buckets = True\n            sf.renew_lease(renew_secret, new_expire_time)",
      "            sf.renew_lease(renew_secret, new_expire_time)", "C25.2"),
    M("server-renew-fails-when-found", SRV, "        if not found_buckets:\n            raise IndexError(\"no such lease to renew\")\n",
      "        if found_buckets:\n            raise IndexError(\"no such lease to renew\")\n", "C25.2"),
    M("hash-wider-than-secret-field", LSCH, "        return blake2b(secret, digest_size=32, encoder=RawEncoder)",
      "        return blake2b(secret, digest_size=33, encoder=RawEncoder)", "C25.4"),
    M("hash-narrower-than-secret-field", LSCH, "        return blake2b(secret, digest_size=32, encoder=RawEncoder)",
      "        return blake2b(secret, digest_size=16, encoder=RawEncoder)", "C25.4"),
    M("hash-hex-encoded", LSCH, "        return blake2b(secret, digest_size=32, encoder=RawEncoder)",
      "        return blake2b(secret, digest_size=32)", "C25.4"),
    M("extra-count-read-unpositioned", MUT, "        f.seek(offset)\n        (num_extra_leases,) = struct.unpack(\">L\", f.read(4))",
      "        (num_extra_leases,) = struct.unpack(\">L\", f.read(4))", "C25.6"),
    M("extra-count-written-unpositioned", MUT, "        f.seek(extra_lease_offset)\n        f.write(struct.pack(\">L\", num_leases))",
      "        f.write(struct.pack(\">L\", num_leases))", "C25.6"),
    M("extra-count-seek-then-offset-read", MUT, "        extra_lease_offset = self._read_extra_lease_offset(f)\n        f.seek(extra_lease_offset)\n        f.write(struct.pack(\">L\", num_leases))",
      "        extra_lease_offset = self._read_extra_lease_offset(f)\n        f.seek(extra_lease_offset)\n        self._read_data_length(f)\n        f.write(struct.pack(\">L\", num_leases))", "C25.6"),
    M("extra-count-written-at-data-length", MUT, "        f.seek(extra_lease_offset)\n        f.write(struct.pack(\">L\", num_leases))",
      "        f.seek(self.DATA_LENGTH_OFFSET)\n        f.write(struct.pack(\">L\", num_leases))", "C25.6"),
    M("extra-count-ignores-argument", MUT, "        f.write(struct.pack(\">L\", num_leases))", "        f.write(struct.pack(\">L\", 0))", "C25.6"),
    M("extra-offset-read-unpositioned", MUT, "        f.seek(self.EXTRA_LEASE_OFFSET)\n        (extra_lease_offset,) = struct.unpack(\">Q\", f.read(8))",
      "        (extra_lease_offset,) = struct.unpack(\">Q\", f.read(8))", "C25.6"),
    M("immutable-count-never-stored", IMM, "            self._write_lease_record(f, num_leases, lease_info)\n            self._write_encoded_num_leases(f, new_lease_count)\n",
      "            self._write_lease_record(f, num_leases, lease_info)\n", "C25.6"),
    M("immutable-count-stored-only-sometimes", IMM, "            self._write_encoded_num_leases(f, new_lease_count)\n",
      "            if num_leases:\n                self._write_encoded_num_leases(f, new_lease_count)\n", "C25.6"),
    M("immutable-count-at-wrong-offset", IMM, "        f.seek(0x08)\n        f.write(encoded_num_leases)", "        f.seek(0x04)\n        f.write(encoded_num_leases)", "C25.6"),
    M("immutable-count-read-unpositioned", IMM, "        f.seek(0x08)\n        (num_leases,) = struct.unpack(", "        (num_leases,) = struct.unpack(", "C25.6"),
    M("allocate-forgets-existing-shares", SRV, "            alreadygot[shnum] = ShareFile(fn)\n", "            pass\n", "C25.7"),
    M("empty-slot-test-negated", MUT, "        if lease_info.owner_num == 0:\n            return None\n        return lease_info",
      "        if lease_info.owner_num != 0:\n            return None\n        return lease_info", "C25.9"),
    M("empty-slot-marker-is-owner-one", MUT, "        if lease_info.owner_num == 0:\n            return None\n        return lease_info",
      "        if lease_info.owner_num == 1:\n            return None\n        return lease_info", "C25.9"),
    M("every-slot-reads-empty", MUT, "        if lease_info.owner_num == 0:\n            return None\n        return lease_info",
      "        if lease_info.owner_num == 0:\n            return None\n        return None", "C25.9"),
    M("reader-returns-raw-bytes", MUT, "        if lease_info.owner_num == 0:\n            return None\n        return lease_info",
      "        if lease_info.owner_num == 0:\n            return None\n        return data", "C25.9"),
    M("first-empty-slot-is-first-live", MUT, "            if self._read_lease_record(f, i) is None:\n                return i",
      "            if self._read_lease_record(f, i) is not None:\n                return i", "C25.9"),
    M("first-empty-slot-off-by-one", MUT, "            if self._read_lease_record(f, i) is None:\n                return i",
      "            if self._read_lease_record(f, i) is None:\n                return i + 1", "C25.9"),
    M("first-empty-slot-from-previous-iteration", MUT, "        for i in range(self._get_num_lease_slots(f)):\n            if self._read_lease_record(f, i) is None:\n                return i\n        return None",
      "        last = None\n        for i in range(self._get_num_lease_slots(f)):\n            if self._read_lease_record(f, i) is None:\n                last = i\n        return i if last is not None else None", "C25.9"),
    M("new-lease-always-in-slot-zero", MUT, "                self._write_lease_record(f, empty_slot, lease_info)", "                self._write_lease_record(f, 0, lease_info)", "C25.9"),
    M("new-lease-over-last-slot", MUT, "                self._write_lease_record(f, num_lease_slots, lease_info)",
      "                self._write_lease_record(f, num_lease_slots - 1, lease_info)", "C25.9"),
    M("new-lease-not-written", MUT, "                self._write_lease_record(f, num_lease_slots, lease_info)", "                pass", "C25.9"),
    M("new-lease-slot-unchecked", MUT, "            if empty_slot is not None:\n                self._write_lease_record(f, empty_slot, lease_info)",
      "            if num_lease_slots:\n                self._write_lease_record(f, empty_slot, lease_info)", "C25.9"),
    # ---- C25.10 the extra-lease block survives container growth
    M("zero-old-block-after-copy", MUT, CCS_MOVE,
      "        f.seek(new_extra_lease_offset)\n        f.write(extra_lease_data)\n"
      "        self._write_extra_lease_offset(f, new_extra_lease_offset)\n        f.flush()\n\n"
      "        f.seek(old_extra_lease_offset)\n        f.write(b'\\x00' * leases_size)\n", "C25.10"),
    M("zero-old-block-last-pointer-first", MUT, CCS_MOVE,
      "        self._write_extra_lease_offset(f, new_extra_lease_offset)\n        f.seek(new_extra_lease_offset)\n"
      "        f.write(extra_lease_data)\n        blank = bytes(leases_size)\n        f.seek(old_extra_lease_offset)\n        f.write(blank)\n", "C25.10"),
    M("old-block-zeroed-before-read", MUT, CCS_READ,
      "        leases_size = 4 + num_extra_leases * self.LEASE_SIZE\n        f.seek(old_extra_lease_offset)\n"
      "        f.write(b'\\x00' * leases_size)\n        f.seek(old_extra_lease_offset)\n        extra_lease_data = f.read(leases_size)\n", "C25.10",
      edits=[(MUT, "        f.seek(old_extra_lease_offset)\n        f.write(b'\\x00' * leases_size)\n        f.flush()\n", "        f.flush()\n")]),
    M("block-read-without-count-field", MUT, "        leases_size = 4 + num_extra_leases * self.LEASE_SIZE\n",
      "        leases_size = num_extra_leases * self.LEASE_SIZE\n", "C25.10"),
    M("block-read-unpositioned", MUT, CCS_READ,
      "        leases_size = 4 + num_extra_leases * self.LEASE_SIZE\n        extra_lease_data = f.read(leases_size)\n", "C25.10"),
    M("block-read-after-data-length", MUT, CCS_READ,
      "        f.seek(old_extra_lease_offset)\n        leases_size = 4 + num_extra_leases * self.LEASE_SIZE\n"
      "        if self._read_data_length(f) > new_container_size:\n            return\n        extra_lease_data = f.read(leases_size)\n", "C25.10"),
    M("header-points-at-old-block", MUT, "        self._write_extra_lease_offset(f, new_extra_lease_offset)\n",
      "        self._write_extra_lease_offset(f, old_extra_lease_offset)\n", "C25.10"),
    M("copy-skipped-when-blocks-overlap", MUT, "        f.seek(new_extra_lease_offset)\n        f.write(extra_lease_data)\n",
      "        if new_extra_lease_offset - old_extra_lease_offset >= leases_size:\n            f.seek(new_extra_lease_offset)\n"
      "            f.write(extra_lease_data)\n", "C25.10"),
    # ---- C25.10 holds every function that repoints the extra-lease offset, whatever it is called (seeded C25-G)
    M("shrink-zeroes-whole-old-block-after-copy", MUT, SHRINK_AT,
      shrink("        f.seek(old_extra_lease_offset)\n        f.write(b'\\x00' * leases_size)\n        f.flush()\n"
             "        f.truncate(new_extra_lease_offset + leases_size)\n"), "C25.10", edits=[SHRINK_CALL],
      note="seeded C25-G: truncating the data by less than the block size makes the old and new blocks overlap, and zeroing "
           "the whole old block wipes the tail of the copy"),
    M("compact-blanks-old-block-after-copy", MUT, SHRINK_AT,
      shrink("        blank = bytes(leases_size)\n        f.seek(old_extra_lease_offset)\n        f.write(blank)\n").replace(
          "_shrink_container", "_compact").replace("new_container_size", "size").replace("extra_lease_data", "block"),
      "C25.10", edits=[(SHRINK_CALL[0], SHRINK_CALL[1], SHRINK_CALL[2].replace("_shrink_container", "_compact"))],
      note="the same slip under another name and spelling"),
    M("shrink-truncates-at-new-offset", MUT, SHRINK_AT, shrink("        f.truncate(new_extra_lease_offset)\n"), "C25.10",
      edits=[SHRINK_CALL], note="the file is cut where the relocated block begins: every extra lease is cut off"),
    M("shrink-truncates-without-count-field", MUT, SHRINK_AT,
      shrink("        f.truncate(new_extra_lease_offset + num_extra_leases * self.LEASE_SIZE)\n"), "C25.10", edits=[SHRINK_CALL]),
    M("shrink-repoints-without-copy", MUT, SHRINK_AT,
      "    def _shrink_container(self, f, new_container_size):\n"
      "        new_extra_lease_offset = self.DATA_OFFSET + new_container_size\n"
      "        if new_extra_lease_offset < self._read_extra_lease_offset(f):\n"
      "            self._write_extra_lease_offset(f, new_extra_lease_offset)\n"
      "            f.truncate(new_extra_lease_offset)\n\n" + SHRINK_AT, "C25.10", edits=[SHRINK_CALL]),
    M("shrink-copies-records-only", MUT, SHRINK_AT,
      shrink("        f.truncate(new_extra_lease_offset + leases_size)\n").replace(
          "leases_size = 4 + num_extra_leases", "leases_size = num_extra_leases"), "C25.10", edits=[SHRINK_CALL]),
    M("shrink-header-written-directly", MUT, SHRINK_AT,
      shrink("        f.truncate(new_extra_lease_offset + leases_size)\n").replace(
          "        self._write_extra_lease_offset(f, new_extra_lease_offset)\n",
          "        f.seek(self.EXTRA_LEASE_OFFSET)\n        f.write(struct.pack(\">Q\", new_extra_lease_offset))\n"),
      "ANALYSIS-ERROR", edits=[SHRINK_CALL], note="a relocation that bypasses the header-offset writer is not decided: fail closed"),
    M("benign-shrink-copy-repoint-truncate", MUT, SHRINK_AT,
      shrink("        f.truncate(new_extra_lease_offset + leases_size)\n"), None, edits=[SHRINK_CALL],
      note="a sound shrinking sibling: whole block read first, copied, header repointed, file cut at the end of the copy"),
    M("benign-shrink-zeroes-only-behind-the-copy", MUT, SHRINK_AT,
      shrink("        start = max(old_extra_lease_offset, new_extra_lease_offset + leases_size)\n"
             "        f.seek(start)\n        f.write(b'\\x00' * (old_extra_lease_offset + leases_size - start))\n        f.flush()\n"
             "        f.truncate(new_extra_lease_offset + leases_size)\n"), None, edits=[SHRINK_CALL],
      note="the repaired form of seeded C25-G: only the part of the old block that lies behind the copy is zeroed"),
    M("benign-compact-opens-the-file-itself", MUT, SHRINK_AT,
      shrink("            f.truncate(new_extra_lease_offset + leases_size)\n", COMPACT_HEAD), None,
      note="a relocator is known by the header-offset writer it calls, whatever it calls the file object"),
    M("compact-opens-the-file-itself-zeroes-old-block", MUT, SHRINK_AT,
      shrink("            f.seek(old_extra_lease_offset)\n            f.write(b'\\x00' * leases_size)\n"
             "            f.truncate(new_extra_lease_offset + leases_size)\n", COMPACT_HEAD), "C25.10"),
    # ---- C25.11 a matched renew secret never ends in 'no such lease'
    M("immutable-return-only-when-extended", IMM, "                        self._write_lease_record(f, i, lease)\n                return\n",
      "                        self._write_lease_record(f, i, lease)\n                    return\n", "C25.11"),
    M("mutable-return-only-when-extended", MUT, "                        self._write_lease_record(f, leasenum, lease)\n                    return\n",
      "                        self._write_lease_record(f, leasenum, lease)\n                        return\n", "C25.11"),
    M("match-and-later-merged", IMM, "            if lease.is_renew_secret(renew_secret):\n                # yup. See if we need to update the owner time.\n"
      "                if allow_backdate or new_expire_time > lease.get_expiration_time():\n                    # yes\n"
      "                    lease = lease.renew(new_expire_time)\n                    with open(self.home, 'rb+') as f:\n"
      "                        self._write_lease_record(f, i, lease)\n                return\n",
      "            if lease.is_renew_secret(renew_secret) and (allow_backdate or new_expire_time > lease.get_expiration_time()):\n"
      "                lease = lease.renew(new_expire_time)\n                with open(self.home, 'rb+') as f:\n"
      "                    self._write_lease_record(f, i, lease)\n                return\n", "C25.11"),
    M("matched-lease-breaks-out", IMM, "                        self._write_lease_record(f, i, lease)\n                return\n",
      "                        self._write_lease_record(f, i, lease)\n                break\n", "C25.11"),
    M("unchanged-expiry-is-an-error", MUT, "                        self._write_lease_record(f, leasenum, lease)\n                    return\n",
      "                        self._write_lease_record(f, leasenum, lease)\n                        return\n"
      "                    raise IndexError(\"lease is already newer\")\n", "C25.11"),
    # ---- behaviour-preserving
    M("benign-pointer-before-copy", MUT, CCS_MOVE,
      "        f.seek(old_extra_lease_offset)\n        f.write(b'\\x00' * leases_size)\n        f.flush()\n\n"
      "        self._write_extra_lease_offset(f, new_extra_lease_offset)\n        f.seek(new_extra_lease_offset)\n        f.write(extra_lease_data)\n", None),
    M("benign-zero-vacated-part-after-copy", MUT, CCS_MOVE,
      "        f.seek(new_extra_lease_offset)\n        f.write(extra_lease_data)\n        self._write_extra_lease_offset(f, new_extra_lease_offset)\n"
      "        f.flush()\n        vacated = min(leases_size, new_extra_lease_offset - old_extra_lease_offset)\n"
      "        f.seek(old_extra_lease_offset)\n        f.write(b'\\x00' * vacated)\n", None),
    M("benign-block-size-inlined", MUT, CCS_READ,
      "        where = old_extra_lease_offset\n        f.seek(where)\n        extra_lease_data = f.read(num_extra_leases * self.LEASE_SIZE + 4)\n"
      "        leases_size = len(extra_lease_data)\n", None),
    M("benign-match-inverted-continue", IMM, "            if lease.is_renew_secret(renew_secret):\n                # yup. See if we need to update the owner time.\n"
      "                if allow_backdate or new_expire_time > lease.get_expiration_time():\n                    # yes\n"
      "                    lease = lease.renew(new_expire_time)\n                    with open(self.home, 'rb+') as f:\n"
      "                        self._write_lease_record(f, i, lease)\n                return\n",
      "            if not lease.is_renew_secret(renew_secret):\n                continue\n"
      "            if allow_backdate or new_expire_time > lease.get_expiration_time():\n"
      "                lease = lease.renew(new_expire_time)\n                with open(self.home, 'rb+') as f:\n"
      "                    self._write_lease_record(f, i, lease)\n                return\n            return\n", None),
    M("benign-found-flag", IMM, "            if lease.is_renew_secret(renew_secret):\n                # yup. See if we need to update the owner time.\n"
      "                if allow_backdate or new_expire_time > lease.get_expiration_time():\n                    # yes\n"
      "                    lease = lease.renew(new_expire_time)\n                    with open(self.home, 'rb+') as f:\n"
      "                        self._write_lease_record(f, i, lease)\n                return\n        raise IndexError(\"unable to renew non-existent lease\")\n",
      "            if lease.is_renew_secret(renew_secret):\n                found = True\n"
      "                if allow_backdate or new_expire_time > lease.get_expiration_time():\n"
      "                    lease = lease.renew(new_expire_time)\n                    with open(self.home, 'rb+') as f:\n"
      "                        self._write_lease_record(f, i, lease)\n                break\n"
      "        if not found:\n            raise IndexError(\"unable to renew non-existent lease\")\n", None,
      edits=[(IMM, "        for i,lease in enumerate(self.get_leases()):\n            if lease.is_renew_secret(renew_secret):",
              "        found = False\n        for i,lease in enumerate(self.get_leases()):\n            if lease.is_renew_secret(renew_secret):")]),
    M("benign-return-in-both-branches", MUT, "                        self._write_lease_record(f, leasenum, lease)\n                    return\n",
      "                        self._write_lease_record(f, leasenum, lease)\n                        return\n                    else:\n"
      "                        return\n", None),
    M("benign-server-renew-early-return", SRV, "        if not found_buckets:\n            raise IndexError(\"no such lease to renew\")\n",
      "        if found_buckets:\n            return\n        raise IndexError(\"no such lease to renew\")\n", None),
    M("benign-digest-size-constant", LSCH, "        return blake2b(secret, digest_size=32, encoder=RawEncoder)",
      "        return blake2b(secret, digest_size=SECRET_HASH_SIZE, encoder=RawEncoder)", None,
      edits=[(LSCH, "@attr.s(frozen=True)\nclass HashedLeaseSerializer:", "SECRET_HASH_SIZE = 2 * 16\n\n@attr.s(frozen=True)\nclass HashedLeaseSerializer:")]),
    M("benign-count-seek-inlined", MUT, "        extra_lease_offset = self._read_extra_lease_offset(f)\n        f.seek(extra_lease_offset)\n        f.write(struct.pack(\">L\", num_leases))",
      "        f.seek(self._read_extra_lease_offset(f))\n        f.write(struct.pack(\">L\", num_leases))", None),
    M("benign-count-packed-first", MUT, "        extra_lease_offset = self._read_extra_lease_offset(f)\n        f.seek(extra_lease_offset)\n        f.write(struct.pack(\">L\", num_leases))",
      "        encoded = struct.pack(\">L\", num_leases)\n        where = self._read_extra_lease_offset(f)\n        f.seek(where)\n        f.write(encoded)", None),
    M("benign-count-read-renamed", MUT, "        offset = self._read_extra_lease_offset(f)\n        f.seek(offset)\n        (num_extra_leases,) = struct.unpack(\">L\", f.read(4))",
      "        where = self._read_extra_lease_offset(f)\n        f.seek(where)\n        raw = f.read(4)\n        (num_extra_leases,) = struct.unpack(\">L\", raw)", None),
    M("benign-extra-offset-via-class", MUT, "        f.seek(self.EXTRA_LEASE_OFFSET)\n        (extra_lease_offset,) = struct.unpack(\">Q\", f.read(8))",
      "        f.seek(MutableShareFile.DATA_LENGTH_OFFSET + 8)\n        (extra_lease_offset,) = struct.unpack(\">Q\", f.read(8))", None),
    M("benign-immutable-count-renamed", IMM, "            new_lease_count = struct.pack(self._lease_count_format, num_leases + 1)\n            self._write_lease_record(f, num_leases, lease_info)\n            self._write_encoded_num_leases(f, new_lease_count)\n",
      "            encoded = struct.pack(self._lease_count_format, num_leases + 1)\n            self._write_lease_record(f, num_leases, lease_info)\n            self._write_encoded_num_leases(f, encoded)\n", None),
    M("benign-immutable-count-offset-decimal", IMM, "        f.seek(0x08)\n        f.write(encoded_num_leases)", "        f.seek(4 + 4)\n        f.write(encoded_num_leases)", None),
    M("benign-allocate-shares-hoisted", SRV, "        for (shnum, fn) in self.get_shares(storage_index):\n            alreadygot[shnum] = ShareFile(fn)\n",
      "        existing = list(self.get_shares(storage_index))\n        for (shnum, fn) in existing:\n            alreadygot[shnum] = ShareFile(fn)\n", None),
    M("benign-empty-slot-truthiness", MUT, "        if lease_info.owner_num == 0:\n            return None\n        return lease_info",
      "        if lease_info.owner_num:\n            return lease_info\n        return None", None),
    M("benign-empty-slot-not-equal", MUT, "        if lease_info.owner_num == 0:\n            return None\n        return lease_info",
      "        record = lease_info\n        if not record.owner_num != 0:\n            return None\n        return record", None),
    M("benign-first-empty-slot-hoisted", MUT, "            if self._read_lease_record(f, i) is None:\n                return i",
      "            record = self._read_lease_record(f, i)\n            if record is not None:\n                continue\n            return i", None),
    M("benign-add-lease-branches-swapped", MUT,
      "            if empty_slot is not None:\n                self._write_lease_record(f, empty_slot, lease_info)\n            else:\n"
      "                if lease_info.mutable_size() > available_space:\n                    raise NoSpace()\n"
      "                self._write_lease_record(f, num_lease_slots, lease_info)\n",
      "            if empty_slot is None:\n                if lease_info.mutable_size() > available_space:\n                    raise NoSpace()\n"
      "                self._write_lease_record(f, num_lease_slots, lease_info)\n            else:\n"
      "                self._write_lease_record(f, empty_slot, lease_info)\n", None),
    M("benign-add-lease-slot-renamed", MUT,
      "            empty_slot = self._get_first_empty_lease_slot(f)\n            if empty_slot is not None:\n                self._write_lease_record(f, empty_slot, lease_info)\n",
      "            slot = self._get_first_empty_lease_slot(f)\n            if slot is not None:\n                self._write_lease_record(f, slot, lease_info)\n", None),
    M("benign-guard-flipped", IMM, "                if allow_backdate or new_expire_time > lease.get_expiration_time():",
      "                if allow_backdate or lease.get_expiration_time() < new_expire_time:", None),
    M("benign-secret-hoisted", MUT, MUT_AOR,
      "        secret = lease_info.renew_secret\n        try:\n            self.renew_lease(secret,\n"
      "                             lease_info.get_expiration_time())\n        except IndexError:\n"
      "            self.add_lease(available_space, lease_info)\n", None),
    M("benign-slot-renamed", MUT, "            for (leasenum,lease) in self._enumerate_leases(f):\n                if lease.is_renew_secret",
      "            for (slot,lease) in self._enumerate_leases(f):\n                if lease.is_renew_secret", None,
      edits=[(MUT, "                        self._write_lease_record(f, leasenum, lease)\n                    return",
              "                        self._write_lease_record(f, slot, lease)\n                    return")]),
    M("benign-hash-hoisted", LEASE, "        return super(HashedLeaseInfo, self).is_renew_secret(self._hash(candidate_secret))",
      "        hashed = self._hash(candidate_secret)\n        return super(HashedLeaseInfo, self).is_renew_secret(hashed)", None),
    M("benign-not-clear-test", LSCH, "        if isinstance(lease, LeaseInfo):\n            # v2 of the immutable schema",
      "        if not (not isinstance(lease, LeaseInfo)):\n            # v2 of the immutable schema", None),
    M("benign-extra-slot-test-rearranged", MUT, "        if lease_number < 4:\n            offset = self.HEADER_SIZE + lease_number * self.LEASE_SIZE\n        elif (lease_number-4) < num_extra_leases:\n            offset = (extra_lease_offset\n                      + 4\n                      + (lease_number-4)*self.LEASE_SIZE)\n        else:\n            # must add", "        if lease_number < 4:\n            offset = self.HEADER_SIZE + lease_number * self.LEASE_SIZE\n        elif lease_number < num_extra_leases + 4:\n            offset = (extra_lease_offset\n                      + 4\n                      + (lease_number-4)*self.LEASE_SIZE)\n        else:\n            # must add", None),
    M("benign-space-check-after-else", IMM, IMM_AOR,
      "        try:\n            self.renew_lease(lease_info.renew_secret,\n                             lease_info.get_expiration_time())\n"
      "        except IndexError:\n            pass\n        else:\n            return\n"
      "        if lease_info.immutable_size() > available_space:\n            raise NoSpace()\n        self.add_lease(lease_info)\n", None),
    M("benign-size-hoisted", IMM, IMM_AOR, "        needed = lease_info.immutable_size()\n" + IMM_AOR.replace(
        "if lease_info.immutable_size() > available_space", "if needed > available_space"), None),
    M("benign-no-shares-no-call", SRV, "        if renew_leases:\n            self._add_or_renew_leases(alreadygot.values(), lease_info)",
      "        if renew_leases and alreadygot:\n            self._add_or_renew_leases(alreadygot.values(), lease_info)", None),
    M("benign-server-space-hoisted", SRV, "            share.add_or_renew_lease(self.get_available_space(), lease_info)",
      "            space = self.get_available_space()\n            share.add_or_renew_lease(space, lease_info)", None),
    M("benign-enumerate-up-front", MUT, ENUM,
      "    def _enumerate_leases(self, f):\n        found = []\n        for slot in range(self._get_num_lease_slots(f)):\n            try:\n"
      "                lease = self._read_lease_record(f, slot)\n            except IndexError:\n                break\n"
      "            if lease is not None:\n                found.append((slot, lease))\n        return iter(found)\n", None),
    M("benign-enumerate-continue", MUT, ENUM,
      "    def _enumerate_leases(self, f):\n        nslots = self._get_num_lease_slots(f)\n        for i in range(nslots):\n            try:\n"
      "                data = self._read_lease_record(f, i)\n            except IndexError:\n                return\n"
      "            if data is None:\n                continue\n            yield (i, data)\n", None),
    M("benign-get-leases-continue", IMM, "                if data:\n                    yield self._schema.lease_serializer.unserialize(data)\n",
      "                if not data:\n                    continue\n                yield self._schema.lease_serializer.unserialize(data)\n", None),
    M("benign-cancel-slot-renamed", MUT, "            for (leasenum,lease) in self._enumerate_leases(f):\n                accepting_nodeids.add(lease.nodeid)\n"
      "                if lease.is_cancel_secret(cancel_secret):\n                    self._write_lease_record(f, leasenum, blank_lease)\n",
      "            for (slot,lease) in self._enumerate_leases(f):\n                accepting_nodeids.add(lease.nodeid)\n"
      "                matched = lease.is_cancel_secret(cancel_secret)\n                if matched:\n                    self._write_lease_record(f, slot, blank_lease)\n", None),
    # ---- C25.12 the hashed representation is closed (and C25.5: a deleted override is a violation, not a vanished anchor)
    M("renew-override-removed-as-redundant", LEASE, H_RENEW, "", ["C25.12"]),
    M("renew-override-removed-c25-5-reports-too", LEASE, H_RENEW, "", ["C25.5"]),
    M("renew-override-forwards-by-hand", LEASE, H_RENEW,
      "    def renew(self, new_expire_time):\n        return self._lease_info.renew(new_expire_time)\n\n", "C25.12"),
    M("renew-override-copies-the-wrapped-lease", LEASE, H_RENEW,
      "    def renew(self, new_expire_time):\n        renewed = attr.assoc(self._lease_info, _expiration_time=new_expire_time)\n"
      "        return renewed\n\n", "C25.12"),
    M("serializer-duck-types-the-lease", LSCH, SER_HASH, SER_HASH.replace("isinstance(lease, LeaseInfo)", "hasattr(lease, \"cancel_secret\")"), "C25.12"),
    M("serializer-hashes-both-lease-types", LSCH, SER_HASH, SER_HASH.replace("isinstance(lease, LeaseInfo)", "isinstance(lease, (LeaseInfo, HashedLeaseInfo))"), "C25.12"),
    M("wrapper-made-a-plain-lease-subclass", LEASE, "class HashedLeaseInfo(proxyForInterface(ILeaseInfo, \"_lease_info\")):",
      "class HashedLeaseInfo(proxyForInterface(ILeaseInfo, \"_lease_info\"), LeaseInfo):", "C25.12"),
    M("renewed-record-rebuilt-from-stored-lease", MUT, "                        lease = lease.renew(new_expire_time)\n",
      "                        lease = LeaseInfo(lease.owner_num, renew_secret, lease.cancel_secret,\n"
      "                                          new_expire_time, lease.nodeid)\n", "C25.12"),
    M("is-renew-secret-override-removed", LEASE, H_IS_RENEW, "", "C25.5"),
    M("benign-renew-builds-new-wrapper", LEASE, H_RENEW,
      "    def renew(self, new_expire_time):\n        renewed = self._lease_info.renew(new_expire_time)\n"
      "        return HashedLeaseInfo(renewed, self._hash)\n\n", None),
    M("benign-renew-evolve-hoisted", LEASE, H_RENEW,
      "    def renew(self, new_expire_time):\n        renewed = super(HashedLeaseInfo, self).renew(new_expire_time)\n"
      "        return attr.evolve(self, lease_info=renewed)\n\n", None),
    M("benign-serializer-tests-for-wrapper", LSCH, SER_HASH, SER_HASH.replace("isinstance(lease, LeaseInfo)", "not isinstance(lease, HashedLeaseInfo)"), None),
    M("benign-serializer-exact-type-test", LSCH, "        if isinstance(lease, HashedLeaseInfo):\n            return self._to_data(lease)",
      "        if type(lease) is HashedLeaseInfo:\n            return self._to_data(lease)", None),
    M("benign-renewed-lease-hoisted", IMM, "                    lease = lease.renew(new_expire_time)\n                    with open(self.home, 'rb+') as f:\n"
      "                        self._write_lease_record(f, i, lease)\n",
      "                    renewed = lease.renew(new_expire_time)\n                    with open(self.home, 'rb+') as f:\n"
      "                        self._write_lease_record(f, i, renewed)\n", None),
    # ---- vanished anchor
    M("vanish-add-or-renew", MUT, "    def add_or_renew_lease(self, available_space, lease_info):",
      "    def add_or_renew_leaseX(self, available_space, lease_info):", "ANALYSIS-ERROR"),
]
