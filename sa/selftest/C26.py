"""Self-test variants for C26.

The unchanged tree carries a genuine C26.1/C26.2 finding (age mode without
override compares a duration with a timestamp).  So that every variant is
judged against a tree on which the rules are otherwise silent, the variants
are written against the *repaired* form of that one line: while the defect is
still present in /repo the one-line repair is applied first (in the overlay
only) and the variant's own edit second; once /repo is repaired the variant's
edit is applied directly."""
from ..index import read_repo_text
from .runner import M

EXP = "src/allmydata/storage/expirer.py"
LEASE = "src/allmydata/storage/lease.py"
IMM = "src/allmydata/storage/immutable.py"
MUT = "src/allmydata/storage/mutable.py"
CLIENT = "src/allmydata/client.py"
SERVER = "src/allmydata/storage/server.py"
CRAWLER = "src/allmydata/storage/crawler.py"
TF = "src/allmydata/util/time_format.py"

BUG = "                age_limit = original_expiration_time\n"
FIX = "                age_limit = original_expiration_time - grant_renew_time\n"

try:
    _DEFECT_PRESENT = BUG in read_repo_text(EXP)
except Exception:
    _DEFECT_PRESENT = False


def mk(mid, path, old, new, expect, edits=None, note=""):
    edits = list(edits or [])
    if _DEFECT_PRESENT:
        return M(mid, EXP, BUG, FIX, expect, edits=[(path, old, new)] + edits, note=note)
    return M(mid, path, old, new, expect, edits=edits, note=note)


AGE_BLOCK = ("                age_limit = original_expiration_time - grant_renew_time\n"
             "                if self.override_lease_duration is not None:\n"
             "                    age_limit = self.override_lease_duration\n"
             "                if age > age_limit:\n"
             "                    expired = True\n")

INIT_BLOCK = "        num_valid_leases_configured = 0\n        expired_leases_configured = []\n"
RESET_COMMENT = "            #  expired-or-not according to our configured age limit\n"
RESET = RESET_COMMENT + "            expired = False\n"

MUTANTS = [
    # ---- C26.1 dimension analysis
    M("age-limit-is-a-timestamp", EXP, FIX, BUG, "C26.1",
      note="the genuine defect itself; only applicable once /repo carries the repair"),
    mk("cutoff-compared-with-age", EXP,
       "                if grant_renew_time < self.cutoff_date:", "                if age > self.cutoff_date:", "C26.1"),
    mk("override-turned-into-deadline", EXP,
       "                    age_limit = self.override_lease_duration\n",
       "                    age_limit = grant_renew_time + self.override_lease_duration\n", "C26.1"),
    mk("get-age-returns-timestamp", LEASE,
       "        return time.time() - self.get_grant_renew_time_time()\n",
       "        return self.get_grant_renew_time_time()\n", "C26.1"),
    mk("original-expiry-vs-age", EXP,
       "            if original_expiration_time > now:", "            if original_expiration_time > age:", "C26.1"),
    mk("renewal-hack-assumes-30-days", LEASE,
       "        return self._expiration_time - 31*24*60*60\n", "        return self._expiration_time - 30*24*60*60\n", "C26.1"),
    mk("granted-duration-raised", SERVER,
       "DEFAULT_RENEWAL_TIME = 31 * 24 * 60 * 60\n", "DEFAULT_RENEWAL_TIME = 60 * 24 * 60 * 60\n", "C26.1"),
    mk("lease-granted-as-duration", SERVER,
       "        new_expire_time = self._clock.seconds() + DEFAULT_RENEWAL_TIME\n        found_buckets = False\n",
       "        new_expire_time = DEFAULT_RENEWAL_TIME\n        found_buckets = False\n", "C26.1"),
    # ---- C26.2 decision table
    mk("age-comparison-flipped", EXP, "                if age > age_limit:", "                if age < age_limit:", "C26.2"),
    mk("cutoff-uses-expiration-time", EXP,
       "                if grant_renew_time < self.cutoff_date:",
       "                if original_expiration_time < self.cutoff_date:", "C26.2"),
    mk("cutoff-comparison-flipped", EXP,
       "                if grant_renew_time < self.cutoff_date:", "                if grant_renew_time > self.cutoff_date:", "C26.2"),
    mk("sharetype-filter-dropped", EXP,
       "            if sharetype not in self.sharetypes_to_expire:\n                expired = False\n", "", "C26.2"),
    mk("sharetype-filter-inverted", EXP,
       "            if sharetype not in self.sharetypes_to_expire:", "            if sharetype in self.sharetypes_to_expire:", "C26.2"),
    mk("override-ignored", EXP,
       "                if self.override_lease_duration is not None:\n                    age_limit = self.override_lease_duration\n",
       "", "C26.2"),
    mk("queue-the-valid-leases", EXP,
       "            if expired:\n                expired_leases_configured.append(li)\n            else:\n                num_valid_leases_configured += 1\n",
       "            if not expired:\n                expired_leases_configured.append(li)\n            else:\n                num_valid_leases_configured += 1\n",
       "C26.2"),
    mk("mode-test-dropped", EXP,
       "            if self.mode == \"age\":\n" + AGE_BLOCK +
       "            else:\n                assert self.mode == \"cutoff-date\"\n                if grant_renew_time < self.cutoff_date:\n                    expired = True\n",
       "            age_limit = original_expiration_time - grant_renew_time\n"
       "            if self.override_lease_duration is not None:\n"
       "                age_limit = self.override_lease_duration\n"
       "            if age > age_limit:\n"
       "                expired = True\n", "C26.2"),
    mk("age-boundary-expires", EXP, "                if age > age_limit:", "                if age >= age_limit:", "C26.2",
       note="sweep survivor: a lease whose age equals its duration is expired; the documented predicate is strict"),
    mk("cutoff-boundary-expires", EXP,
       "                if grant_renew_time < self.cutoff_date:", "                if grant_renew_time <= self.cutoff_date:", "C26.2",
       note="sweep survivor: renewal time and cutoff are whole seconds - a lease renewed at the cutoff is not 'older than' it"),
    mk("cutoff-boundary-expires-negated-form", EXP,
       "                if grant_renew_time < self.cutoff_date:", "                if not grant_renew_time > self.cutoff_date:", "C26.2"),
    mk("stop-examining-after-first-expired", EXP,
       "            if expired:\n                expired_leases_configured.append(li)\n",
       "            if expired:\n                expired_leases_configured.append(li)\n                break\n", "C26.2",
       note="one expired lease per share and cycle: a fully expired share outlives the cycle"),
    mk("stop-examining-at-first-expired-unqueued", EXP,
       "            if expired:\n                expired_leases_configured.append(li)\n",
       "            if expired and num_leases > 4:\n                break\n            if expired:\n                expired_leases_configured.append(li)\n",
       "C26.2", note="loop left on an expired lease without an unexpired verdict"),
    # ---- C26.3 guarded effect
    mk("cancel-only-the-first-expired", EXP,
       "                sf.cancel_lease(li.cancel_secret)\n", "                sf.cancel_lease(li.cancel_secret)\n                break\n",
       "C26.3", note="the other expired leases stay until later cycles"),
    mk("cancel-without-enabled", EXP,
       "        if self.expiration_enabled:\n            for li in expired_leases_configured:\n                sf.cancel_lease(li.cancel_secret)\n",
       "        for li in expired_leases_configured:\n            sf.cancel_lease(li.cancel_secret)\n", "C26.3"),
    mk("cancel-when-nothing-valid", EXP,
       "        if self.expiration_enabled:\n            for li in expired_leases_configured:",
       "        if self.expiration_enabled or num_valid_leases_original == 0:\n            for li in expired_leases_configured:",
       "C26.3"),
    mk("cancel-in-the-decision-loop", EXP,
       "            if expired:\n                expired_leases_configured.append(li)\n",
       "            if expired:\n                expired_leases_configured.append(li)\n                sf.cancel_lease(li.cancel_secret)\n",
       "C26.3"),
    mk("original-expiry-also-queued", EXP,
       "        if num_valid_leases_original == 0:\n            would_keep_share[0] = 0\n",
       "        if num_valid_leases_original == 0:\n            expired_leases_configured.extend(sf.get_leases())\n            would_keep_share[0] = 0\n",
       "C26.3"),
    # ---- C26.4 unlink conditions
    mk("immutable-unlink-when-any-removed", IMM, "        if not len(leases):", "        if num_leases_removed:", "C26.4"),
    mk("mutable-unlink-when-modified", MUT, "                if not remaining:", "                if modified:", "C26.4"),
    mk("immutable-drop-without-secret-match", IMM,
       "            if lease.is_cancel_secret(cancel_secret):\n                leases[i] = None\n",
       "            if lease.is_cancel_secret(cancel_secret) or lease.get_expiration_time() < time.time():\n                leases[i] = None\n",
       "C26.4"),
    mk("mutable-remaining-reset", MUT,
       "                    self._write_lease_record(f, leasenum, blank_lease)\n                    modified += 1\n",
       "                    self._write_lease_record(f, leasenum, blank_lease)\n                    modified += 1\n                    remaining = 0\n",
       "C26.4"),
    mk("immutable-remaining-not-rebuilt", IMM,
       "        if num_leases_removed:\n            # pack and write out",
       "        if num_leases_removed > 1:\n            # pack and write out", "C26.4"),
    mk("mutable-match-not-blanked", MUT,
       "                    self._write_lease_record(f, leasenum, blank_lease)\n                    modified += 1\n",
       "                    modified += 1\n", "C26.4"),
    mk("immutable-survivors-not-rewritten", IMM,
       "                for i, lease in enumerate(leases):\n                    self._write_lease_record(f, i, lease)\n                self._write_num_leases(f, len(leases))\n",
       "                self._write_num_leases(f, len(leases))\n", "C26.4"),
    mk("immutable-count-not-written", IMM,
       "                self._write_num_leases(f, len(leases))\n                self._truncate_leases(f, len(leases))\n",
       "                self._truncate_leases(f, len(leases))\n", "ANALYSIS-ERROR"),
    mk("mutable-blank-marker-changed", MUT,
       "        blank_lease = LeaseInfo(owner_num=0,\n                                renew_secret=b\"\\x00\"*32,\n                                cancel_secret=b\"\\x00\"*32,\n                                expiration_time=0,\n                                nodeid=b\"\\x00\"*20)\n        with open(self.home, 'rb+') as f:\n            for (leasenum,lease) in self._enumerate_leases(f):\n                accepting_nodeids.add(lease.nodeid)\n                if lease.is_cancel_secret",
       "        blank_lease = LeaseInfo(owner_num=1,\n                                renew_secret=b\"\\x00\"*32,\n                                cancel_secret=b\"\\x00\"*32,\n                                expiration_time=0,\n                                nodeid=b\"\\x00\"*20)\n        with open(self.home, 'rb+') as f:\n            for (leasenum,lease) in self._enumerate_leases(f):\n                accepting_nodeids.add(lease.nodeid)\n                if lease.is_cancel_secret",
       "C26.4"),
    # ---- C26.7 cancelling the last lease reaches the unlink
    mk("mutable-cancelled-share-reported-missing", MUT, "            if modified:\n", "            if not modified:\n", "C26.7",
       note="sweep survivor: the lease is blanked, then IndexError instead of the unlink decision"),
    mk("mutable-match-not-counted", MUT, "                    modified += 1\n", "", "C26.7",
       note="sweep survivor: a cancellation that is never counted ends in IndexError, the share stays"),
    mk("mutable-unlink-behind-remaining", MUT, "            if modified:\n", "            if remaining:\n", "C26.7",
       note="the unlink decision is only entered when a lease remains, where it can only say no"),
    mk("immutable-match-not-counted", IMM, "                num_leases_removed += 1\n", "", "C26.7",
       note="sweep survivor"),
    mk("immutable-unlink-only-without-removal", IMM,
       "        space_freed = self.LEASE_SIZE * num_leases_removed\n        if not len(leases):\n",
       "        space_freed = self.LEASE_SIZE * num_leases_removed\n        if not len(leases) and not num_leases_removed:\n",
       "C26.7", note="unlink conjoined with a counter test that is false after every successful cancellation"),
    # ---- C26.8 'no lease remains' covers every lease of the share
    mk("mutable-stop-scanning-at-the-match", MUT,
       "                    modified += 1\n                else:\n                    remaining += 1\n",
       "                    modified += 1\n                    break\n                remaining += 1\n", "C26.8",
       note="seeded C26-C: 'remaining' only counts the slots in front of the cancelled lease"),
    mk("mutable-stop-scanning-once-modified", MUT,
       "                else:\n                    remaining += 1\n            if modified:\n",
       "                else:\n                    remaining += 1\n                if modified:\n                    break\n            if modified:\n",
       "C26.8", note="same effect, the break sits at the end of the loop body"),
    mk("mutable-unlink-decided-at-the-match", MUT,
       "                    self._write_lease_record(f, leasenum, blank_lease)\n                    modified += 1\n",
       "                    self._write_lease_record(f, leasenum, blank_lease)\n                    modified += 1\n"
       "                    if not remaining:\n                        self.unlink()\n                        return 0\n",
       "C26.8", note="the unlink decision taken from inside the enumeration"),
    mk("mutable-only-first-slots-scanned", MUT,
       "            for (leasenum,lease) in self._enumerate_leases(f):\n                accepting_nodeids.add(lease.nodeid)\n                if lease.is_cancel_secret",
       "            for (leasenum,lease) in list(self._enumerate_leases(f))[:4]:\n                accepting_nodeids.add(lease.nodeid)\n                if lease.is_cancel_secret",
       "C26.8", note="only the four header slots are looked at; leases in the extra-lease area are not counted"),
    mk("immutable-remaining-cut-before-filtering", IMM,
       "            leases = [l for l in leases if l] # remove the cancelled leases\n",
       "            leases = [l for l in leases[:len(leases) - num_leases_removed] if l] # remove the cancelled leases\n",
       "C26.8", note="the list is cut to its new length before the cancelled entries are filtered out: trailing valid leases are lost"),
    # ---- C26.9 (adopted from C27) every cycle reaches every bucket
    mk("resume-marker-reset-moved-into-replaced-hook", CRAWLER,
       "        state[\"last-complete-bucket\"] = None\n        state[\"last-cycle-finished\"] = cycle\n",
       "        state[\"last-cycle-finished\"] = cycle\n", "C26.9",
       edits=[(CRAWLER, "        This method is for subclasses to override. No upcall is necessary.\n        \"\"\"\n        pass\n\n    def process_bucket(",
               "        This method is for subclasses to override.\n        \"\"\"\n        self.state[\"last-complete-bucket\"] = None\n\n    def process_bucket(")],
       note="seeded C26-D: the expirer replaces started_cycle, so it keeps the previous cycle's resume marker"),
    mk("prefix-index-not-rewound", CRAWLER,
       "        self.last_complete_prefix_index = -1\n        self.last_prefix_finished_time = None # don't include the sleep\n",
       "        self.last_prefix_finished_time = None # don't include the sleep\n", "C26.9",
       note="the second cycle starts behind the last prefix and examines nothing"),
    mk("skip-bucket-equal-or-greater", CRAWLER,
       "            if last_complete is not None and bucket <= last_complete:\n",
       "            if last_complete is not None and bucket >= last_complete:\n", "C26.9",
       note="after a resume the unprocessed buckets are the ones skipped"),
    # ---- C26.11 the hooks the expirer replaces carry no bookkeeping
    mk("prefix-rewind-moved-into-finished-cycle-hook", CRAWLER,
       "        self.last_complete_prefix_index = -1\n        self.last_prefix_finished_time = None # don't include the sleep\n",
       "        self.last_prefix_finished_time = None # don't include the sleep\n", "C26.11",
       edits=[(CRAWLER, "        This method is for subclasses to override. No upcall is necessary.\n        \"\"\"\n        pass\n\n    def yielding(",
               "        This method is for subclasses to override.\n        \"\"\"\n        self.last_complete_prefix_index = -1\n\n    def yielding(")],
       note="same slip as C26-D at the sibling hook: LeaseCheckingCrawler.finished_cycle has no upcall"),
    mk("resume-marker-reset-in-replaced-hook-via-helper", CRAWLER,
       "        state[\"last-complete-bucket\"] = None\n        state[\"last-cycle-finished\"] = cycle\n",
       "        state[\"last-cycle-finished\"] = cycle\n", "C26.11",
       edits=[(CRAWLER, "        This method is for subclasses to override. No upcall is necessary.\n        \"\"\"\n        pass\n\n    def process_bucket(",
               "        This method is for subclasses to override.\n        \"\"\"\n        self._forget_resume_position()\n\n"
               "    def _forget_resume_position(self):\n        self.state.update({\"last-complete-bucket\": None})\n\n    def process_bucket(")],
       note="the reset reached through a helper and dict.update"),
    # ---- C26.10 (adopted from C25) the enumerations hand out every lease
    mk("enumeration-stops-at-first-empty-slot", MUT,
       "                if data is not None:\n                    yield i,data\n",
       "                if data is None:\n                    return\n                yield i,data\n", "C26.8",
       note="a blanked (cancelled) slot hides every lease behind it: they are neither examined nor counted as remaining"),
    mk("enumeration-slot-number-off-by-one", MUT,
       "                if data is not None:\n                    yield i,data\n",
       "                if data is not None:\n                    yield i+1,data\n", "C26.10",
       note="cancel_lease blanks the neighbour of the expired lease"),
    mk("expired-record-read-as-empty-slot", MUT,
       "        if lease_info.owner_num == 0:\n            return None\n",
       "        if lease_info.owner_num == 0 or lease_info.get_expiration_time() == 0:\n            return None\n", "C26.10"),
    # ---- C26.5 configuration plumbing
    mk("client-mode-optional-when-enabled", CLIENT, "        if expire:\n            mode =", "        if not expire:\n            mode =",
       "C26.5", note="sweep survivor: expiry enabled without a mode starts deleting by age"),
    mk("client-mode-always-defaults", CLIENT,
       "            mode = self.config.get_config(\"storage\", \"expire.mode\") # require a mode\n",
       "            mode = self.config.get_config(\"storage\", \"expire.mode\", \"age\")\n", "C26.5"),
    mk("client-override-gets-cutoff", CLIENT,
       "            expiration_override_lease_duration=o_l_d,", "            expiration_override_lease_duration=cutoff_date,", "C26.5"),
    mk("client-duration-not-parsed", CLIENT,
       "        if o_l_d is not None:\n            o_l_d = parse_duration(o_l_d)\n", "", "C26.5"),
    mk("client-duration-parsed-as-date", CLIENT,
       "            o_l_d = parse_duration(o_l_d)\n", "            o_l_d = parse_date(o_l_d)\n", "C26.5"),
    mk("client-sharetype-flag-crossed", CLIENT,
       "\"expire.immutable\", True, boolean=True):\n            sharetypes.append(\"immutable\")",
       "\"expire.immutable\", True, boolean=True):\n            sharetypes.append(\"mutable\")", "C26.5"),
    mk("client-enabled-defaults-true", CLIENT,
       "\"expire.enabled\", False, boolean=True)", "\"expire.enabled\", True, boolean=True)", "C26.5"),
    mk("server-args-swapped", SERVER,
       "                                   expiration_override_lease_duration,\n                                   expiration_cutoff_date,\n",
       "                                   expiration_cutoff_date,\n                                   expiration_override_lease_duration,\n",
       "C26.5"),
    mk("server-enabled-by-default", SERVER, "                 expiration_enabled=False,", "                 expiration_enabled=True,", "C26.5"),
    mk("crawler-always-enabled", EXP,
       "        self.expiration_enabled = expiration_enabled\n", "        self.expiration_enabled = True\n", "C26.5"),
    mk("crawler-sharetypes-ignored", EXP,
       "        self.sharetypes_to_expire = sharetypes\n", "        self.sharetypes_to_expire = (\"mutable\", \"immutable\")\n", "C26.5"),
    # ---- C26.6 the table holds in every iteration (nothing leaks from the previous lease)
    mk("verdict-flag-initialised-once", EXP, INIT_BLOCK, INIT_BLOCK + "        expired = False\n", "C26.6",
       edits=[(EXP, RESET, RESET_COMMENT)], note="seeded C26-A: the per-lease reset hoisted out of the lease loop"),
    mk("queue-everything-after-first-expired", EXP,
       "            if expired:\n                expired_leases_configured.append(li)\n",
       "            if expired or len(expired_leases_configured):\n                expired_leases_configured.append(li)\n",
       "C26.6", note="same effect through the queue itself: once one lease is queued all later ones are"),
    mk("verdict-kept-on-the-crawler", EXP, INIT_BLOCK, INIT_BLOCK + "        self._lease_expired = False\n", "C26.6",
       edits=[(EXP, RESET, RESET_COMMENT),
              (EXP, "                if age > age_limit:\n                    expired = True\n",
               "                if age > age_limit:\n                    self._lease_expired = True\n"),
              (EXP, "                if grant_renew_time < self.cutoff_date:\n                    expired = True\n",
               "                if grant_renew_time < self.cutoff_date:\n                    self._lease_expired = True\n"),
              (EXP, "            if sharetype not in self.sharetypes_to_expire:\n                expired = False\n\n            if expired:\n",
               "            if sharetype not in self.sharetypes_to_expire:\n                self._lease_expired = False\n\n            if self._lease_expired:\n")],
       note="same slip with the flag held in an instance attribute"),
    mk("reset-only-when-still-valid-originally", EXP, RESET,
       RESET_COMMENT + "            if original_expiration_time > now:\n                expired = False\n", "C26.6",
       edits=[(EXP, INIT_BLOCK, INIT_BLOCK + "        expired = False\n")],
       note="the reset survives on some paths only"),
    # ---- benign
    mk("benign-flag-reset-at-end-of-iteration", EXP, INIT_BLOCK, INIT_BLOCK + "        expired = False\n", None,
       edits=[(EXP, RESET, RESET_COMMENT),
              (EXP, "            else:\n                num_valid_leases_configured += 1\n",
               "            else:\n                num_valid_leases_configured += 1\n            expired = False\n")],
       note="initialised before the loop and re-established by every pass: inductively constant at the loop head"),
    mk("benign-mode-test-hoisted", EXP, INIT_BLOCK, INIT_BLOCK + "        by_age = self.mode == \"age\"\n", None,
       edits=[(EXP, "            if self.mode == \"age\":\n                age_limit", "            if by_age:\n                age_limit")],
       note="loop-invariant value computed once before the loop"),
    mk("benign-carried-counter-in-statistics", EXP,
       "            self.add_lease_age_to_histogram(age)\n",
       "            if num_leases <= 1000:\n                self.add_lease_age_to_histogram(age)\n", None,
       note="a loop-carried counter steers statistics only"),
    mk("benign-rename-limit", EXP, AGE_BLOCK, AGE_BLOCK.replace("age_limit", "limit"), None),
    mk("benign-if-else-limit", EXP, AGE_BLOCK,
       "                if self.override_lease_duration is None:\n"
       "                    age_limit = original_expiration_time - grant_renew_time\n"
       "                else:\n"
       "                    age_limit = self.override_lease_duration\n"
       "                if not (age_limit >= age):\n"
       "                    expired = True\n", None),
    mk("benign-doc-formula", EXP, "                if age > age_limit:", "                if grant_renew_time + age_limit < now:", None),
    mk("benign-own-expiry-direct", EXP, AGE_BLOCK,
       "                if self.override_lease_duration is not None:\n"
       "                    if age > self.override_lease_duration:\n"
       "                        expired = True\n"
       "                elif original_expiration_time < now:\n"
       "                    expired = True\n", None),
    mk("benign-cutoff-inline", EXP,
       "                if grant_renew_time < self.cutoff_date:",
       "                if self.cutoff_date > li.get_grant_renew_time_time():", None),
    mk("benign-enabled-hoisted", EXP,
       "        if self.expiration_enabled:\n            for li in expired_leases_configured:",
       "        enabled = self.expiration_enabled\n        if enabled:\n            for li in expired_leases_configured:", None),
    mk("benign-len-eq-zero", IMM, "        if not len(leases):", "        if len(leases) == 0:", None),
    mk("benign-remaining-eq-zero", MUT, "                if not remaining:", "                if remaining == 0:", None),
    mk("benign-client-rename", CLIENT,
       "        o_l_d = self.config.get_config(\"storage\", \"expire.override_lease_duration\", None)\n        if o_l_d is not None:\n            o_l_d = parse_duration(o_l_d)\n",
       "        duration = self.config.get_config(\"storage\", \"expire.override_lease_duration\", None)\n        if duration is not None:\n            duration = parse_duration(duration)\n",
       None, edits=[(CLIENT, "            expiration_override_lease_duration=o_l_d,", "            expiration_override_lease_duration=duration,")]),
    mk("benign-server-keywords", SERVER,
       "        self.lease_checker = klass(self, statefile, historyfile,\n                                   expiration_enabled, expiration_mode,\n                                   expiration_override_lease_duration,\n                                   expiration_cutoff_date,\n                                   expiration_sharetypes)",
       "        self.lease_checker = klass(self, statefile, historyfile,\n                                   expiration_enabled, expiration_mode,\n                                   cutoff_date=expiration_cutoff_date,\n                                   override_lease_duration=expiration_override_lease_duration,\n                                   sharetypes=expiration_sharetypes)",
       None),
    mk("benign-count-expired", EXP,
       "        would_keep_share = [1, 1, 1, sharetype]\n",
       "        would_keep_share = [1, 1, 1, sharetype]\n        n_expired = len(expired_leases_configured)\n", None),
    mk("benign-age-strict-negated", EXP, "                if age > age_limit:", "                if not age <= age_limit:", None),
    mk("benign-cutoff-strict-swapped", EXP,
       "                if grant_renew_time < self.cutoff_date:", "                if not self.cutoff_date <= grant_renew_time:", None),
    mk("benign-mutable-modified-positive", MUT, "            if modified:\n", "            if modified > 0:\n", None),
    mk("benign-mutable-modified-recomputed", MUT, "                    modified += 1\n",
       "                    modified = modified + 1\n", None,
       note="no longer a constant-stepped counter: its tests are left undecided, never closed"),
    mk("benign-mutable-missing-first", MUT,
       "            if modified:\n                freed_space = self._pack_leases(f)\n                f.close()\n"
       "                if not remaining:\n                    freed_space += os.stat(self.home)[stat.ST_SIZE]\n"
       "                    self.unlink()\n                return freed_space\n",
       "            if modified != 0:\n                freed_space = self._pack_leases(f)\n                f.close()\n"
       "                if remaining < 1:\n                    freed_space += os.stat(self.home)[stat.ST_SIZE]\n"
       "                    self.unlink()\n                return freed_space\n", None),
    mk("benign-immutable-found-flag", IMM, "        num_leases_removed = 0\n", "        num_leases_removed = 0\n        found = False\n", None,
       edits=[(IMM, "                num_leases_removed += 1\n", "                num_leases_removed += 1\n                found = True\n"),
              (IMM, "        if not num_leases_removed:\n            raise IndexError", "        if not found:\n            raise IndexError")],
       note="a boolean flag instead of the counter in the not-found test"),
    mk("benign-client-mode-branches-swapped", CLIENT,
       "        if expire:\n            mode = self.config.get_config(\"storage\", \"expire.mode\") # require a mode\n"
       "        else:\n            mode = self.config.get_config(\"storage\", \"expire.mode\", \"age\")\n",
       "        if not expire:\n            mode = self.config.get_config(\"storage\", \"expire.mode\", \"age\")\n"
       "        else:\n            mode = self.config.get_config(\"storage\", \"expire.mode\") # require a mode\n", None),
    mk("benign-mutable-stop-once-share-is-kept", MUT,
       "                else:\n                    remaining += 1\n            if modified:\n",
       "                else:\n                    remaining += 1\n                    if modified:\n                        break\n            if modified:\n",
       None, note="the loop is left only after a lease was counted as remaining: the unlink test cannot pass on that path"),
    mk("benign-mutable-enumeration-hoisted", MUT,
       "            for (leasenum,lease) in self._enumerate_leases(f):\n                accepting_nodeids.add(lease.nodeid)\n                if lease.is_cancel_secret",
       "            slots = self._enumerate_leases(f)\n            for (leasenum,lease) in slots:\n                accepting_nodeids.add(lease.nodeid)\n                if lease.is_cancel_secret",
       None),
    mk("benign-immutable-filter-is-not-none", IMM,
       "            leases = [l for l in leases if l] # remove the cancelled leases\n",
       "            leases = [l for l in list(leases) if l is not None] # remove the cancelled leases\n", None),
    mk("benign-end-of-cycle-resets-reordered", CRAWLER,
       "        state[\"last-complete-bucket\"] = None\n        state[\"last-cycle-finished\"] = cycle\n        state[\"current-cycle\"] = None\n",
       "        state[\"last-cycle-finished\"] = cycle\n        state[\"current-cycle\"] = None\n        state[\"last-complete-bucket\"] = None\n", None),
    mk("benign-expirer-hook-upcalls", EXP,
       "    def started_cycle(self, cycle):\n        self.state[\"cycle-to-date\"] = self.create_empty_cycle_dict()\n",
       "    def started_cycle(self, cycle):\n        ShareCrawler.started_cycle(self, cycle)\n        self.state[\"cycle-to-date\"] = self.create_empty_cycle_dict()\n",
       None),
    mk("benign-base-hook-keeps-a-statistic", CRAWLER,
       "        This method is for subclasses to override. No upcall is necessary.\n        \"\"\"\n        pass\n\n    def process_bucket(",
       "        This method is for subclasses to override. No upcall is necessary.\n        \"\"\"\n        self.last_cycle_announced = cycle\n\n    def process_bucket(",
       None, note="a replaced hook may do things that are not traversal bookkeeping"),
    mk("benign-enumeration-skips-empty-slots-with-continue", MUT,
       "                if data is not None:\n                    yield i,data\n",
       "                if data is None:\n                    continue\n                yield i,data\n", None),
    # ---- C26.12 the policy keywords receive the parsers' own values
    mk("cutoff-shifted-to-local-midnight-in-client", CLIENT,
       "            cutoff_date = parse_date(cutoff_date)\n",
       "            cutoff_date = parse_date(cutoff_date) + time.timezone\n", "C26.12",
       note="C26-E's effect, produced at the call site instead of inside parse_date"),
    mk("cutoff-parsed-by-a-local-helper", CLIENT,
       "            cutoff_date = parse_date(cutoff_date)\n",
       "            cutoff_date = self._parse_cutoff(cutoff_date)\n", "C26.12",
       edits=[(CLIENT, "    def init_storage(self, announceable_storage_servers):\n",
               "    def _parse_cutoff(self, text):\n        return int(time.mktime(time.strptime(text, \"%Y-%m-%d\")))\n\n"
               "    def init_storage(self, announceable_storage_servers):\n")]),
    mk("cutoff-parser-name-rebound-in-client", CLIENT,
       "from allmydata.util.time_format import parse_duration, parse_date\n",
       "from allmydata.util.time_format import parse_duration\n\n"
       "def parse_date(s):\n    return int(time.mktime(time.strptime(s, \"%Y-%m-%d\")))\n", "C26.12"),
    mk("override-duration-scaled-in-client", CLIENT,
       "            o_l_d = parse_duration(o_l_d)\n", "            o_l_d = parse_duration(o_l_d) * 1000\n", "C26.12"),
    mk("cutoff-parser-applied-to-the-mode-text", CLIENT,
       "            cutoff_date = parse_date(cutoff_date)\n", "            cutoff_date = parse_date(mode)\n", ["C26.12", "C26.5"]),
    mk("benign-cutoff-parsed-in-one-expression", CLIENT,
       "            cutoff_date = self.config.get_config(\"storage\", \"expire.cutoff_date\")\n            cutoff_date = parse_date(cutoff_date)\n",
       "            cutoff_date = int(parse_date(self.config.get_config(\"storage\", \"expire.cutoff_date\")))\n", None),
    mk("benign-cutoff-text-in-its-own-local", CLIENT,
       "            cutoff_date = self.config.get_config(\"storage\", \"expire.cutoff_date\")\n            cutoff_date = parse_date(cutoff_date)\n",
       "            cutoff_text = self.config.get_config(\"storage\", \"expire.cutoff_date\")\n            cutoff_date = parse_date(cutoff_text)\n", None),
    mk("benign-parser-called-through-the-module", CLIENT,
       "            cutoff_date = parse_date(cutoff_date)\n", "            cutoff_date = time_format.parse_date(cutoff_date)\n", None,
       edits=[(CLIENT, "from allmydata.util.time_format import parse_duration, parse_date\n",
               "from allmydata.util.time_format import parse_duration, parse_date\nfrom allmydata.util import time_format\n")]),
    # ---- C26.13 (adopted from C48.5/.6/.8) the cutoff is midnight UTC of the configured day
    mk("cutoff-is-local-midnight-strptime-timestamp", TF,
       "    return int(iso_utc_time_to_seconds(s + \"T00:00:00\"))\n",
       "    return int(datetime.datetime.strptime(s, \"%Y-%m-%d\").timestamp())\n", ["C26.13", "C26.14"],
       note="seeded C26-E"),
    mk("cutoff-is-local-midnight-mktime", TF,
       "    return int(iso_utc_time_to_seconds(s + \"T00:00:00\"))\n",
       "    return int(time.mktime(time.strptime(s, \"%Y-%m-%d\")))\n", ["C26.13", "C26.14"]),
    mk("cutoff-is-noon-of-the-day", TF,
       "    return int(iso_utc_time_to_seconds(s + \"T00:00:00\"))\n",
       "    return int(iso_utc_time_to_seconds(s + \"T12:00:00\"))\n", "C26.13"),
    mk("cutoff-accepts-trailing-text", TF,
       "    if not re.fullmatch(r\"\\d{4}-\\d{2}-\\d{2}\", s):\n", "    if not re.match(r\"\\d{4}-\\d{2}-\\d{2}\", s):\n", "C26.13"),
    mk("benign-parse-date-hoists-the-seconds", TF,
       "    return int(iso_utc_time_to_seconds(s + \"T00:00:00\"))\n",
       "    seconds = iso_utc_time_to_seconds(s + \"T00:00:00\")\n    return int(seconds)\n", None),
    # ---- C26.14 nothing time-zone dependent feeds the cutoff
    mk("iso-seconds-converted-with-mktime", TF,
       "    return calendar.timegm( (year, month, day, hour, minute, second, 0, 1, 0) ) + subsecfloat\n",
       "    return time.mktime( (year, month, day, hour, minute, second, 0, 1, 0) ) + subsecfloat\n", "C26.14",
       note="C26.13.5 alone answers ANALYSIS-ERROR here (its timegm anchor is gone)"),
    mk("iso-seconds-corrected-by-the-local-offset", TF,
       "    return calendar.timegm( (year, month, day, hour, minute, second, 0, 1, 0) ) + subsecfloat\n",
       "    return calendar.timegm( (year, month, day, hour, minute, second, 0, 1, 0) ) + time.timezone + subsecfloat\n",
       "C26.14"),
    mk("cutoff-through-naive-datetime-in-a-local", TF,
       "    return int(iso_utc_time_to_seconds(s + \"T00:00:00\"))\n",
       "    day = datetime.datetime(int(s[:4]), int(s[5:7]), int(s[8:10]))\n    return int(day.timestamp())\n",
       ["C26.14", "C26.13"]),
    mk("benign-iso-seconds-tuple-in-a-local", TF,
       "    return calendar.timegm( (year, month, day, hour, minute, second, 0, 1, 0) ) + subsecfloat\n",
       "    fields = (year, month, day, hour, minute, second, 0, 1, 0)\n    whole = calendar.timegm(fields)\n    return whole + subsecfloat\n",
       None),
    # ---- vanished anchors
    mk("vanish-process-share", EXP, "    def process_share(self, sharefilename):", "    def process_shareX(self, sharefilename):",
       "ANALYSIS-ERROR"),
    mk("vanish-get-age", LEASE, "    def get_age(self):", "    def get_ageX(self):", "ANALYSIS-ERROR"),
]
