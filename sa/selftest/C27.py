from .runner import M

F = "src/allmydata/storage/crawler.py"

PP_BODY = ("        for bucket in buckets:\n"
           "            last_complete = self.state[\"last-complete-bucket\"]\n"
           "            if last_complete is not None and bucket <= last_complete:\n"
           "                continue\n"
           "            self.process_bucket(cycle, prefix, prefixdir, bucket)\n"
           "            self.state[\"last-complete-bucket\"] = bucket\n"
           "            if time.time() >= start_slice + self.cpu_slice:\n"
           "                raise TimeSliceExceeded()\n")

NUMBER = ("            if state[\"last-cycle-finished\"] is None:\n"
          "                state[\"current-cycle\"] = 0\n"
          "            else:\n"
          "                state[\"current-cycle\"] = state[\"last-cycle-finished\"] + 1\n")

LOAD_IDX = ("        if lcp == None:\n"
            "            self.last_complete_prefix_index = -1\n"
            "        else:\n"
            "            self.last_complete_prefix_index = self.prefixes.index(lcp)\n")

SAVE_IDX = ("        if lcpi == -1:\n"
            "            last_complete_prefix = None\n"
            "        else:\n"
            "            last_complete_prefix = self.prefixes[lcpi]\n"
            "        self.state[\"last-complete-prefix\"] = last_complete_prefix\n")

SAVE = ("        tmpfile = self._path.siblingExtension(\".tmp\")\n"
        "        _dump_json_to_file(data, tmpfile)\n"
        "        fileutil.move_into_place(tmpfile.path, self._path.path)\n")

SC_COMMON = "src/allmydata/storage/common.py"
SI_DIR = ("    sia = si_b2a(storageindex)\n"
          "    sia = sia.decode(\"ascii\")\n"
          "    return os.path.join(sia[:2], sia)\n")

# an in-memory resume position for big prefixdirs (the mechanism of seeded C27-G)
RESUME_INIT = (F, "        self.bucket_cache = (None, [])\n",
               "        self.bucket_cache = (None, [])\n        self._resume_point = (None, 0)\n")
RESUME_HEAD = ("        first = 0\n"
               "        resume_prefix, resume_offset = self._resume_point\n"
               "        if resume_prefix == prefix and resume_offset <= len(buckets):\n"
               "            first = resume_offset\n")
RESUME_LOOP = ("        for offset in range(first, len(buckets)):\n"
               "            bucket = buckets[offset]\n"
               + PP_BODY.split("\n", 1)[1].replace(
                   "                raise TimeSliceExceeded()\n",
                   "                self._resume_point = (prefix, offset + 1)\n                raise TimeSliceExceeded()\n"))

# start_slice split into helpers (the refactor of seeded C27-I): _run_slice() crawls one slice and saves,
# _sleep_time_after() computes the pause.  SPLIT_* are the three edits of the refactor; RUN_* the bodies of _run_slice.
SLICE_TRY = ("        try:\n"
             "            self.start_current_prefix(start_slice)\n"
             "            finished_cycle = True\n"
             "        except TimeSliceExceeded:\n"
             "            finished_cycle = False\n"
             "        self.save_state()\n")
SLICE_TAIL = ("            self.sleeping_between_cycles = True\n"
              "            sleep_time = max(sleep_time, self.minimum_cycle_time)\n"
              "        else:\n"
              "            self.sleeping_between_cycles = False\n"
              "        self.current_sleep_time = sleep_time # for status page\n"
              "        self.next_wake_time = now + sleep_time\n"
              "        self.yielding(sleep_time)\n"
              "        self.timer = reactor.callLater(sleep_time, self.start_slice)\n")
SLICE_SCHEDULE = ("        self.sleeping_between_cycles = finished_cycle\n"
                  "        self.current_sleep_time = sleep_time # for status page\n"
                  "        self.next_wake_time = now + sleep_time\n"
                  "        self.yielding(sleep_time)\n"
                  "        self.timer = reactor.callLater(sleep_time, self.start_slice)\n")
RUN_FAITHFUL = ("        try:\n"
                "            self.start_current_prefix(start_slice)\n"
                "            finished_cycle = True\n"
                "        except TimeSliceExceeded:\n"
                "            finished_cycle = False\n"
                "        self.save_state()\n"
                "        return finished_cycle\n")
RUN_SLIP = ("        try:\n"
            "            self.start_current_prefix(start_slice)\n"
            "        except TimeSliceExceeded:\n"
            "            return False\n"
            "        self.save_state()\n"
            "        return True\n")
RUN_SAVE_IN_HANDLER = ("        try:\n"
                       "            self.start_current_prefix(start_slice)\n"
                       "        except TimeSliceExceeded:\n"
                       "            self.save_state()\n"
                       "            return False\n"
                       "        self.save_state()\n"
                       "        return True\n")
RUN_NO_SAVE = ("        try:\n"
               "            self.start_current_prefix(start_slice)\n"
               "        except TimeSliceExceeded:\n"
               "            return False\n"
               "        return True\n")
RUN_NO_TRY = ("        self.start_current_prefix(start_slice)\n"
              "        self.save_state()\n"
              "        return True\n")


def split_slice(run_body, call="        finished_cycle = self._run_slice(start_slice)\n", schedule=SLICE_SCHEDULE, extra=""):
    """(old, new, edits) of the refactor with the given _run_slice body / call site / scheduling tail."""
    return (SLICE_TRY, call,
            [(F, "        this_slice = now - start_slice\n",
              "        sleep_time = self._sleep_time_after(now - start_slice, finished_cycle)\n" + schedule
              + "\n    def _run_slice(self, start_slice):\n" + run_body + extra
              + "\n    def _sleep_time_after(self, this_slice, finished_cycle):\n"),
             (F, SLICE_TAIL, "            sleep_time = max(sleep_time, self.minimum_cycle_time)\n        return sleep_time\n")])


def MS(mid, expect, run_body, note=None, **kw):
    (old, new, edits) = split_slice(run_body, **kw)
    return M(mid, F, old, new, expect, edits=edits, note=note or "")


MUTANTS = [
    # ---- C27.3 the slice followed through its helpers (seeded C27-I)
    MS("split-slice-timeout-return-skips-save", "C27.3", RUN_SLIP,
       note="seeded C27-I: in the extracted _run_slice 'except TimeSliceExceeded: return False' leaves before save_state(); "
            "the state file is written only when a slice completes the cycle, a process killed between two slices "
            "re-processes the buckets of the unsaved slices"),
    MS("benign-split-slice-faithful", None, RUN_FAITHFUL,
       note="the same refactor done faithfully: flag in both branches, save_state() after the try, return the flag"),
    MS("benign-split-slice-save-in-handler", None, RUN_SAVE_IN_HANDLER,
       note="early return kept, but the handler saves first"),
    MS("benign-split-slice-caller-saves", None, RUN_NO_SAVE,
       call="        finished_cycle = self._run_slice(start_slice)\n        self.save_state()\n",
       note="the helper only crawls and reports; start_slice saves after it on both outcomes"),
    MS("split-slice-caller-saves-finished-only", "C27.3", RUN_NO_SAVE,
       call="        finished_cycle = self._run_slice(start_slice)\n        if finished_cycle:\n            self.save_state()\n",
       note="a different edit with the same effect: the save sits in start_slice, but only behind the 'cycle finished' flag"),
    MS("benign-split-slice-each-saves-its-case", None,
       "        try:\n            self.start_current_prefix(start_slice)\n            self.save_state()\n            return True\n"
       "        except TimeSliceExceeded:\n            return False\n",
       call="        finished_cycle = self._run_slice(start_slice)\n        if not finished_cycle:\n            self.save_state()\n",
       note="the helper saves a completed cycle, start_slice saves an interrupted slice: the caller's test on the returned "
            "flag is paired with the helper path that returns that flag"),
    MS("split-slice-both-save-the-same-case", "C27.3",
       "        try:\n            self.start_current_prefix(start_slice)\n            self.save_state()\n            return True\n"
       "        except TimeSliceExceeded:\n            return False\n",
       call="        finished_cycle = self._run_slice(start_slice)\n        if finished_cycle:\n            self.save_state()\n",
       note="the same two saves with the caller's test the wrong way round: an interrupted slice is saved by neither"),
    M("slice-save-in-finally", F, SLICE_TRY, SLICE_TRY.replace("        self.save_state()\n", "        finally:\n            self.save_state()\n"),
      "ANALYSIS-ERROR", note="try/finally in the slice is not followed: fail closed (the code itself is sound)"),
    MS("split-slice-save-inside-try-body", "C27.3",
       "        try:\n            self.start_current_prefix(start_slice)\n            self.save_state()\n            return True\n"
       "        except TimeSliceExceeded:\n            return False\n"),
    MS("split-slice-timeslice-propagates", "C27.3", RUN_NO_TRY,
       note="the helper lost its try: TimeSliceExceeded leaves _run_slice and start_slice - no save, no re-arm"),
    MS("benign-split-slice-caller-catches", None, RUN_NO_TRY,
       call="        try:\n            finished_cycle = self._run_slice(start_slice)\n        except TimeSliceExceeded:\n"
            "            finished_cycle = False\n            self.save_state()\n",
       note="the helper crawls and saves without a try of its own; TimeSliceExceeded propagates to start_slice, which "
            "catches it there and saves"),
    MS("split-slice-caller-catches-no-save", "C27.3", RUN_NO_TRY,
       call="        try:\n            finished_cycle = self._run_slice(start_slice)\n        except TimeSliceExceeded:\n"
            "            finished_cycle = False\n"),
    MS("benign-split-slice-schedule-in-helper", None, RUN_FAITHFUL,
       schedule="        self._schedule_next(now, sleep_time, finished_cycle)\n",
       extra="\n    def _schedule_next(self, now, sleep_time, finished_cycle):\n" + SLICE_SCHEDULE,
       note="the re-arm moved into a helper of its own"),
    MS("split-slice-schedule-helper-unfinished-only", "C27.3", RUN_FAITHFUL,
       schedule="        self._schedule_next(now, sleep_time, finished_cycle)\n",
       extra="\n    def _schedule_next(self, now, sleep_time, finished_cycle):\n"
             + SLICE_SCHEDULE.replace("        self.timer = reactor.callLater(sleep_time, self.start_slice)\n",
                                      "        if not finished_cycle:\n"
                                      "            self.timer = reactor.callLater(sleep_time, self.start_slice)\n"),
       note="sibling slip in the other half of the slice: the helper re-arms only while a cycle is unfinished"),
    MS("split-slice-helper-raises-after-crawl", "C27.3",
       RUN_FAITHFUL.replace("        self.save_state()\n", "        if not self.running:\n            raise RuntimeError(\"stopped\")\n        self.save_state()\n"),
       note="an explicit raise between the crawl step and the save"),
    M("split-slice-sleep-helper-reads-callers-local", F, SLICE_TRY, split_slice(RUN_FAITHFUL)[1], "C27.6",
      edits=split_slice(RUN_FAITHFUL)[2][:1] + [(F, SLICE_TAIL, "            sleep_time = max(sleep_time, self.minimum_cycle_time)\n"
                                                 "        self.next_wake_time = now + sleep_time\n        return sleep_time\n")],
      note="a statement moved into the extracted helper still reads start_slice's local 'now': NameError in every slice, "
           "after the save and before the timer is re-armed"),
    M("split-slice-expirer-overrides-helper", F, SLICE_TRY, split_slice(RUN_FAITHFUL)[1], "C27.3",
      edits=split_slice(RUN_FAITHFUL)[2] + [("src/allmydata/storage/expirer.py", "    def stat(self, fn):\n        return os.stat(fn)\n",
             "    def stat(self, fn):\n        return os.stat(fn)\n\n    def _run_slice(self, start_slice):\n"
             "        try:\n            self.start_current_prefix(start_slice)\n        except TimeSliceExceeded:\n"
             "            return False\n        return True\n")],
      note="the lease crawler replaces the helper that saves"),
    # ---- C27.1 progress markers
    M("bucket-marker-before-work", F,
      "            self.process_bucket(cycle, prefix, prefixdir, bucket)\n            self.state[\"last-complete-bucket\"] = bucket\n",
      "            self.state[\"last-complete-bucket\"] = bucket\n            self.process_bucket(cycle, prefix, prefixdir, bucket)\n",
      "C27.1"),
    M("bucket-timeslice-before-marker", F,
      "            self.state[\"last-complete-bucket\"] = bucket\n            if time.time() >= start_slice + self.cpu_slice:\n                raise TimeSliceExceeded()\n",
      "            if time.time() >= start_slice + self.cpu_slice:\n                raise TimeSliceExceeded()\n            self.state[\"last-complete-bucket\"] = bucket\n",
      "C27.1"),
    M("bucket-marker-last-of-list", F,
      "            self.state[\"last-complete-bucket\"] = bucket\n", "            self.state[\"last-complete-bucket\"] = buckets[-1]\n",
      "C27.1"),
    M("bucket-loop-breaks-on-timeout", F,
      "            self.state[\"last-complete-bucket\"] = bucket\n            if time.time() >= start_slice + self.cpu_slice:\n                raise TimeSliceExceeded()\n",
      "            self.state[\"last-complete-bucket\"] = bucket\n            if time.time() >= start_slice + self.cpu_slice:\n                break\n",
      "C27.1"),
    M("prefix-marker-before-work", F,
      "            self.process_prefixdir(cycle, prefix, prefixdir,\n                                   buckets, start_slice)\n            self.last_complete_prefix_index = i\n",
      "            self.last_complete_prefix_index = i\n            self.process_prefixdir(cycle, prefix, prefixdir,\n                                   buckets, start_slice)\n",
      "C27.1"),
    M("prefix-marker-dropped", F,
      "                                   buckets, start_slice)\n            self.last_complete_prefix_index = i\n",
      "                                   buckets, start_slice)\n", "ANALYSIS-ERROR"),
    M("prefix-timeslice-before-marker", F,
      "            self.process_prefixdir(cycle, prefix, prefixdir,\n                                   buckets, start_slice)\n            self.last_complete_prefix_index = i\n",
      "            self.process_prefixdir(cycle, prefix, prefixdir,\n                                   buckets, start_slice)\n            if time.time() >= start_slice + self.cpu_slice:\n                raise TimeSliceExceeded()\n            self.last_complete_prefix_index = i\n",
      "C27.1"),
    M("prefix-marker-off-by-one", F,
      "            self.last_complete_prefix_index = i\n", "            self.last_complete_prefix_index = i + 1\n", "C27.1"),
    M("prefixdir-of-other-prefix", F,
      "            prefix = self.prefixes[i]\n", "            prefix = self.prefixes[i - 1]\n", "C27.1"),
    # ---- C27.2 resume predicate
    M("resume-repeats-last-bucket", F,
      "            if last_complete is not None and bucket <= last_complete:",
      "            if last_complete is not None and bucket < last_complete:", "C27.2"),
    M("resume-skips-the-rest", F,
      "            if last_complete is not None and bucket <= last_complete:",
      "            if last_complete is not None and bucket >= last_complete:", "C27.2"),
    M("resume-stale-marker", F,
      "        for bucket in buckets:\n            last_complete = self.state[\"last-complete-bucket\"]\n",
      "        last_complete = self.state[\"last-complete-bucket\"]\n        for bucket in buckets:\n", None,
      note="reading the marker once before the loop is behaviour-preserving: buckets are ascending, so every bucket "
           "after the first processed one is > the stale value as well"),
    M("buckets-not-sorted", F, "                    buckets.sort()\n", "", "C27.2"),
    M("prefixes-not-sorted", F, "        self.prefixes.sort()\n", "", "C27.2"),
    M("prefix-loop-starts-at-marker", F,
      "        for i in range(self.last_complete_prefix_index+1, len(self.prefixes)):",
      "        for i in range(self.last_complete_prefix_index, len(self.prefixes)):", "C27.2"),
    M("bucket-cache-not-keyed", F,
      "            if i == self.bucket_cache[0]:", "            if self.bucket_cache[0] is not None:", "C27.2"),
    M("load-index-off-by-one", F,
      "            self.last_complete_prefix_index = self.prefixes.index(lcp)\n",
      "            self.last_complete_prefix_index = self.prefixes.index(lcp) + 1\n", "C27.2"),
    M("load-index-ignores-saved-prefix", F,
      "        if lcp == None:\n            self.last_complete_prefix_index = -1\n        else:\n            self.last_complete_prefix_index = self.prefixes.index(lcp)\n",
      "        self.last_complete_prefix_index = -1\n", "ANALYSIS-ERROR"),
    M("save-next-prefix-name", F,
      "            last_complete_prefix = self.prefixes[lcpi]\n", "            last_complete_prefix = self.prefixes[lcpi + 1]\n", "C27.2"),
    M("half-the-prefixes", F, "                         for i in range(2**10)]", "                         for i in range(2**9)]", "C27.2"),
    M("stale-list-after-listdir-error", F,
      "                except EnvironmentError:\n                    buckets = []\n",
      "                except EnvironmentError:\n                    pass\n", "C27.2"),
    M("cached-list-not-rebound", F,
      "            if i == self.bucket_cache[0]:\n                buckets = self.bucket_cache[1]\n            else:\n",
      "            if i != self.bucket_cache[0]:\n", "C27.2"),
    # ---- C27.3 saving / re-arming
    M("startservice-no-upcall", F,
      "        self.timer = reactor.callLater(self.slow_start, self.start_slice)\n        service.MultiService.startService(self)\n",
      "        self.timer = reactor.callLater(self.slow_start, self.start_slice)\n", "C27.3"),
    M("loaded-state-discarded", F,
      "        state.setdefault(\"current-cycle-start-time\", time.time()) # approximate\n        self.state = state\n",
      "        state.setdefault(\"current-cycle-start-time\", time.time()) # approximate\n        self.state = {\"version\": 1, \"last-cycle-finished\": None, \"current-cycle\": None,\n                      \"last-complete-prefix\": None, \"last-complete-bucket\": None}\n",
      "C27.3"),
    M("save-skipped-on-timeslice", F,
      "            finished_cycle = True\n        except TimeSliceExceeded:\n            finished_cycle = False\n        self.save_state()\n",
      "            finished_cycle = True\n            self.save_state()\n        except TimeSliceExceeded:\n            finished_cycle = False\n",
      "C27.3"),
    M("timeslice-not-caught", F, "        except TimeSliceExceeded:\n            finished_cycle = False\n",
      "        except MigratePickleFileError:\n            finished_cycle = False\n", "C27.3"),
    M("stopservice-does-not-save", F,
      "        self.save_state()\n        return service.MultiService.stopService(self)",
      "        return service.MultiService.stopService(self)", "C27.3"),
    M("no-rearm-after-cycle", F,
      "        self.timer = reactor.callLater(sleep_time, self.start_slice)\n\n    def start_current_prefix",
      "        if not finished_cycle:\n            self.timer = reactor.callLater(sleep_time, self.start_slice)\n\n    def start_current_prefix",
      "C27.3"),
    M("state-written-before-prefix-update", F,
      "        self.state[\"last-complete-prefix\"] = last_complete_prefix\n        self._state_serializer.save(self.get_state())\n",
      "        self._state_serializer.save(self.get_state())\n        self.state[\"last-complete-prefix\"] = last_complete_prefix\n",
      "C27.3"),
    M("benign-cycle-end-saved-by-caller", F,
      "        self.finished_cycle(cycle)\n        self.save_state()\n", "        self.finished_cycle(cycle)\n", None,
      note="behaviour-preserving: start_slice calls save_state() right after the traversal returns"),
    M("expirer-overrides-prefixdir", "src/allmydata/storage/expirer.py",
      "    def stat(self, fn):\n        return os.stat(fn)\n",
      "    def stat(self, fn):\n        return os.stat(fn)\n\n    def process_prefixdir(self, cycle, prefix, prefixdir, buckets, start_slice):\n"
      "        for bucket in buckets:\n            self.process_bucket(cycle, prefix, prefixdir, bucket)\n", "C27.3"),
    # ---- C27.4 atomic replacement
    M("state-written-in-place", F, SAVE, "        _dump_json_to_file(data, self._path)\n", "C27.4"),
    M("move-before-write", F, SAVE,
      "        tmpfile = self._path.siblingExtension(\".tmp\")\n        fileutil.move_into_place(tmpfile.path, self._path.path)\n        _dump_json_to_file(data, tmpfile)\n",
      "C27.4"),
    M("move-wrong-direction", F,
      "        fileutil.move_into_place(tmpfile.path, self._path.path)\n",
      "        fileutil.move_into_place(self._path.path, tmpfile.path)\n", "C27.4"),
    M("state-not-written-as-json", F, "        data = json.dumps(js)\n", "        data = repr(js)\n", "C27.4"),
    # ---- C27.5 cycle counter
    M("cycle-number-not-incremented", F,
      "                state[\"current-cycle\"] = state[\"last-cycle-finished\"] + 1\n",
      "                state[\"current-cycle\"] = state[\"last-cycle-finished\"]\n", "C27.5"),
    M("bucket-marker-survives-cycle", F, "        state[\"last-complete-bucket\"] = None\n        state[\"last-cycle-finished\"] = cycle\n",
      "        state[\"last-cycle-finished\"] = cycle\n", "C27.5"),
    M("prefix-marker-survives-cycle", F,
      "        # yay! we finished the whole cycle\n        self.last_complete_prefix_index = -1\n",
      "        # yay! we finished the whole cycle\n", "C27.5"),
    M("cycle-finished-recorded-early", F,
      "        cycle = state[\"current-cycle\"]\n\n        for i in range(",
      "        cycle = state[\"current-cycle\"]\n        state[\"last-cycle-finished\"] = cycle\n\n        for i in range(", "C27.5"),
    M("cycle-renumbered-on-resume", F,
      "        if state[\"current-cycle\"] is None:\n            self.last_cycle_started_time = time.time()",
      "        if state[\"current-cycle\"] is None or self.last_complete_prefix_index == -1:\n            self.last_cycle_started_time = time.time()",
      "C27.5"),
    M("current-cycle-not-cleared", F,
      "        state[\"current-cycle\"] = None\n        self.finished_cycle(cycle)\n", "        self.finished_cycle(cycle)\n", "C27.5"),
    # ---- C27.5 the numbering decision in any shape (statement if/else == conditional expression == temporary)
    M("cycle-number-truthiness-ifexp", F, NUMBER,
      "            last_finished = state[\"last-cycle-finished\"]\n"
      "            state[\"current-cycle\"] = last_finished + 1 if last_finished else 0\n", "C27.5",
      note="seeded C27-B: 'is None' became a truthiness test, last-cycle-finished == 0 restarts the numbering at 0"),
    M("cycle-number-truthiness-statement", F,
      "            if state[\"last-cycle-finished\"] is None:\n                state[\"current-cycle\"] = 0\n",
      "            if not state[\"last-cycle-finished\"]:\n                state[\"current-cycle\"] = 0\n", "C27.5"),
    M("cycle-number-or-zero", F, NUMBER,
      "            state[\"current-cycle\"] = (state[\"last-cycle-finished\"] or -1) + 1\n", "C27.5",
      note="same effect without any test: 'x or -1' treats a finished cycle 0 like no cycle"),
    M("cycle-number-truthiness-temporary", F, NUMBER,
      "            lcf = state[\"last-cycle-finished\"]\n"
      "            if lcf:\n                nxt = lcf + 1\n            else:\n                nxt = 0\n"
      "            state[\"current-cycle\"] = nxt\n", "C27.5"),
    M("cycle-number-ifexp-swapped", F, NUMBER,
      "            lcf = state[\"last-cycle-finished\"]\n"
      "            state[\"current-cycle\"] = 0 if lcf is not None else lcf + 1\n", "C27.5"),
    M("cycle-number-only-first-branch", F, NUMBER, "            state[\"current-cycle\"] = 0\n", "C27.5"),
    M("cycle-in-progress-truthiness", F,
      "        if state[\"current-cycle\"] is None:\n            self.last_cycle_started_time = time.time()",
      "        if not state[\"current-cycle\"]:\n            self.last_cycle_started_time = time.time()", "C27.5",
      note="sibling site of the same slip: cycle 0 in progress is falsy, every resumed slice of cycle 0 starts it anew"),
    M("benign-cycle-number-ifexp", F, NUMBER,
      "            last_finished = state[\"last-cycle-finished\"]\n"
      "            state[\"current-cycle\"] = 0 if last_finished is None else last_finished + 1\n", None),
    M("benign-cycle-number-ifexp-negated", F, NUMBER,
      "            state[\"current-cycle\"] = (state[\"last-cycle-finished\"] + 1\n"
      "                                      if state[\"last-cycle-finished\"] is not None else 0)\n", None),
    M("benign-cycle-number-temporary", F, NUMBER,
      "            lcf = state[\"last-cycle-finished\"]\n"
      "            if lcf is None:\n                nxt = 0\n            else:\n                nxt = lcf + 1\n"
      "            state[\"current-cycle\"] = nxt\n", None),
    M("benign-cycle-number-ifexp-in-temporary", F, NUMBER,
      "            lcf = state[\"last-cycle-finished\"]\n"
      "            prev = -1 if lcf is None else lcf\n"
      "            state[\"current-cycle\"] = prev + 1\n", None),
    # ---- C27.2 the sibling index <-> name decisions in conditional-expression shape
    M("benign-load-index-ifexp", F, LOAD_IDX,
      "        self.last_complete_prefix_index = -1 if lcp is None else self.prefixes.index(lcp)\n", None),
    M("load-index-ifexp-swapped", F, LOAD_IDX,
      "        self.last_complete_prefix_index = self.prefixes.index(lcp) if lcp is None else -1\n", "C27.2"),
    M("benign-save-prefix-ifexp", F, SAVE_IDX,
      "        self.state[\"last-complete-prefix\"] = self.prefixes[lcpi] if lcpi != -1 else None\n", None),
    M("benign-save-prefix-ifexp-nonnegative", F, SAVE_IDX,
      "        self.state[\"last-complete-prefix\"] = self.prefixes[lcpi] if lcpi >= 0 else None\n", None),
    M("save-prefix-ifexp-wrong-test", F, SAVE_IDX,
      "        self.state[\"last-complete-prefix\"] = self.prefixes[lcpi] if lcpi > 0 else None\n", "C27.2",
      note="prefix index 0 is saved as 'no prefix completed'"),
    # ---- C27.6 a slice cannot abort on an unbound name
    M("timeslice-flag-unbound", F,
      "        except TimeSliceExceeded:\n            finished_cycle = False\n",
      "        except TimeSliceExceeded:\n            pass\n", "C27.6",
      note="sweep survivor: after the first exhausted time slice 'if finished_cycle' raises UnboundLocalError inside "
           "the callLater callback - state saved, timer never re-armed, the cycle is never completed; a store small "
           "enough to be crawled in one slice never notices"),
    M("finished-flag-unbound", F,
      "            self.start_current_prefix(start_slice)\n            finished_cycle = True\n",
      "            self.start_current_prefix(start_slice)\n", "C27.6"),
    M("cycle-end-clock-unbound", F,
      "        self.last_prefix_finished_time = None # don't include the sleep\n        now = time.time()\n",
      "        self.last_prefix_finished_time = None # don't include the sleep\n", "C27.6",
      note="sweep survivor: 'now' is then bound only inside the prefix loop; a slice that resumes after the last "
           "prefix was completed (time slice exhausted right after prefix 1023) runs the loop zero times and the "
           "end-of-cycle bookkeeping raises before last-cycle-finished is recorded"),
    M("default-state-unbound", F,
      "        except Exception:\n            state = {\"version\": 1,\n                     \"last-cycle-finished\": None,\n"
      "                     \"current-cycle\": None,\n                     \"last-complete-prefix\": None,\n"
      "                     \"last-complete-bucket\": None,\n                     }\n",
      "        except Exception:\n            pass\n", "C27.6"),
    M("slice-length-never-bound", F, "        this_slice = now - start_slice\n", "", "C27.6",
      note="sweep survivor: with its only store gone the name is a global lookup - NameError after save_state, before "
           "the timer is re-armed, in every slice"),
    M("prefix-elapsed-never-bound", F, "                elapsed = now - self.last_prefix_finished_time\n",
      "                pass\n", "C27.6"),
    M("cycle-start-time-lazily-initialised", F,
      "        self.last_cycle_started_time = None\n        self.last_cycle_elapsed_time = None\n",
      "        self.last_cycle_elapsed_time = None\n", "C27.6",
      note="sweep survivor: last_cycle_started_time is otherwise bound only when a cycle is *started*; a process "
           "restarted in mid-cycle reaches the end-of-cycle test 'self.last_cycle_started_time is not None' with the "
           "attribute missing - AttributeError after last_complete_prefix_index was reset and before "
           "last-cycle-finished is recorded, on every restart"),
    M("prefix-clock-lazily-initialised", F,
      "        self.last_prefix_finished_time = None\n        self.last_prefix_elapsed_time = None\n",
      "        self.last_prefix_elapsed_time = None\n", "C27.6"),
    M("init-does-not-load-state", F,
      "        self.last_cycle_elapsed_time = None\n        self.load_state()\n",
      "        self.last_cycle_elapsed_time = None\n", "C27.6"),
    M("sharedir-not-set", F, "        self.sharedir = server.sharedir\n", "", "C27.6"),
    M("timer-not-initialised", F, "        self.timer = None\n        self.bucket_cache = (None, [])\n",
      "        self.bucket_cache = (None, [])\n", "C27.6"),
    M("benign-timing-attrs-as-class-attributes", F,
      "        self.last_prefix_finished_time = None\n        self.last_prefix_elapsed_time = None\n"
      "        self.last_cycle_started_time = None\n        self.last_cycle_elapsed_time = None\n", "", None,
      edits=[(F, "    minimum_cycle_time = 300 # don't run a cycle faster than this\n",
              "    minimum_cycle_time = 300 # don't run a cycle faster than this\n"
              "    last_prefix_finished_time = None\n    last_prefix_elapsed_time = None\n"
              "    last_cycle_started_time = None\n    last_cycle_elapsed_time = None\n")]),
    M("benign-timing-attrs-in-helper", F,
      "        self.last_prefix_finished_time = None\n        self.last_prefix_elapsed_time = None\n"
      "        self.last_cycle_started_time = None\n        self.last_cycle_elapsed_time = None\n        self.load_state()\n",
      "        self._reset_timing()\n        self.load_state()\n", None,
      edits=[(F, "    def minus_or_none(self, a, b):\n",
              "    def _reset_timing(self):\n        self.last_prefix_finished_time = None\n"
              "        self.last_prefix_elapsed_time = None\n        self.last_cycle_started_time = None\n"
              "        self.last_cycle_elapsed_time = None\n\n    def minus_or_none(self, a, b):\n")]),
    M("benign-flag-preset-before-try", F,
      "        try:\n            self.start_current_prefix(start_slice)\n            finished_cycle = True\n"
      "        except TimeSliceExceeded:\n            finished_cycle = False\n",
      "        finished_cycle = False\n        try:\n            self.start_current_prefix(start_slice)\n"
      "            finished_cycle = True\n        except TimeSliceExceeded:\n            pass\n", None),
    M("benign-one-clock-reading-per-cycle-end", F,
      "        self.last_prefix_finished_time = None # don't include the sleep\n        now = time.time()\n"
      "        if self.last_cycle_started_time is not None:\n"
      "            self.last_cycle_elapsed_time = now - self.last_cycle_started_time\n",
      "        self.last_prefix_finished_time = None # don't include the sleep\n"
      "        if self.last_cycle_started_time is not None:\n"
      "            self.last_cycle_elapsed_time = time.time() - self.last_cycle_started_time\n", None),
    M("benign-slice-length-inlined", F,
      "        this_slice = now - start_slice\n", "", None,
      edits=[(F, "        sleep_time = (this_slice / self.allowed_cpu_percentage) - this_slice\n",
              "        sleep_time = ((now - start_slice) / self.allowed_cpu_percentage) - (now - start_slice)\n")]),
    # ---- benign
    M("benign-rename-bucket", F, PP_BODY, PP_BODY.replace("bucket in buckets", "b in buckets").replace(
        "bucket <=", "b <=").replace("prefixdir, bucket)", "prefixdir, b)").replace("] = bucket\n", "] = b\n"), None),
    M("benign-positive-form", F, PP_BODY,
      "        for bucket in buckets:\n"
      "            done = self.state[\"last-complete-bucket\"]\n"
      "            if done is None or bucket > done:\n"
      "                self.process_bucket(cycle, prefix, prefixdir, bucket)\n"
      "                self.state[\"last-complete-bucket\"] = bucket\n"
      "                now = time.time()\n"
      "                if now >= start_slice + self.cpu_slice:\n"
      "                    raise TimeSliceExceeded()\n", None),
    M("benign-sorted-listdir", F,
      "                    buckets = os.listdir(prefixdir)\n                    buckets.sort()\n",
      "                    buckets = sorted(os.listdir(prefixdir))\n", None),
    M("benign-save-rename-tmp", F, SAVE, SAVE.replace("tmpfile", "tmp"), None),
    M("benign-none-eq", F, "        if state[\"current-cycle\"] is None:\n            self.last_cycle_started_time",
      "        if not (state[\"current-cycle\"] is not None):\n            self.last_cycle_started_time", None),
    M("benign-reset-order", F,
      "        state[\"last-complete-bucket\"] = None\n        state[\"last-cycle-finished\"] = cycle\n        state[\"current-cycle\"] = None\n",
      "        state[\"current-cycle\"] = None\n        state[\"last-cycle-finished\"] = cycle\n        state[\"last-complete-bucket\"] = None\n",
      None),
    M("benign-save-in-both-branches", F,
      "            finished_cycle = True\n        except TimeSliceExceeded:\n            finished_cycle = False\n        self.save_state()\n",
      "            finished_cycle = True\n            self.save_state()\n        except TimeSliceExceeded:\n            finished_cycle = False\n            self.save_state()\n",
      None),
    M("benign-time-slice-test-reworded", F,
      "            self.finished_prefix(cycle, prefix)\n            if time.time() >= start_slice + self.cpu_slice:",
      "            self.finished_prefix(cycle, prefix)\n            if time.time() - start_slice >= self.cpu_slice:", None),
    # ---- C27.2 where a share is filed: storage_index_to_dir, with its locals known by what they hold, not by name
    M("benign-si-dir-local-renamed", SC_COMMON, SI_DIR, SI_DIR.replace("sia", "sia_sa"), None),
    M("benign-si-dir-two-locals", SC_COMMON, SI_DIR,
      "    b32 = si_b2a(storageindex)\n    name = b32.decode(\"ascii\")\n    return os.path.join(name[:2], name)\n", None),
    M("benign-si-dir-prefix-in-local", SC_COMMON, SI_DIR,
      "    name = si_b2a(storageindex).decode(\"ascii\")\n    prefix = name[:2]\n    return os.path.join(prefix, name)\n", None),
    M("si-dir-three-character-prefix", SC_COMMON, SI_DIR, SI_DIR.replace("sia[:2]", "sia[:3]"), "C27.2"),
    M("si-dir-renamed-local-wrong-prefix", SC_COMMON, SI_DIR, SI_DIR.replace("sia[:2]", "sia[1:3]").replace("sia", "name"), "C27.2"),
    M("si-dir-prefix-of-undecoded-other-value", SC_COMMON, SI_DIR,
      "    sia = si_b2a(storageindex)\n    sia = sia.decode(\"ascii\")\n    return os.path.join(sia[:2].lower()[:1], sia)\n", "C27.2"),
    # ---- C27.7 the bucket loop walks the whole list (seeded C27-G: an in-memory resume offset that is never cleared)
    M("resume-offset-never-cleared", F, PP_BODY, RESUME_HEAD + RESUME_LOOP, "C27.7", edits=[RESUME_INIT],
      note="seeded C27-G: (prefix, offset) recorded when a slice runs out is still in force when the next cycle reaches "
           "that prefixdir - its first `offset` buckets are skipped in every later cycle"),
    M("resume-offset-sliced-never-cleared", F, PP_BODY,
      "        skip = self._resume_at.get(prefix, 0)\n"
      "        for n, bucket in enumerate(buckets[skip:]):\n"
      + PP_BODY.split("\n", 1)[1].replace(
          "                raise TimeSliceExceeded()\n",
          "                self._resume_at[prefix] = skip + n + 1\n                raise TimeSliceExceeded()\n"),
      "ANALYSIS-ERROR", edits=[(F, "        self.bucket_cache = (None, [])\n", "        self.bucket_cache = (None, [])\n        self._resume_at = {}\n")],
      note="enumerate over a slice is not a recognised walk of the list: fail closed"),
    M("resume-offset-slice-never-cleared", F, PP_BODY,
      "        skip = self._resume_at if self._resume_prefix == prefix else 0\n"
      "        for bucket in buckets[skip:]:\n"
      + PP_BODY.split("\n", 1)[1].replace(
          "                raise TimeSliceExceeded()\n",
          "                self._resume_prefix = prefix\n                self._resume_at = buckets.index(bucket) + 1\n"
          "                raise TimeSliceExceeded()\n"),
      "C27.7", edits=[(F, "        self.bucket_cache = (None, [])\n",
                       "        self.bucket_cache = (None, [])\n        self._resume_prefix = None\n        self._resume_at = 0\n")],
      note="the same mechanism in another spelling: a slice instead of an index range, two attributes instead of a tuple"),
    M("resume-offset-cleared-in-overridden-hook", F, PP_BODY, RESUME_HEAD + RESUME_LOOP, "C27.7",
      edits=[RESUME_INIT, (F, "        pass\n\n    def yielding(self, sleep_time):",
                           "        self._resume_point = (None, 0)\n\n    def yielding(self, sleep_time):")],
      note="the reset sits in ShareCrawler.finished_cycle, a hook the lease crawler overrides without upcall: it never "
           "runs for the crawler that matters"),
    M("resume-offset-cleared-on-resumed-cycles-only", F, PP_BODY, RESUME_HEAD + RESUME_LOOP, "C27.7",
      edits=[RESUME_INIT, (F, "        cycle = state[\"current-cycle\"]\n\n        for i in range(",
                           "        cycle = state[\"current-cycle\"]\n        if self.last_complete_prefix_index >= 0:\n"
                           "            self._resume_point = (None, 0)\n\n        for i in range(")],
      note="a reset that a freshly started cycle (prefix index -1) does not pass"),
    M("bucket-loop-skips-first", F, "        for bucket in buckets:\n", "        for bucket in buckets[1:]:\n", "C27.7"),
    M("bucket-loop-stops-early", F, "        for bucket in buckets:\n", "        for bucket in buckets[:-1]:\n", "C27.7"),
    M("bucket-index-loop-from-one", F, PP_BODY,
      "        for k in range(1, len(buckets)):\n            bucket = buckets[k]\n" + PP_BODY.split("\n", 1)[1], "C27.7"),
    M("benign-resume-offset-cleared-after-loop", F, PP_BODY,
      RESUME_HEAD + RESUME_LOOP + "        self._resume_point = (None, 0)\n", None, edits=[RESUME_INIT],
      note="the repaired form of seeded C27-G: the position is dropped when the prefixdir is finished"),
    M("benign-resume-offset-consumed-on-read", F, PP_BODY,
      RESUME_HEAD.replace("        if resume_prefix", "        self._resume_point = (None, 0)\n        if resume_prefix") + RESUME_LOOP,
      None, edits=[RESUME_INIT],
      note="equally sound: the position is dropped where it is read; the only later store is followed by the raise"),
    M("benign-resume-offset-cleared-at-cycle-end", F, PP_BODY, RESUME_HEAD + RESUME_LOOP, None,
      edits=[RESUME_INIT, (F, "        # yay! we finished the whole cycle\n        self.last_complete_prefix_index = -1\n",
                           "        # yay! we finished the whole cycle\n        self.last_complete_prefix_index = -1\n"
                           "        self._resume_point = (None, 0)\n")]),
    M("benign-resume-offset-cleared-at-cycle-start", F, PP_BODY, RESUME_HEAD + RESUME_LOOP, None,
      edits=[RESUME_INIT, (F, "        if state[\"current-cycle\"] is None:\n            self.last_cycle_started_time = time.time()\n",
                           "        if state[\"current-cycle\"] is None:\n            self._resume_point = (None, 0)\n"
                           "            self.last_cycle_started_time = time.time()\n")]),
    M("benign-resume-offset-keyed-to-cycle", F, PP_BODY,
      RESUME_HEAD.replace("resume_prefix, resume_offset =", "resume_cycle, resume_prefix, resume_offset =").replace(
          "if resume_prefix == prefix", "if resume_cycle == cycle and resume_prefix == prefix")
      + RESUME_LOOP.replace("(prefix, offset + 1)", "(cycle, prefix, offset + 1)"), None,
      edits=[(RESUME_INIT[0], RESUME_INIT[1], RESUME_INIT[2].replace("(None, 0)", "(None, None, 0)"))],
      note="never cleared, but only honoured in the cycle that recorded it"),
    M("resume-offset-keyed-to-other-cycle", F, PP_BODY,
      RESUME_HEAD.replace("resume_prefix, resume_offset =", "resume_cycle, resume_prefix, resume_offset =").replace(
          "if resume_prefix == prefix", "if resume_cycle != cycle and resume_prefix == prefix")
      + RESUME_LOOP.replace("(prefix, offset + 1)", "(cycle, prefix, offset + 1)"), "C27.7",
      edits=[(RESUME_INIT[0], RESUME_INIT[1], RESUME_INIT[2].replace("(None, 0)", "(None, None, 0)"))]),
    M("benign-bucket-index-loop", F, PP_BODY,
      "        for k in range(len(buckets)):\n            bucket = buckets[k]\n" + PP_BODY.split("\n", 1)[1], None),
    M("benign-bucket-enumerate-loop", F, PP_BODY,
      "        for k, bucket in enumerate(buckets):\n" + PP_BODY.split("\n", 1)[1], None),
    M("benign-bucket-loop-over-copy", F, PP_BODY,
      "        todo = list(buckets)\n        for bucket in todo:\n" + PP_BODY.split("\n", 1)[1], None),
    M("bucket-loop-is-a-while", F, PP_BODY,
      "        todo = list(buckets)\n        while todo:\n            bucket = todo.pop(0)\n" + PP_BODY.split("\n", 1)[1],
      "ANALYSIS-ERROR", note="not a for loop: the walk is not recognised, fail closed"),
    # ---- vanished anchors
    M("vanish-start-current-prefix", F, "    def start_current_prefix(self, start_slice):",
      "    def start_current_prefixX(self, start_slice):", "ANALYSIS-ERROR"),
    M("vanish-serializer-save", F, "    def save(self, data):", "    def saveX(self, data):", "ANALYSIS-ERROR"),
]
