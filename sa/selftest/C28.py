from .runner import M

IMM = "src/allmydata/storage/immutable.py"
SRV = "src/allmydata/storage/server.py"
FU = "src/allmydata/util/fileutil.py"

_ALLOC_BLOCK = (
    "                bw = BucketWriter(self, incominghome, finalhome,\n"
    "                                  max_space_per_bucket, lease_info,\n"
    "                                  clock=self._clock)\n"
    "                if self.no_storage:\n"
    "                    # Really this should be done by having a separate class for\n"
    "                    # this situation; see\n"
    "                    # https://tahoe-lafs.org/trac/tahoe-lafs/ticket/3862\n"
    "                    bw.throw_out_all_data = True\n"
    "                bucketwriters[shnum] = bw\n"
    "                self._bucket_writers[incominghome] = bw\n"
    "                if limited:\n"
    "                    remaining_space -= max_space_per_bucket\n")

_ABORT_TAIL = (
    "        self.closed = True\n"
    "        self.ss.bucket_writer_closed(self, 0)\n"
    "\n"
    "        # Cancel timeout if it wasn't already cancelled.\n"
    "        if self._timeout.active():\n"
    "            self._timeout.cancel()\n")
_ABORT_HEAD = (
    "    def abort(self):\n"
    "        log.msg(\"storage: aborting sharefile %s\" % self.incominghome,\n"
    "                facility=\"tahoe.storage\", level=log.UNUSUAL)\n")

MUTANTS = [
    # ---- C28.1 the account
    M("in-progress-not-counted", SRV,
      "            remaining_space -= self.allocated_size()\n", "            pass\n", "C28.1"),
    M("grant-not-subtracted", SRV,
      "                self._bucket_writers[incominghome] = bw\n                if limited:\n                    remaining_space -= max_space_per_bucket\n",
      "                self._bucket_writers[incominghome] = bw\n", "C28.1"),
    M("grant-subtracted-after-loop", SRV,
      "                if limited:\n                    remaining_space -= max_space_per_bucket\n            else:\n"
      "                # bummer! not enough space to accept this bucket\n                pass\n",
      "            else:\n                # bummer! not enough space to accept this bucket\n                pass\n"
      "        if limited:\n            remaining_space -= max_space_per_bucket * len(bucketwriters)\n", "C28.1"),
    M("space-test-positive-only", SRV,
      "            elif (not limited) or (remaining_space >= max_space_per_bucket):",
      "            elif (not limited) or (remaining_space > 0):", "C28.1"),
    M("space-test-inverted-limited", SRV,
      "            elif (not limited) or (remaining_space >= max_space_per_bucket):",
      "            elif limited or (remaining_space >= max_space_per_bucket):", "C28.1"),
    M("grant-added-instead", SRV,
      "                    remaining_space -= max_space_per_bucket\n",
      "                    remaining_space += max_space_per_bucket\n", "C28.1"),
    M("space-test-dropped", SRV,
      "            elif (not limited) or (remaining_space >= max_space_per_bucket):",
      "            elif True:", "C28.1"),
    # ---- C28.2 read-only
    M("readonly-check-dropped", SRV,
      "        if self.readonly_storage:\n            return 0\n        return fileutil.get_available_space(self.sharedir, self.reserved_space)",
      "        return fileutil.get_available_space(self.sharedir, self.reserved_space)", "C28.2"),
    M("readonly-returns-none", SRV,
      "        if self.readonly_storage:\n            return 0\n        return fileutil.get_available_space(",
      "        if self.readonly_storage:\n            return None\n        return fileutil.get_available_space(", "C28.2"),
    M("reserved-space-not-passed", SRV,
      "        return fileutil.get_available_space(self.sharedir, self.reserved_space)",
      "        return fileutil.get_available_space(self.sharedir, 0)", "C28.2"),
    M("reserved-space-ignored-at-init", SRV,
      "        self.reserved_space = int(reserved_space)", "        self.reserved_space = 0", "C28.2"),
    # ---- C28.3 pairing
    M("writer-not-registered", SRV,
      "                bucketwriters[shnum] = bw\n                self._bucket_writers[incominghome] = bw\n",
      "                bucketwriters[shnum] = bw\n", "C28.3"),
    M("writer-registered-conditionally", SRV,
      "                    bw.throw_out_all_data = True\n                bucketwriters[shnum] = bw\n                self._bucket_writers[incominghome] = bw\n",
      "                    bw.throw_out_all_data = True\n                else:\n                    self._bucket_writers[incominghome] = bw\n"
      "                bucketwriters[shnum] = bw\n", "C28.3"),
    M("writer-registered-under-other-key", SRV,
      "                self._bucket_writers[incominghome] = bw\n",
      "                self._bucket_writers[finalhome] = bw\n", "C28.3"),
    M("removal-only-with-stats", SRV,
      "            self.stats_provider.count('storage_server.bytes_added', consumed_size)\n        del self._bucket_writers[bw.incominghome]\n",
      "            self.stats_provider.count('storage_server.bytes_added', consumed_size)\n            del self._bucket_writers[bw.incominghome]\n",
      "C28.3"),
    M("close-keeps-reservation", IMM,
      "        self.ss.bucket_writer_closed(self, filelen)\n", "        self.ss.count(\"bytes_added\", filelen)\n", "C28.3"),
    M("abort-early-return", IMM,
      "        os.remove(self.incominghome)\n",
      "        if not os.path.exists(self.incominghome):\n            self.closed = True\n            return\n        os.remove(self.incominghome)\n",
      "C28.3"),
    M("stopservice-clears-registry", SRV,
      "        for bw in list(self._bucket_writers.values()):\n            bw.disconnected()\n",
      "        for bw in list(self._bucket_writers.values()):\n            bw.disconnected()\n        self._bucket_writers.clear()\n",
      "C28.3"),
    M("allocated-size-takes-max", SRV,
      "            space += bw.allocated_size()\n", "            space = max(space, bw.allocated_size())\n", "C28.3"),
    M("writer-reports-zero", IMM,
      "    def allocated_size(self):\n        return self._max_size",
      "    def allocated_size(self):\n        return 0 if self.throw_out_all_data else self._max_size", "C28.3"),
    # ---- C28.4 fileutil
    M("avail-ignores-reserved", FU,
      "    avail = max(free_for_nonroot - reserved_space, 0)", "    avail = max(free_for_nonroot, 0)", "C28.4"),
    M("avail-uses-root-free", FU,
      "    avail = max(free_for_nonroot - reserved_space, 0)", "    avail = max(free_for_root - reserved_space, 0)", "C28.4"),
    M("os-failure-means-unlimited", FU,
      "        log.msg(\"OS call to get disk statistics failed\")\n        return 0",
      "        log.msg(\"OS call to get disk statistics failed\")\n        return None", "C28.4"),
    M("avail-key-swapped", FU,
      "        return get_disk_stats(whichdir, reserved_space)['avail']",
      "        return get_disk_stats(whichdir, reserved_space)['free_for_nonroot']", "C28.4"),
    # ---- C28.5 the fired timer must reach the release
    M("abort-cancels-timer-first", IMM, _ABORT_TAIL,            # the seeded C28-B mechanism
      "        self._timeout.cancel()\n"
      "        self.closed = True\n"
      "        self.ss.bucket_writer_closed(self, 0)\n", "C28.5"),
    M("timeout-callback-cancels-timer", IMM,
      "                facility=\"tahoe.storage\", level=log.UNUSUAL)\n        self.abort()\n",
      "                facility=\"tahoe.storage\", level=log.UNUSUAL)\n        self._timeout.cancel()\n        self.abort()\n",
      "C28.5"),
    M("abort-stops-timer-via-helper", IMM, _ABORT_HEAD,
      "    def _stop_timer(self):\n        self._timeout.cancel()\n\n" + _ABORT_HEAD + "        self._stop_timer()\n",
      "C28.5", edits=[(IMM, _ABORT_TAIL, "        self.closed = True\n        self.ss.bucket_writer_closed(self, 0)\n")]),
    M("abort-guard-inverted-before-release", IMM, _ABORT_TAIL,
      "        if not self._timeout.active():\n"
      "            self._timeout.cancel()\n"
      "        self.closed = True\n"
      "        self.ss.bucket_writer_closed(self, 0)\n", "C28.5"),
    M("abort-catches-only-cancelled", IMM, _ABORT_TAIL,
      "        try:\n"
      "            self._timeout.cancel()\n"
      "        except error.AlreadyCancelled:\n"
      "            pass\n"
      "        self.closed = True\n"
      "        self.ss.bucket_writer_closed(self, 0)\n", "C28.5",
      edits=[(IMM, "from zope.interface import implementer\n",
              "from zope.interface import implementer\nfrom twisted.internet import error\n")]),
    M("abort-pushes-timer-back-first", IMM,
      "        os.remove(self.incominghome)\n",
      "        self._timeout.reset(30 * 60)  # keep the timer away while we clean up\n        os.remove(self.incominghome)\n",
      "C28.5"),
    # ---- C28.6 directory clean-up before the release
    M("abort-rmdir-guard-inverted", IMM,                      # sweep survivor
      "        if not os.listdir(parentdir):\n            os.rmdir(parentdir)\n",
      "        if os.listdir(parentdir):\n            os.rmdir(parentdir)\n", "C28.6"),
    M("abort-rmdir-unguarded", IMM,
      "        if not os.listdir(parentdir):\n            os.rmdir(parentdir)\n",
      "        os.rmdir(parentdir)\n", "C28.6"),
    M("abort-rmdir-guard-tests-other-dir", IMM,
      "        if not os.listdir(parentdir):\n            os.rmdir(parentdir)\n",
      "        if not os.listdir(os.path.dirname(parentdir)):\n            os.rmdir(parentdir)\n", "C28.6"),
    M("close-rmdir-catches-only-missing-dir", IMM,
      "        except EnvironmentError:\n            # ignore the \"can't rmdir because the directory is not empty\"\n",
      "        except FileNotFoundError:\n            # ignore the \"can't rmdir because the directory is not empty\"\n",
      "C28.6"),
    M("abort-rmdir-via-helper", IMM, _ABORT_HEAD,
      "    def _remove_incoming_dir(self, parentdir):\n        os.rmdir(parentdir)\n\n" + _ABORT_HEAD,
      "C28.6", edits=[(IMM, "        if not os.listdir(parentdir):\n            os.rmdir(parentdir)\n",
                       "        self._remove_incoming_dir(parentdir)\n")]),
    # ---- benign
    M("benign-guarded-cancel-before-release", IMM, _ABORT_TAIL,
      "        if self._timeout.active():\n"
      "            self._timeout.cancel()\n"
      "        self.closed = True\n"
      "        self.ss.bucket_writer_closed(self, 0)\n", None),
    M("benign-guard-hoisted-alias", IMM, _ABORT_TAIL,
      "        timer = self._timeout\n"
      "        still_armed = timer.active()\n"
      "        if still_armed:\n"
      "            timer.cancel()\n"
      "        self.closed = True\n"
      "        self.ss.bucket_writer_closed(self, 0)\n", None),
    M("benign-cancel-caught-before-release", IMM, _ABORT_TAIL,
      "        try:\n"
      "            self._timeout.cancel()\n"
      "        except (error.AlreadyCalled, error.AlreadyCancelled):\n"
      "            pass\n"
      "        self.closed = True\n"
      "        self.ss.bucket_writer_closed(self, 0)\n", None,
      edits=[(IMM, "from zope.interface import implementer\n",
              "from zope.interface import implementer\nfrom twisted.internet import error\n")]),
    M("benign-cancel-suppressed-before-release", IMM, _ABORT_TAIL,
      "        with suppress(error.AlreadyCalled, error.AlreadyCancelled):\n"
      "            self._timeout.cancel()\n"
      "        self.closed = True\n"
      "        self.ss.bucket_writer_closed(self, 0)\n", None,
      edits=[(IMM, "from zope.interface import implementer\n",
              "from zope.interface import implementer\nfrom contextlib import suppress\nfrom twisted.internet import error\n")]),
    M("benign-release-in-finally", IMM, _ABORT_TAIL,
      "        try:\n"
      "            if self._timeout.active():\n"
      "                self._timeout.cancel()\n"
      "        finally:\n"
      "            self.closed = True\n"
      "            self.ss.bucket_writer_closed(self, 0)\n", None),
    M("benign-unguarded-cancel-but-finally-releases", IMM, _ABORT_TAIL,
      "        try:\n"
      "            self._timeout.cancel()\n"
      "        finally:\n"
      "            self.closed = True\n"
      "            self.ss.bucket_writer_closed(self, 0)\n", None),
    M("benign-timer-calls-abort-directly", IMM,
      "        self._timeout = clock.callLater(30 * 60, self._abort_due_to_timeout)",
      "        self._timeout = clock.callLater(30 * 60, self.abort)", None),
    M("benign-flipped-compare", SRV,
      "            elif (not limited) or (remaining_space >= max_space_per_bucket):",
      "            elif (not limited) or not (max_space_per_bucket > remaining_space):", None),
    M("benign-limited-inlined", SRV,
      "        if limited:\n            # this is a bit conservative",
      "        if remaining_space is not None:\n            # this is a bit conservative", None),
    M("benign-rename-writer-local", SRV, _ALLOC_BLOCK,
      _ALLOC_BLOCK.replace("bw = ", "writer = ").replace("bw.throw", "writer.throw").replace("= bw\n", "= writer\n"), None),
    M("benign-register-before-map", SRV,
      "                bucketwriters[shnum] = bw\n                self._bucket_writers[incominghome] = bw\n",
      "                self._bucket_writers[bw.incominghome] = bw\n                bucketwriters[shnum] = bw\n", None),
    M("benign-sum-generator", SRV,
      "        space = 0\n        for bw in self._bucket_writers.values():\n            space += bw.allocated_size()\n        return space",
      "        return sum(bw.allocated_size() for bw in self._bucket_writers.values())", None),
    M("benign-readonly-branch-swapped", SRV,
      "        if self.readonly_storage:\n            return 0\n        return fileutil.get_available_space(self.sharedir, self.reserved_space)",
      "        if not self.readonly_storage:\n            return fileutil.get_available_space(self.sharedir, self.reserved_space)\n        return 0",
      None),
    M("benign-avail-unclamped-temp", FU,
      "    avail = max(free_for_nonroot - reserved_space, 0)",
      "    unreserved = free_for_nonroot - reserved_space\n    avail = max(0, unreserved)", None),
    M("benign-rmdir-guard-len-zero", IMM,
      "        if not os.listdir(parentdir):\n            os.rmdir(parentdir)\n",
      "        if len(os.listdir(parentdir)) == 0:\n            os.rmdir(parentdir)\n", None),
    M("benign-rmdir-guard-hoisted", IMM,
      "        if not os.listdir(parentdir):\n            os.rmdir(parentdir)\n",
      "        leftovers = os.listdir(parentdir)\n        if leftovers:\n            pass\n        else:\n            os.rmdir(parentdir)\n", None),
    M("benign-rmdir-caught-instead-of-guarded", IMM,
      "        if not os.listdir(parentdir):\n            os.rmdir(parentdir)\n",
      "        try:\n            os.rmdir(parentdir)\n        except OSError:\n            pass  # other shares are still there\n", None),
    M("benign-rmdir-after-release", IMM,
      "        if not os.listdir(parentdir):\n            os.rmdir(parentdir)\n        self._sharefile = None\n",
      "        self._sharefile = None\n", None,
      edits=[(IMM, "        self.ss.bucket_writer_closed(self, 0)\n",
              "        self.ss.bucket_writer_closed(self, 0)\n        if not os.listdir(parentdir):\n            os.rmdir(parentdir)\n")]),
    M("benign-rmdir-guarded-via-helper", IMM, _ABORT_HEAD,
      "    def _remove_incoming_dir(self, parentdir):\n        os.rmdir(parentdir)\n\n" + _ABORT_HEAD,
      None, edits=[(IMM, "        if not os.listdir(parentdir):\n            os.rmdir(parentdir)\n",
                    "        if not os.listdir(parentdir):\n            self._remove_incoming_dir(parentdir)\n")]),
    M("benign-no-dir-cleanup-in-abort", IMM,
      "        if not os.listdir(parentdir):\n            os.rmdir(parentdir)\n", "", None),
    # ---- vanished anchor
    M("vanish-timeout-callback-no-longer-aborts", IMM,
      "                facility=\"tahoe.storage\", level=log.UNUSUAL)\n        self.abort()\n",
      "                facility=\"tahoe.storage\", level=log.UNUSUAL)\n", "ANALYSIS-ERROR"),
    M("vanish-bucket-writer-closed", SRV, "    def bucket_writer_closed(self, bw, consumed_size):",
      "    def bucket_writer_done(self, bw, consumed_size):", "ANALYSIS-ERROR"),
]
